/* minimal <unistd.h> for building compat/libc/stdio against the compat libc's own headers on the host
   (the target platform normally supplies it); only what the compat sources use */
#ifndef VERIF_SHIM_UNISTD_H
#define VERIF_SHIM_UNISTD_H
#include <stddef.h>
#ifdef __cplusplus
extern "C" {
#endif
long write(int fd, const void *buf, size_t n);
long read(int fd, void *buf, size_t n);
int close(int fd);
#ifdef __cplusplus
}
#endif
#endif
