#include <igris/types-generic/limits64.h>
