#include <igris/types-generic/limits32.h>
