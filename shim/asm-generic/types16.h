#include <igris/types-generic/types16.h>
