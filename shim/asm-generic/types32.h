#include <igris/types-generic/types32.h>
