#include <igris/types-generic/limits16.h>
