#include <igris/types-generic/types64.h>
