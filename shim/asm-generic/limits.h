#include <igris/types-generic/limits.h>
