// C19 — argv splitter (argvc_internal_split / _n) and the shell dispatchers (mshell_*, rshell_*) against a
// white-space tokeniser + table lookup reference. Lines live in exactly-sized heap copies (both placements).
// With -DC19_VALGRIND the same suites run (smaller) under valgrind memcheck and every dispatcher call is
// bracketed by VALGRIND_COUNT_ERRORS: a use of an uninitialised argv[] slot is invisible to ASan.
#ifdef C19_SHELL_MAIN
#define VF_MAIN
#endif
#include "c19.h"
#include <errno.h>
extern "C"
{
#include <igris/datastruct/argvc.h>
#include <igris/shell/mshell.h>
#include <igris/shell/rshell.h>
}
#ifdef C19_VALGRIND
#include <valgrind/valgrind.h>
#endif

using namespace c19;
typedef std::vector<std::string> Toks;

static const char *WS = " \r\n\t";
static bool ws(char c) { return c == ' ' || c == '\r' || c == '\n' || c == '\t'; }
struct Tok
{
    size_t off, len;
};
// white-space separated tokens of s[0, n) (n already cut at the first NUL)
static std::vector<Tok> ref_tokens(const std::string &s)
{
    std::vector<Tok> v;
    size_t i = 0, n = s.size();
    while (i < n)
    {
        if (ws(s[i]))
        {
            i++;
            continue;
        }
        size_t j = i;
        while (j < n && !ws(s[j]))
            j++;
        v.push_back(Tok{i, j - i});
        i = j;
    }
    return v;
}
static Toks tok_strings(const std::string &s, const std::vector<Tok> &t, size_t maxn)
{
    Toks v;
    for (size_t i = 0; i < t.size() && i < maxn; i++)
        v.push_back(s.substr(t[i].off, t[i].len));
    return v;
}

// ---------------------------------------------------------------- memcheck bracket
struct MemcheckScope
{
#ifdef C19_VALGRIND
    unsigned before;
    MemcheckScope() : before(VALGRIND_COUNT_ERRORS) {}
    void done(const char *routine, bool blank, const std::string &line)
    {
        unsigned now = VALGRIND_COUNT_ERRORS;
        if (now != before)
        {
            char key[160];
            snprintf(key, sizeof key, "memcheck:error-inside:%s:%s", routine, blank ? "blank-line" : "line");
            // not thrown: the remaining dispatchers of the case are still exercised
            vf::fail_nothrow(key, "valgrind memcheck reported %u error(s) during %s(\"%s\") (see stderr.txt of the unit)", now - before,
                             routine, show(line).c_str());
        }
        VF_OK("memcheck silent during the dispatcher call");
    }
#else
    void done(const char *, bool, const std::string &) {}
#endif
};

// ---------------------------------------------------------------- argvc_internal_split (C string)
static const int ARGCMAX[] = {0, 1, 2, 3, 10};
static void check_split_cstr(const std::string &s)
{
    std::vector<Tok> toks = ref_tokens(s);
    for (int m = 0; m < 2; m++)
        for (int argcmax : ARGCMAX)
        {
            vf::ExactStr e(s, m == 0 ? 1 + (unsigned)s.size() % 3 : 0, m == 1);
            vf::Exact av(nullptr, sizeof(char *) * argcmax, 0, false); // argv[argcmax] is red zone
            char **argv = (char **)av.p;
            vf::cls("argvc_internal_split");
            int argc = argvc_internal_split(e.c(), argv, argcmax);
            Toks ref = tok_strings(s, toks, (size_t)argcmax);
            if (argc < 0 || argc > argcmax)
                vf::fail("argvc_internal_split:argc>argcmax", "line=\"%s\" argcmax=%d argc=%d", show(s).c_str(), argcmax, argc);
            VF_OK("argvc_internal_split: argc <= argcmax");
            if ((size_t)argc != ref.size())
                vf::fail("argvc_internal_split:argc!=reference", "line=\"%s\" argcmax=%d argc=%d ref=%zu", show(s).c_str(), argcmax, argc, ref.size());
            for (int i = 0; i < argc; i++)
            {
                if (argv[i] != e.c() + toks[i].off || ref[i] != argv[i])
                    vf::fail("argvc_internal_split:token!=reference", "line=\"%s\" argcmax=%d token %d at offset %td ref \"%s\" at %zu", show(s).c_str(),
                             argcmax, i, argv[i] - e.c(), show(ref[i]).c_str(), toks[i].off);
            }
            VF_OK("argvc_internal_split == first argcmax white-space tokens");
        }
}
// argvc_internal_split_n: sized, possibly unterminated; a NUL inside ends the text (DESIGN §3a)
static void check_split_n(const std::string &raw)
{
    std::string s = raw.substr(0, raw.find('\0')); // effective text
    std::vector<Tok> toks = ref_tokens(s);
    for (int m = 0; m < 2; m++)
        for (int argcmax : ARGCMAX)
        {
            Place pl = place(m, raw.size());
            vf::Exact e(raw.data(), raw.size(), pl.mis, pl.mirror);
            vf::Exact av(nullptr, sizeof(char *) * argcmax, 0, false);
            char **argv = (char **)av.p;
            vf::cls("argvc_internal_split_n");
            int argc = argvc_internal_split_n(e.c(), (int)raw.size(), argv, argcmax);
            size_t want = toks.size() < (size_t)argcmax ? toks.size() : (size_t)argcmax;
            if (argc < 0 || argc > argcmax)
                vf::fail("argvc_internal_split_n:argc>argcmax", "text=\"%s\" argcmax=%d argc=%d", show(raw).c_str(), argcmax, argc);
            if ((size_t)argc != want)
                vf::fail("argvc_internal_split_n:argc!=reference", "text=\"%s\" maxlen=%zu argcmax=%d argc=%d ref=%zu", show(raw).c_str(), raw.size(),
                         argcmax, argc, want);
            for (int i = 0; i < argc; i++)
            {
                const Tok &t = toks[i];
                bool ok = argv[i] == e.c() + t.off && memcmp(argv[i], s.data() + t.off, t.len) == 0;
                // a token that stops before the end of the block must have been terminated in place
                if (ok && t.off + t.len < raw.size() && argv[i][t.len] != '\0')
                    ok = false;
                if (!ok)
                    vf::fail("argvc_internal_split_n:token!=reference", "text=\"%s\" argcmax=%d token %d at offset %td, ref \"%s\" at %zu",
                             show(raw).c_str(), argcmax, i, argv[i] - e.c(), show(s.substr(t.off, t.len)).c_str(), t.off);
            }
            VF_OK("argvc_internal_split_n == first argcmax white-space tokens of the sized text");
            if (!toks.empty() && toks.back().off + toks.back().len == raw.size() && (size_t)argcmax >= toks.size())
                VF_OK("argvc_internal_split_n: last token touches the end of the block");
        }
}

// ---------------------------------------------------------------- dispatchers
struct Call
{
    int which, argc;
    Toks argv;
    char *out;
    int maxsize;
};
static std::vector<Call> g_calls;
// nested dispatch: while a handler runs (before it reads its own argv) it dispatches / splits another line itself
static int g_nest_mode = -1; // -1: none; 0..5 see run_nested
static std::string g_nest_line;
static int g_depth = 0;
static void run_nested();
static void record(int which, int argc, char **argv, char *out, int maxsize)
{
    if (g_nest_mode >= 0 && g_depth == 0)
    {
        g_depth++;
        run_nested();
        g_depth--;
    }
    Call c{which, argc, {}, out, maxsize};
    if (argc < 0 || argc > 64)
        vf::fail_nothrow("dispatcher:handler-argc-out-of-range", "handler %d called with argc=%d", which, argc);
    else
        for (int i = 0; i < argc; i++)
            c.argv.push_back(argv[i]);
    g_calls.push_back(c);
}
static int m0(int c, char **v) { return record(0, c, v, nullptr, 0), 100; }
static int m1(int c, char **v) { return record(1, c, v, nullptr, 0), 101; }
static int m2(int c, char **v) { return record(2, c, v, nullptr, 0), 102; }
static int r0(int c, char **v, char *o, int n) { return record(0, c, v, o, n), 100; }
static int r1(int c, char **v, char *o, int n) { return record(1, c, v, o, n), 101; }
static int r2(int c, char **v, char *o, int n) { return record(2, c, v, o, n), 102; }

// command tables of 3 commands, some names being prefixes of others
// table 1 holds a command name of 300 characters (set in build_tables)
static const std::string LONGNAME = long_token(300);
static const char *NAMES[4][3] = {{"a", "ab", "b"}, {"ab", nullptr, "a"}, {"a/", ".", "\""}, {"ba", "\xE1", "a\xA0" "b"}};
enum
{
    NTABLES = 4,
    ARGCMAX_SHELL = 10
};
static mshell_command MT[NTABLES][4];
static rshell_command RT[NTABLES][4];
static void build_tables()
{
    static bool done = false;
    if (done)
        return;
    done = true;
    NAMES[1][1] = LONGNAME.c_str();
    int (*mf[3])(int, char **) = {m0, m1, m2};
    int (*rf[3])(int, char **, char *, int) = {r0, r1, r2};
    for (int t = 0; t < NTABLES; t++)
    {
        for (int i = 0; i < 3; i++)
        {
            MT[t][i] = mshell_command{NAMES[t][i], mf[i], i == 1 ? "help" : nullptr};
            RT[t][i] = rshell_command{NAMES[t][i], rf[i], nullptr};
        }
        MT[t][3] = mshell_command{nullptr, nullptr, nullptr};
        RT[t][3] = rshell_command{nullptr, nullptr, nullptr};
    }
}
// index of the first command of table t named `name`, -1 if none
static int lookup(int t, const std::string &name)
{
    for (int i = 0; i < 3; i++)
        if (name == NAMES[t][i])
            return i;
    return -1;
}

struct Expect
{
    bool blank;
    int which;     // -1: no handler
    Toks argv;     // what the handler must see
    int dropargs;
};
static void verify(const char *routine, const std::string &line, int t, const Expect &ex, int ret, int retval, bool have_retval, char *out,
                   int maxsize)
{
    char key[200];
    if (ex.which < 0)
    {
        if (!g_calls.empty())
        {
            snprintf(key, sizeof key, "dispatcher:%s:handler-ran-without-command", routine);
            vf::fail(key, "line=\"%s\" table=%d: handler %d ran although token 0 names no command", show(line).c_str(), t, g_calls[0].which);
        }
        if (!ex.blank && ret != ENOENT)
        {
            snprintf(key, sizeof key, "dispatcher:%s:unknown-command-not-ENOENT", routine);
            vf::fail(key, "line=\"%s\" table=%d returned %d", show(line).c_str(), t, ret);
        }
        if (ex.blank)
            VF_OK("dispatcher tolerates an empty / blank line (no handler runs)");
        else
            VF_OK("dispatcher: unknown first token -> no handler, ENOENT");
        return;
    }
    if (g_calls.size() != 1 || g_calls[0].which != ex.which)
    {
        snprintf(key, sizeof key, "dispatcher:%s:wrong-handler", routine);
        vf::fail(key, "line=\"%s\" table=%d: %zu handler call(s), first=%d, expected exactly handler %d (\"%s\")", show(line).c_str(), t, g_calls.size(),
                 g_calls.empty() ? -1 : g_calls[0].which, ex.which, NAMES[t][ex.which]);
    }
    const Call &c = g_calls[0];
    if (c.argc > ARGCMAX_SHELL)
    {
        snprintf(key, sizeof key, "dispatcher:%s:argc>10", routine);
        vf::fail(key, "line=\"%s\" argc=%d", show(line).c_str(), c.argc);
    }
    if (c.argv != ex.argv)
    {
        snprintf(key, sizeof key, "dispatcher:%s:argv!=tokens", routine);
        vf::fail(key, "line=\"%s\" table=%d dropargs=%d handler saw argc=%d argv=%s, reference %s", show(line).c_str(), t, ex.dropargs, c.argc,
                 show(c.argv).c_str(), show(ex.argv).c_str());
    }
    if (ret != SSHELL_OK || (have_retval && retval != 100 + ex.which) || c.out != out || c.maxsize != maxsize)
    {
        snprintf(key, sizeof key, "dispatcher:%s:return/retptr/output", routine);
        vf::fail(key, "line=\"%s\" ret=%d *retptr=%d (handler returned %d) output passed through=%d", show(line).c_str(), ret, retval, 100 + ex.which,
                 c.out == out && c.maxsize == maxsize);
    }
    VF_OK("dispatcher runs exactly the handler named by token 0 with argc/argv as split");
    if (ex.argv.size() == ARGCMAX_SHELL - (size_t)ex.dropargs)
        VF_OK("dispatcher: line with >= 10 tokens, handler sees at most 10");
}

static void check_dispatch(const std::string &line, uint64_t salt)
{
    build_tables();
    std::vector<Tok> toks = ref_tokens(line);
    Toks all = tok_strings(line, toks, ARGCMAX_SHELL);
    bool blank = all.empty();
    int m = (int)(salt & 1);
    unsigned mis = m == 0 ? 1 + (unsigned)line.size() % 3 : 0;
    for (int t = 0; t < NTABLES; t++)
    {
        int which = blank ? -1 : lookup(t, all[0]);
        Expect ex{blank, which, all, 0};
        int ret, rv;
        {
            vf::ExactStr e(line, mis, m == 1);
            g_calls.clear();
            rv = -7;
            vf::cls(blank ? "mshell_execute:blank-line" : "mshell_execute");
            MemcheckScope mc;
            ret = mshell_execute(e.c(), MT[t], &rv);
            mc.done("mshell_execute", blank, line);
            verify("mshell_execute", line, t, ex, ret, rv, true, nullptr, 0);
        }
        {
            // two tables: the other table first, so a hit may come from either; no retptr
            int t2 = (t + 1) % NTABLES;
            const mshell_command *tabs[3] = {MT[t2], MT[t], nullptr};
            int w2 = blank ? -1 : lookup(t2, all[0]);
            Expect ex2{blank, w2 >= 0 ? w2 : which, all, 0};
            vf::ExactStr e(line, mis, m == 1);
            g_calls.clear();
            vf::cls(blank ? "mshell_tables_execute:blank-line" : "mshell_tables_execute");
            MemcheckScope mc;
            ret = mshell_tables_execute(e.c(), tabs, nullptr);
            mc.done("mshell_tables_execute", blank, line);
            verify("mshell_tables_execute", line, t, ex2, ret, 0, false, nullptr, 0);
        }
        for (int drop = 0; drop < 2; drop++)
        {
            Expect exr = ex;
            exr.dropargs = drop;
            if (drop && !exr.argv.empty())
                exr.argv.erase(exr.argv.begin());
            char outbuf[8];
            vf::ExactStr e(line, mis, m == 1);
            g_calls.clear();
            rv = -7;
            vf::cls(blank ? "rshell_execute:blank-line" : "rshell_execute");
            MemcheckScope mc;
            ret = rshell_execute(e.c(), RT[t], &rv, drop, outbuf, (int)sizeof outbuf);
            mc.done("rshell_execute", blank, line);
            verify("rshell_execute", line, t, exr, ret, rv, true, outbuf, (int)sizeof outbuf);
        }
        {
            int t2 = (t + 2) % NTABLES;
            const rshell_command_table tabs[3] = {{RT[t2], 0}, {RT[t], 1}, {nullptr, 0}};
            int w2 = blank ? -1 : lookup(t2, all[0]);
            Expect exr{blank, w2 >= 0 ? w2 : which, all, w2 >= 0 ? 0 : 1};
            if (exr.dropargs && !exr.argv.empty())
                exr.argv.erase(exr.argv.begin());
            char outbuf[4];
            vf::ExactStr e(line, mis, m == 1);
            g_calls.clear();
            rv = -7;
            vf::cls(blank ? "rshell_tables_execute:blank-line" : "rshell_tables_execute");
            MemcheckScope mc;
            ret = rshell_tables_execute(e.c(), tabs, &rv, outbuf, (int)sizeof outbuf);
            mc.done("rshell_tables_execute", blank, line);
            verify("rshell_tables_execute", line, t, exr, ret, rv, true, outbuf, (int)sizeof outbuf);
        }
        if (!blank)
        {
            // rshell_execute_v on an argv prepared by the caller
            std::vector<vf::ExactStr *> keep;
            std::vector<char *> argv;
            for (const std::string &a : all)
            {
                keep.push_back(new vf::ExactStr(a, 0, m == 1));
                argv.push_back(keep.back()->c());
            }
            g_calls.clear();
            rv = -7;
            vf::cls("rshell_execute_v");
            MemcheckScope mc;
            ret = rshell_execute_v((int)argv.size(), argv.data(), RT[t], &rv, 0, nullptr, 0);
            mc.done("rshell_execute_v", false, line);
            for (auto *k : keep)
                delete k;
            verify("rshell_execute_v", line, t, ex, ret, rv, true, nullptr, 0);
        }
    }
}

// ---------------------------------------------------------------- suites
#ifdef C19_VALGRIND
static int vg_len() { return 3; }
static uint64_t lines_count() { return (nstrings(vg_len()) + 63) / 64; }
static void lines_run(uint64_t idx)
{
    uint64_t lo = idx * 64, hi = lo + 64, tot = nstrings(vg_len()), n = 0, k = 0;
    for (uint64_t i = lo; i < hi && i < tot; i++)
    {
        std::string s = nth(i);
        if (has_nul(s))
            continue;
        if (vf::verbose())
            printf("  line=\"%s\"\n", show(s).c_str());
        check_dispatch(s, i);
        check_split_cstr(s);
        n++;
        k += !ref_tokens(s).empty();
    }
    vf::count_bulk(n, k);
}
static uint64_t rand_count() { return 1400; }
#else
static uint64_t lines_count() { return enum_cases(false); }
static void lines_run(uint64_t idx)
{
    uint64_t i = idx * enum_batch(), n = 0, k = 0;
    enum_run(idx, [&](const std::string &s) {
        i++;
        check_split_n(s);
        if (has_nul(s))
            return; // as a C string this is a shorter string of the enumeration
        if (vf::verbose())
            printf("  line=\"%s\"\n", show(s).c_str());
        check_split_cstr(s);
        check_dispatch(s, i);
        n++;
        k += !ref_tokens(s).empty();
    }, false);
    vf::count_bulk(n, k);
    if (idx == 30 && vf::want_sample())
        vf::sample("shell: every NUL-free line of length <= %d over the alphabet x 4 tables {a,ab,b},{ab,<300 characters>,a},{a/,.,\"},{ba,0xE1,a 0xA0 b} through "
                   "mshell_execute, mshell_tables_execute, rshell_execute (dropargs 0/1), rshell_tables_execute, rshell_execute_v",
                   enum_maxlen(false));
}
static uint64_t rand_count() { return scaled(vf::thorough() ? 200000 : 5000); }
#endif
VF_SUITE(shell_lines, lines_count, lines_run)

#ifndef C19_VALGRIND
// long tokens and long command names (254..5000 characters) through the argv splitters and the dispatchers
static uint64_t slong_count() { return 6 * 6; }
static void slong_run(uint64_t idx)
{
    build_tables();
    size_t L = LONG_LENS[idx % 6];
    std::string t = long_token(L, (unsigned)idx), s;
    switch ((idx / 6) % 6)
    {
    case 0:
        s = t;
        break;
    case 1:
        s = t + " " + long_token(L, 9) + "\t" + t;
        break;
    case 2:
        s = "a " + t + "  b";
        break;
    case 3:
        s = LONGNAME + (L % 2 ? " " + t : std::string());
        break;
    case 4:
        s = (L % 2 ? LONGNAME.substr(0, 255) : LONGNAME + "l") + " " + t;
        break;
    default:
        s = std::string(L, ' ') + "ab " + std::string(L, '\n') + t + std::string(L, '\r');
    }
    if (vf::verbose())
        printf("  long line, token length %zu, %zu bytes: \"%s\"\n", L, s.size(), show(s).c_str());
    check_split_cstr(s);
    check_split_n(s);
    check_split_n(s.substr(0, s.size() / 2) + std::string(1, '\0') + s.substr(s.size() / 2));
    check_dispatch(s, idx);
    VF_OK("long tokens / command names (254..5000 characters) through the argv splitters and dispatchers");
    vf::count_case(vf::hash_bytes(s.data(), s.size()), true);
}
VF_SUITE(shell_long, slong_count, slong_run)
#endif

static void rand_run(uint64_t idx)
{
    vf::Rng r(vf::seed(), 0xC195, idx);
    std::string s;
    int kind = (int)r.below(4);
    if (kind == 0)
        s = random_text(r, 60, false);
    else
    {
        // command-like: leading blanks, a (near) command name, up to 14 arguments
        static const char *HEADS[] = {"a", "ab", "b", "abb", "a/", ".", "\"", "ba", "b.", "aa", "abc", "", "A", "a.", "\xE1", "a\xA0" "b", "a\xA0", "\xA0"};
        int lead = r.chance(1, 3) ? (int)r.below(4) : 0;
        for (int i = 0; i < lead; i++)
            s += WS[r.below(4)];
        s += HEADS[r.below(sizeof HEADS / sizeof HEADS[0])];
        int nargs = kind == 3 ? (int)r.range(8, 14) : (int)r.below(5);
        for (int i = 0; i < nargs; i++)
        {
            int sp = 1 + (int)r.below(3);
            for (int j = 0; j < sp; j++)
                s += WS[r.chance(3, 4) ? 0 : r.below(4)];
            int l = 1 + (int)r.below(5);
            for (int j = 0; j < l; j++)
                s += "ab/.\"x-1\xA0\x89"[r.below(10)];
        }
        if (r.chance(1, 3))
            s += WS[r.below(4)];
    }
    if (r.chance(1, 25))
        s = std::string(r.below(6), " \t\r\n"[r.below(4)]); // blank line
    if (vf::verbose())
        printf("  line=\"%s\"\n", show(s).c_str());
    check_split_cstr(s);
    check_dispatch(s, idx);
#ifndef C19_VALGRIND
    std::string raw = s;
    if (r.chance(1, 4) && !raw.empty())
        raw[r.below(raw.size())] = '\0';
    check_split_n(raw);
#endif
    vf::count_case(vf::hash_bytes(s.data(), s.size()), !ref_tokens(s).empty());
}
VF_SUITE(shell_random, rand_count, rand_run)

#ifndef C19_VALGRIND
// ---------------------------------------------------------------- nested dispatch: a handler that runs another line
// ("alias", "repeat", script commands) and then goes on reading its own arguments, which must be unchanged
static int g_nest_table = 0;
static void run_nested()
{
    vf::ExactStr e(g_nest_line, 1, false);
    int rv = 0;
    char out[4];
    const mshell_command *mtabs[3] = {MT[(g_nest_table + 1) % NTABLES], MT[g_nest_table], nullptr};
    const rshell_command_table rtabs[3] = {{RT[(g_nest_table + 2) % NTABLES], 0}, {RT[g_nest_table], 0}, {nullptr, 0}};
    switch (g_nest_mode)
    {
    case 0:
        mshell_execute(e.c(), MT[g_nest_table], &rv);
        break;
    case 1:
        mshell_tables_execute(e.c(), mtabs, &rv);
        break;
    case 2:
        rshell_execute(e.c(), RT[g_nest_table], &rv, 0, out, 4);
        break;
    case 3:
        rshell_tables_execute(e.c(), rtabs, &rv, out, 4);
        break;
    case 4:
    {
        char *av[ARGCMAX_SHELL];
        (void)argvc_internal_split(e.c(), av, ARGCMAX_SHELL);
        break;
    }
    default:
    {
        char *av[ARGCMAX_SHELL];
        (void)argvc_internal_split_n(e.c(), (int)g_nest_line.size(), av, ARGCMAX_SHELL);
    }
    }
}
static const char *const OUTER_NAME[4] = {"mshell_execute", "mshell_tables_execute", "rshell_execute", "rshell_tables_execute"};
static void check_nested(const std::string &line, const std::string &inner, int t, int outer, int mode)
{
    build_tables();
    std::vector<Tok> toks = ref_tokens(line);
    Toks all = tok_strings(line, toks, ARGCMAX_SHELL);
    if (all.empty() || lookup(t, all[0]) < 0)
        return; // the outer line must reach a handler
    // which handler the outer dispatcher reaches (tables variants look at another table first)
    int which = lookup(t, all[0]);
    if (outer == 1 && lookup((t + 1) % NTABLES, all[0]) >= 0)
        which = lookup((t + 1) % NTABLES, all[0]);
    if (outer == 3 && lookup((t + 2) % NTABLES, all[0]) >= 0)
        which = lookup((t + 2) % NTABLES, all[0]);
    vf::ExactStr e(line, 1, false);
    const mshell_command *mtabs[3] = {MT[(t + 1) % NTABLES], MT[t], nullptr};
    const rshell_command_table rtabs[3] = {{RT[(t + 2) % NTABLES], 0}, {RT[t], 0}, {nullptr, 0}};
    char out[4];
    int rv = -7, ret;
    g_calls.clear();
    g_nest_mode = mode;
    g_nest_line = inner;
    g_nest_table = (t + 3) % NTABLES;
    char cls[80];
    snprintf(cls, sizeof cls, "%s:nested", OUTER_NAME[outer]);
    vf::cls(cls);
    if (vf::verbose())
        printf("  nested: %s(\"%s\") whose handler runs mode %d on \"%s\"\n", OUTER_NAME[outer], show(line).c_str(), mode, show(inner).c_str());
    switch (outer)
    {
    case 0:
        ret = mshell_execute(e.c(), MT[t], &rv);
        break;
    case 1:
        ret = mshell_tables_execute(e.c(), mtabs, &rv);
        break;
    case 2:
        ret = rshell_execute(e.c(), RT[t], &rv, 0, out, 4);
        break;
    default:
        ret = rshell_tables_execute(e.c(), rtabs, &rv, out, 4);
    }
    g_nest_mode = -1;
    // the outer handler's record is the last one (it reads its argv after the nested activity)
    char key[160];
    if (g_calls.empty() || g_calls.back().which != which || g_calls.back().argv != all || ret != SSHELL_OK || rv != 100 + which)
    {
        snprintf(key, sizeof key, "dispatcher:%s:argv-changed-by-nested-activity", OUTER_NAME[outer]);
        vf::fail(key, "line=\"%s\" table=%d; its handler ran %s on \"%s\" and then saw argv=%s (handler %d, ret=%d, *retptr=%d), reference %s (handler %d)",
                 show(line).c_str(), t, mode < 4 ? OUTER_NAME[mode] : mode == 4 ? "argvc_internal_split" : "argvc_internal_split_n", show(inner).c_str(),
                 g_calls.empty() ? "-" : show(g_calls.back().argv).c_str(), g_calls.empty() ? -1 : g_calls.back().which, ret, rv, show(all).c_str(), which);
    }
    VF_OK("a handler that dispatches / splits another line still sees its own argc/argv afterwards");
}
static std::string command_line(vf::Rng &r)
{
    static const char *HEADS[] = {"a", "ab", "b", "a/", ".", "\"", "ba", "zz", "\xE1"};
    std::string s = HEADS[r.below(sizeof HEADS / sizeof HEADS[0])];
    int nargs = (int)r.below(r.chance(1, 6) ? 13 : 5);
    for (int i = 0; i < nargs; i++)
    {
        s += r.chance(1, 5) ? "\t " : " ";
        int l = 1 + (int)r.below(5);
        for (int j = 0; j < l; j++)
            s += "ab/.xyz01"[r.below(9)];
    }
    return s;
}
static uint64_t nested_count() { return scaled(vf::thorough() ? 20000 : 600); }
static void nested_run(uint64_t idx)
{
    vf::Rng r(vf::seed(), 0xC19E, idx);
    std::string line = command_line(r), inner = r.chance(1, 8) ? std::string("  ") : command_line(r);
    for (int t = 0; t < NTABLES; t++)
        for (int outer = 0; outer < 4; outer++)
            check_nested(line, inner, t, outer, (int)((idx + (uint64_t)outer + (uint64_t)t) % 6));
    vf::count_case(vf::hash_bytes(line.data(), line.size(), vf::hash_bytes(inner.data(), inner.size())), true);
}
VF_SUITE(shell_nested, nested_count, nested_run)
#endif

void c19_shell_setup()
{
    for (const char *c : {"argvc_internal_split: argc <= argcmax", "argvc_internal_split == first argcmax white-space tokens",
#ifndef C19_VALGRIND
                          "argvc_internal_split_n == first argcmax white-space tokens of the sized text",
                          "argvc_internal_split_n: last token touches the end of the block",
                          "long tokens / command names (254..5000 characters) through the argv splitters and dispatchers",
                          "a handler that dispatches / splits another line still sees its own argc/argv afterwards",
#else
                          "memcheck silent during the dispatcher call",
#endif
                          "dispatcher tolerates an empty / blank line (no handler runs)", "dispatcher: unknown first token -> no handler, ENOENT",
                          "dispatcher runs exactly the handler named by token 0 with argc/argv as split",
                          "dispatcher: line with >= 10 tokens, handler sees at most 10"})
        vf::require(c);
#ifdef C19_VALGRIND
    if (!RUNNING_ON_VALGRIND)
    {
        fprintf(stderr, "C19 shell_vg unit: not running under valgrind\n");
        _exit(2);
    }
#endif
}
#ifdef C19_SHELL_MAIN
extern "C" void vf_setup() { c19_shell_setup(); }
#endif
