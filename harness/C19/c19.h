// C19 — shared enumeration / placement helpers for the text, path and shell harness TUs.
#pragma once
#include "vf.h"
#include "guard.h"
#include <string>
#include <vector>

namespace c19
{
    // DESIGN §3 C19 alphabet: delimiters, letters, slash, dot, quote, white space, NUL-inside-buffer
    static const char ALPHA[9] = {' ', 'a', 'b', '/', '.', '"', '\t', '\n', '\0'};
    enum
    {
        NALPHA = 9
    };

    static inline uint64_t ipow(uint64_t b, int e)
    {
        uint64_t r = 1;
        while (e-- > 0)
            r *= b;
        return r;
    }
    // number of strings of length <= L over an alphabet of k symbols
    static inline uint64_t nstrings(int L, int k = NALPHA)
    {
        uint64_t t = 0;
        for (int l = 0; l <= L; l++)
            t += ipow(k, l);
        return t;
    }
    // i-th string in (length, then base-k little-endian digit) order
    static inline std::string nth(uint64_t i, const char *alpha = ALPHA, int k = NALPHA)
    {
        int len = 0;
        uint64_t p = 1;
        while (i >= p)
        {
            i -= p;
            p *= k;
            len++;
        }
        std::string s((size_t)len, 'x');
        for (int j = 0; j < len; j++, i /= k)
            s[j] = alpha[i % k];
        return s;
    }
    // second alphabet: for every delimiter / special character c a routine knows, the byte c|0x80 (a 7-bit table,
    // a signed-char index or an isspace()-style call on plain char confuses the two), plus 0x80 and 0xFF,
    // next to the plain characters they must not be confused with
    static const char HI[17] = {' ',        'a',        '/',        '"',        '.',        (char)0xA0 /* ' '|80 */, (char)0xE1 /* 'a'|80 */,
                                (char)0xAF /* '/'|80 */, (char)0xAE /* '.'|80 */, (char)0xA2 /* '"'|80 */, (char)0xA7 /* '\''|80 */,
                                (char)0x89 /* TAB|80 */, (char)0x8A /* LF|80 */,  (char)0x8D /* CR|80 */,  (char)0xE2 /* 'b'|80 */,
                                (char)0xFF, (char)0x80};
    enum
    {
        NHI = 17,
        NHI_LOW = 5
    };
    static inline bool has_high(const std::string &s)
    {
        for (char c : s)
            if ((unsigned char)c >= 0x80)
                return true;
        return false;
    }
    // quick: every string of length <= 6 over ALPHA; thorough: <= 8 for the cheap routine families (split/join/trim,
    // split_cmdargs, creader), <= 7 for the expensive ones (memmem, replace, paths, shell); followed by every
    // string of length <= 4 (thorough <= 5) over HI that holds at least one byte >= 0x80
    // -DC19_REDUCED: the second build (-funsigned-char, as on ARM) runs a reduced workload
#ifdef C19_REDUCED
    static inline bool reduced() { return true; }
#else
    static inline bool reduced() { return false; }
#endif
    static inline uint64_t scaled(uint64_t n) { return reduced() ? n / 5 : n; }
    static inline int enum_maxlen(bool cheap = true) { return reduced() ? 4 : vf::thorough() ? (cheap ? 8 : 7) : 6; }
    static inline int hi_maxlen() { return reduced() ? 3 : vf::thorough() ? 5 : 4; }
    static inline uint64_t enum_batch() { return vf::thorough() ? 6561 : 729; }
    static inline uint64_t enum_total(bool cheap) { return nstrings(enum_maxlen(cheap)) + nstrings(hi_maxlen(), NHI); }
    static inline uint64_t enum_cases(bool cheap = true) { return (enum_total(cheap) + enum_batch() - 1) / enum_batch(); }
    // runs f on the strings of batch idx; returns how many were run (strings of the HI part without a high byte
    // are skipped: they belong to the first part) and counts them as a non-repeating enumeration if `count`
    template <class F> static inline uint64_t enum_run(uint64_t idx, F f, bool cheap = true, bool count = false)
    {
        uint64_t lo = idx * enum_batch(), hi = lo + enum_batch(), base = nstrings(enum_maxlen(cheap)), tot = enum_total(cheap), n = 0, k = 0;
        if (hi > tot)
            hi = tot;
        for (uint64_t i = lo; i < hi; i++)
        {
            std::string s = i < base ? nth(i) : nth(i - base, HI, NHI);
            if (i >= base && !has_high(s))
                continue;
            f(s);
            n++;
            k += !s.empty();
        }
        if (count)
            vf::count_bulk(n, k);
        return n;
    }

    // long inputs: a limit such as NAME_MAX, a 16-bit length or a fixed scratch buffer inside a routine only shows on
    // tokens / components / lines longer than it
    static const size_t LONG_LENS[6] = {254, 255, 256, 257, 600, 5000};
    // a run of n non-delimiter characters whose content depends on the position (so a cut or a repeat shows)
    static inline std::string long_token(size_t n, unsigned salt = 0)
    {
        std::string t(n, 'x');
        for (size_t i = 0; i < n; i++)
            t[i] = "cdefghijklmnopqrstuvwxyz0123456789"[(i * 7 + i / 34 + salt) % 34];
        return t;
    }

    // the two placements of DESIGN §2: 0 = extent ends at the end of the block (slack on the left),
    // 1 = mirrored: extent starts at the start of the block and — with no slack — also ends at its end
    struct Place
    {
        unsigned mis;
        bool mirror;
    };
    static inline Place place(int m, size_t n) { return m == 0 ? Place{(unsigned)(1 + n % 3), false} : Place{0u, true}; }

    static inline std::string show(const std::string &s) { return vf::esc(s.data(), s.size(), 120); }
    static inline std::string show(const std::vector<std::string> &v)
    {
        std::string r = "[";
        for (size_t i = 0; i < v.size() && i < 24; i++)
            r += (i ? ",\"" : "\"") + vf::esc(v[i].data(), v[i].size(), 40) + "\"";
        if (v.size() > 24)
            r += ",...";
        return r + "]";
    }
    static inline bool has_nul(const std::string &s) { return s.find('\0') != std::string::npos; }

    // random text over the alphabet plus extra bytes (single quote, CR, other letters, the |0x80 twins of the specials)
    static inline std::string random_text(vf::Rng &r, size_t maxlen, bool allow_nul)
    {
        static const char EXTRA[] = {'\'',       '\r',       'c',        'd',        '0',        '-',        '\\',       (char)0xC3, (char)0xA0,
                                     (char)0xAF, (char)0xAE, (char)0xA2, (char)0xA7, (char)0x89, (char)0x8A, (char)0x8D, (char)0xE1, (char)0xE2,
                                     (char)0xFF, (char)0x80};
        size_t len = r.chance(1, 6) ? r.below(8) : r.below(maxlen + 1);
        int mode = (int)r.below(4);
        std::string s;
        for (size_t i = 0; i < len; i++)
        {
            char c;
            if (mode == 0)
                c = ALPHA[r.below(NALPHA)];
            else if (mode == 1) // mostly letters with sparse delimiters
                c = r.chance(1, 5) ? ALPHA[r.below(NALPHA)] : (char)('a' + r.below(3));
            else if (mode == 2) // delimiter heavy
                c = r.chance(2, 3) ? (r.chance(1, 5) ? HI[5 + r.below(NHI - 5)] : " \t\n/.\"'"[r.below(7)]) : (char)('a' + r.below(2));
            else
                c = r.chance(1, 4) ? EXTRA[r.below(sizeof EXTRA)] : ALPHA[r.below(NALPHA)];
            if (c == '\0' && !allow_nul)
                c = 'a';
            s += c;
        }
        return s;
    }
}
