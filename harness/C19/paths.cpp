// C19 — path helpers (path_next, path_iterate, path_compare_node, path_remove_prefix) against a
// component-wise reference; every path in an exactly-sized, terminated heap copy (both placements).
#include "c19.h"
#include <igris/util/pathops.h>

using namespace c19;

// ---------------------------------------------------------------- reference: raw '/'-separated segments
struct Seg
{
    size_t off, len;
};
static std::vector<Seg> raw_segments(const std::string &p)
{
    std::vector<Seg> v;
    size_t st = 0;
    for (size_t i = 0; i <= p.size(); i++)
        if (i == p.size() || p[i] == '/')
        {
            v.push_back(Seg{st, i - st});
            st = i + 1;
        }
    return v;
}
static bool is_component(const std::string &p, const Seg &s) { return s.len != 0 && !(s.len == 1 && p[s.off] == '.'); }
// components: non-empty segments other than "."
static std::vector<std::string> components(const std::string &p)
{
    std::vector<std::string> v;
    for (const Seg &s : raw_segments(p))
        if (is_component(p, s))
            v.push_back(p.substr(s.off, s.len));
    return v;
}
// path_next: the first component (offset, length), or none
static bool ref_next(const std::string &p, size_t *off, size_t *len)
{
    for (const Seg &s : raw_segments(p))
        if (is_component(p, s))
        {
            *off = s.off;
            *len = s.len;
            return true;
        }
    return false;
}
// path_iterate on a non-empty path: leave the first raw segment (the node the pointer is on; for an
// absolute path that is the root slash) and stop at the next component, or at the terminator
static size_t ref_iterate(const std::string &p)
{
    std::vector<Seg> v = raw_segments(p);
    for (size_t i = 1; i < v.size(); i++)
        if (is_component(p, v[i]))
            return v[i].off;
    return p.size();
}
static std::string node_of(const std::string &p) { return p.substr(0, p.find('/')); }
static int sgn(int x) { return x < 0 ? -1 : x > 0 ? 1 : 0; }

// ---------------------------------------------------------------- single path: next + iterate walk
static void check_single(const std::string &p)
{
    for (int m = 0; m < 2; m++)
    {
        vf::ExactStr e(p, m == 0 ? 1 + (unsigned)p.size() % 3 : 0, m == 1);
        const char *base = e.cc();
        unsigned len = 0xdeadbeef;
        vf::cls("path_next");
        const char *r = path_next(base, &len);
        const char *r0 = path_next(base, nullptr);
        size_t roff = 0, rlen = 0;
        bool have = ref_next(p, &roff, &rlen);
        if ((r != nullptr) != have || r0 != r)
            vf::fail("path_next:component-present", "path=\"%s\" got=%s ref=%s", show(p).c_str(), r ? "component" : "NULL", have ? "component" : "NULL");
        if (have && ((size_t)(r - base) != roff || len != rlen))
            vf::fail("path_next:!=first-component", "path=\"%s\" got offset=%td len=%u ref offset=%zu len=%zu", show(p).c_str(), r - base, len, roff,
                     rlen);
        VF_OK("path_next == first component (or NULL)");

        // walk with path_iterate from the start until NULL
        vf::cls("path_iterate");
        const char *cur = base;
        std::vector<std::string> visited;
        for (size_t step = 0; step <= p.size() + 2; step++)
        {
            std::string rest(cur);
            const char *nx = path_iterate(cur);
            if (rest.empty())
            {
                if (nx != nullptr)
                    vf::fail("path_iterate:empty->NULL", "path=\"%s\" at offset %td returned non-NULL", show(p).c_str(), cur - base);
                cur = nullptr;
                break;
            }
            size_t want = (size_t)(cur - base) + ref_iterate(rest);
            if (nx == nullptr || (size_t)(nx - base) != want)
                vf::fail("path_iterate:!=next-component", "path=\"%s\" from offset %td got=%td ref=%zu", show(p).c_str(), cur - base,
                         nx ? nx - base : (ptrdiff_t)-1, want);
            VF_OK("path_iterate == start of the next component (or terminator)");
            cur = nx;
            if (*cur)
                visited.push_back(node_of(cur));
        }
        if (cur != nullptr)
            vf::fail("path_iterate:walk-does-not-end", "path=\"%s\"", show(p).c_str());
        // the walk visits exactly the components (the node the walk started on is not re-visited)
        std::vector<std::string> comps = components(p);
        if (!p.empty() && p[0] != '/')
        {
            std::vector<Seg> rs = raw_segments(p);
            if (is_component(p, rs[0]))
                comps.erase(comps.begin());
        }
        if (visited != comps)
            vf::fail("path_iterate:walk!=components", "path=\"%s\" visited=%s ref=%s", show(p).c_str(), show(visited).c_str(), show(comps).c_str());
        VF_OK("path_iterate walk visits exactly the components, then \"\" and NULL");
        if (path_iterate(nullptr) != nullptr || path_next(nullptr, &len) != nullptr)
            vf::fail("path:NULL->NULL", "path_iterate(NULL)/path_next(NULL) returned non-NULL");
    }
}

// ---------------------------------------------------------------- pair: compare_node + remove_prefix
static bool leading_dot_segment(const std::string &p)
{
    std::vector<Seg> v = raw_segments(p);
    return p[0] != '/' && v[0].len == 1 && p[v[0].off] == '.';
}
static void check_pair(const std::string &a, const std::string &b, int m)
{
    vf::ExactStr ea(a, m == 0 ? 1 : 0, m == 1), eb(b, m == 0 ? 2 : 0, m == 1);
    vf::cls("path_compare_node");
    int c = path_compare_node(ea.cc(), eb.cc());
    int rc = sgn(node_of(a).compare(node_of(b)));
    if (has_high(node_of(a)) || has_high(node_of(b)))
    {
        // whether bytes >= 0x80 sort as signed or unsigned char is left open: equality and antisymmetry only
        int back = path_compare_node(eb.cc(), ea.cc());
        if ((c == 0) != (rc == 0) || sgn(back) != -sgn(c))
            vf::fail("path_compare_node:high-bytes:equality/antisymmetry", "a=\"%s\" b=\"%s\" compare(a,b)=%d compare(b,a)=%d, nodes %s", show(a).c_str(),
                     show(b).c_str(), c, back, rc == 0 ? "equal" : "differ");
        VF_OK("path_compare_node on nodes with bytes >= 0x80: 0 iff equal, antisymmetric");
    }
    else if (sgn(c) != rc)
        vf::fail("path_compare_node:!=reference", "a=\"%s\" b=\"%s\" got=%d ref=%d", show(a).c_str(), show(b).c_str(), c, rc);
    VF_OK("path_compare_node == sign of the lexicographic order of the two nodes");

    vf::cls("path_remove_prefix");
    const char *r = path_remove_prefix(ea.cc(), eb.cc());
    if (r == nullptr || r < ea.cc() || r > ea.cc() + a.size())
        vf::fail("path_remove_prefix:result-outside-path", "path=\"%s\" prefix=\"%s\" result=%s", show(a).c_str(), show(b).c_str(),
                 r ? "outside" : "NULL");
    std::vector<std::string> ca = components(a), cb = components(b), cr = components(std::string(r));
    size_t k = 0;
    while (k < ca.size() && k < cb.size() && ca[k] == cb[k])
        k++;
    // whatever is returned is the path minus some leading components, all of which matched the prefix
    size_t j = ca.size() - cr.size();
    if (cr.size() > ca.size() || !std::equal(cr.begin(), cr.end(), ca.begin() + j) || j > k)
        vf::fail("path_remove_prefix:removed-unmatched-component", "path=\"%s\" prefix=\"%s\" result=\"%s\" common components=%zu",
                 show(a).c_str(), show(b).c_str(), show(std::string(r)).c_str(), k);
    VF_OK("path_remove_prefix removes only leading components that match the prefix");
    // same rootedness and no leading "." node (where the node view and the component view coincide):
    // exactly the common leading components are removed
    bool same_root = (!a.empty() && a[0] == '/') == (!b.empty() && b[0] == '/');
    if (same_root && !(!a.empty() && leading_dot_segment(a)) && !(!b.empty() && leading_dot_segment(b)))
    {
        if (j != k)
            vf::fail("path_remove_prefix:!=component-wise", "path=\"%s\" prefix=\"%s\" result=\"%s\" removed=%zu common=%zu", show(a).c_str(),
                     show(b).c_str(), show(std::string(r)).c_str(), j, k);
        VF_OK("path_remove_prefix removes exactly the common leading components");
        if (k > 0)
            VF_OK("path_remove_prefix: at least one component removed");
    }
}

// ---------------------------------------------------------------- suites
static const char PALPHA[4] = {'a', 'b', '/', '.'};
static int pair_len() { return reduced() ? 3 : vf::thorough() ? 5 : 4; }
static uint64_t pair_count() { return nstrings(pair_len(), 4); }
static void pair_run(uint64_t idx)
{
    std::string a = nth(idx, PALPHA, 4);
    uint64_t n = pair_count();
    if (vf::verbose())
        printf("  path=\"%s\" against every prefix of length <= %d over {a,b,/,.}\n", show(a).c_str(), pair_len());
    for (uint64_t j = 0; j < n; j++)
        check_pair(a, nth(j, PALPHA, 4), (int)((idx + j) & 1));
    vf::count_bulk(n, idx ? n - 1 : 0);
    if (idx == 200 && vf::want_sample())
        vf::sample("pairs: path=\"%s\" x all %llu strings of length <= %d over {a,b,/,.}: compare_node, remove_prefix", show(a).c_str(),
                   (unsigned long long)n, pair_len());
}
VF_SUITE(path_pairs, pair_count, pair_run)

// the same with the |0x80 twins of '/' and '.' (and 0xFF) next to the real ones
static const char PHI[6] = {'a', '/', '.', (char)0xAF, (char)0xAE, (char)0xFF};
static int pairhi_len() { return reduced() ? 2 : vf::thorough() ? 4 : 3; }
static uint64_t pairhi_count() { return nstrings(pairhi_len(), 6); }
static void pairhi_run(uint64_t idx)
{
    std::string a = nth(idx, PHI, 6);
    uint64_t n = pairhi_count();
    if (vf::verbose())
        printf("  path=\"%s\" against every prefix of length <= %d over {a,/,.,0xAF,0xAE,0xFF}\n", show(a).c_str(), pairhi_len());
    for (uint64_t j = 0; j < n; j++)
        check_pair(a, nth(j, PHI, 6), (int)((idx + j) & 1));
    vf::count_bulk(n, idx ? n - 1 : 0);
}
VF_SUITE(path_pairs_high, pairhi_count, pairhi_run)

static uint64_t single_count() { return enum_cases(false); }
static void single_run(uint64_t idx)
{
    uint64_t n = 0, k = 0;
    enum_run(idx, [&](const std::string &s) {
        if (has_nul(s))
            return; // a C string ends at its first NUL: that string is enumerated on its own
        if (vf::verbose())
            printf("  path=\"%s\"\n", show(s).c_str());
        check_single(s);
        n++;
        k += !s.empty();
    }, false);
    vf::count_bulk(n, k);
}
VF_SUITE(path_single, single_count, single_run)

static std::string random_path(vf::Rng &r, size_t maxcomp)
{
    static const char *COMP[] = {"a", "b", "ab", "dev", "null", ".", "..", "", "a.b", ".a", "hello", "x", "\xAE", "a\xAF" "b", "\xFF", "\xAE\xAE"};
    std::string p = r.chance(1, 2) ? "/" : "";
    size_t n = r.below(maxcomp + 1);
    for (size_t i = 0; i < n; i++)
    {
        p += COMP[r.below(sizeof COMP / sizeof COMP[0])];
        if (i + 1 < n || r.chance(1, 3))
            p += r.chance(1, 5) ? "//" : "/";
    }
    return p;
}
static uint64_t prand_count() { return scaled(vf::thorough() ? 300000 : 6000); }
static void prand_run(uint64_t idx)
{
    vf::Rng r(vf::seed(), 0xC19A, idx);
    std::string a = random_path(r, 8), b;
    if (r.chance(2, 3))
    {
        // a prefix of `a` in components, re-spelt with extra slashes and dots
        std::vector<std::string> ca = components(a);
        size_t take = r.below(ca.size() + 1);
        b = a[0] == '/' ? "/" : "";
        for (size_t i = 0; i < take; i++)
        {
            b += ca[i];
            b += r.chance(1, 4) ? "/./" : r.chance(1, 4) ? "//" : "/";
        }
        if (r.chance(1, 3))
            b += random_path(r, 2);
    }
    else
        b = random_path(r, 6);
    if (vf::verbose())
        printf("  path=\"%s\" prefix=\"%s\"\n", show(a).c_str(), show(b).c_str());
    check_single(a);
    check_pair(a, b, (int)(idx & 1));
    check_pair(b, a, (int)(idx & 1));
    vf::count_case(vf::hash_bytes(a.data(), a.size(), vf::hash_bytes(b.data(), b.size())), !a.empty() && !b.empty());
}
VF_SUITE(path_random, prand_count, prand_run)

// long components (254..5000 characters): next / iterate / compare_node / remove_prefix must not cut a node
static uint64_t plong_count() { return 6 * 6; }
static void plong_run(uint64_t idx)
{
    size_t L = LONG_LENS[idx % 6];
    std::string c = long_token(L, (unsigned)idx), d = long_token(L, (unsigned)idx + 5), p;
    switch ((idx / 6) % 6)
    {
    case 0:
        p = c;
        break;
    case 1:
        p = "/" + c;
        break;
    case 2:
        p = c + "/b";
        break;
    case 3:
        p = "a/./" + c + "//b/" + d + "/";
        break;
    case 4:
        p = "/" + c + "/" + c + "/" + d;
        break;
    default:
        p = c.substr(0, 255) + "/" + c.substr(L < 255 ? L : 255) + "/" + c;
    }
    if (vf::verbose())
        printf("  long path, component length %zu, %zu bytes: \"%s\"\n", L, p.size(), show(p).c_str());
    check_single(p);
    std::string root = p[0] == '/' ? "/" : "";
    std::string changed = c;
    changed[L - 1] = '#'; // differs from c in its last character only
    const std::string prefixes[] = {p,           root + c,     root + c + "/", root + changed, root + c.substr(0, 255), root + c.substr(0, L - 1),
                                    root + c + "x", root + "a/" + c, root + c + "/" + c,     root + c + "/" + d};
    for (const std::string &q : prefixes)
    {
        check_pair(p, q, (int)(idx & 1));
        check_pair(q, p, (int)(idx & 1));
    }
    check_pair(c, changed, 0);
    check_pair(c + "/x", c, 1);
    VF_OK("long path components (254..5000 characters) through next, iterate, compare_node, remove_prefix");
    vf::count_case(vf::hash_bytes(p.data(), p.size()), true);
}
VF_SUITE(path_long, plong_count, plong_run)

void c19_path_setup()
{
    for (const char *c : {"path_next == first component (or NULL)", "path_iterate == start of the next component (or terminator)",
                          "path_iterate walk visits exactly the components, then \"\" and NULL",
                          "path_compare_node == sign of the lexicographic order of the two nodes",
                          "path_compare_node on nodes with bytes >= 0x80: 0 iff equal, antisymmetric",
                          "path_remove_prefix removes only leading components that match the prefix",
                          "path_remove_prefix removes exactly the common leading components",
                          "path_remove_prefix: at least one component removed",
                          "long path components (254..5000 characters) through next, iterate, compare_node, remove_prefix"})
        vf::require(c);
}
