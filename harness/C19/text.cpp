// C19 — split / join / trim / replace / igris_memmem / replace_substrings / split_cmdargs / creader
// against definitional references; every input in exactly-sized, non-terminated heap blocks (both placements).
#define VF_MAIN
#include "c19.h"
#include <igris/creader.h>
#include <igris/util/string.h>

using namespace c19;
typedef std::vector<std::string> Toks;

// ---------------------------------------------------------------- references (from the statement / DESIGN §3a)
// maximal runs of bytes that are not in `delims` (NUL is an ordinary byte)
static Toks ref_split(const std::string &s, const std::string &delims)
{
    Toks out;
    size_t i = 0, n = s.size();
    while (i < n)
    {
        if (delims.find(s[i]) != std::string::npos)
        {
            i++;
            continue;
        }
        size_t j = i;
        while (j < n && delims.find(s[j]) == std::string::npos)
            j++;
        out.push_back(s.substr(i, j - i));
        i = j;
    }
    return out;
}
static bool is_ws(char c) { return c == ' ' || c == '\n' || c == '\r' || c == '\t'; }
static std::string ref_trim(const std::string &s)
{
    size_t a = 0, b = s.size();
    while (a < b && is_ws(s[a]))
        a++;
    while (b > a && is_ws(s[b - 1]))
        b--;
    return s.substr(a, b - a);
}
// left-to-right, non-overlapping; an empty pattern leaves the input unchanged (compiled test string.replace2)
static std::string ref_replace(const std::string &s, const std::string &pat, const std::string &rep)
{
    if (pat.empty())
        return s;
    std::string out;
    size_t i = 0;
    while (i < s.size())
    {
        if (i + pat.size() <= s.size() && s.compare(i, pat.size(), pat) == 0)
        {
            out += rep;
            i += pat.size();
        }
        else
            out += s[i++];
    }
    return out;
}
static long ref_find(const std::string &h, const std::string &n)
{
    if (n.empty() || n.size() > h.size())
        return -1;
    for (size_t i = 0; i + n.size() <= h.size(); i++)
        if (memcmp(h.data() + i, n.data(), n.size()) == 0)
            return (long)i;
    return -1;
}
// §3a: space separated; a token that starts with " or ' runs to the matching quote or the end of input
// (the quotes are not part of it); quotes inside an unquoted token are ordinary
static Toks ref_cmdargs(const std::string &s)
{
    Toks out;
    size_t i = 0, n = s.size();
    for (;;)
    {
        while (i < n && s[i] == ' ')
            i++;
        if (i >= n)
            break;
        if (s[i] == '"' || s[i] == '\'')
        {
            size_t close = s.find(s[i], i + 1);
            if (close == std::string::npos)
            {
                out.push_back(s.substr(i + 1));
                break;
            }
            out.push_back(s.substr(i + 1, close - i - 1));
            i = close + 1;
        }
        else
        {
            size_t e = s.find(' ', i);
            if (e == std::string::npos)
                e = n;
            out.push_back(s.substr(i, e - i));
            i = e;
        }
    }
    return out;
}

// ---------------------------------------------------------------- split / join / trim
static void check_split(const std::string &s)
{
    // NUL is an ordinary byte of a sized buffer and an ordinary delimiter value (DESIGN 3a); 0xFF / 0x80 as delimiter
    // values only where the text can contain them
    static const char DELIM_CH[5] = {' ', '/', '\0', (char)0xFF, (char)0x80};
    const bool high = has_high(s);
    static const char *DELIM_SETS[4] = {" \t\n", "/.", "b", "\xA0."};
    for (int m = 0; m < 2; m++)
    {
        Place pl = place(m, s.size());
        vf::Exact e(s.data(), s.size(), pl.mis, pl.mirror);
        igris::buffer buf((const void *)e.p, s.size());
        for (char d : DELIM_CH)
        {
            if ((unsigned char)d >= 0x80 && !high)
                continue;
            vf::cls("split(char)");
            Toks got = igris::split(buf, d), ref = ref_split(s, std::string(1, d));
            if (got != ref)
                vf::fail("split(char):!=reference", "input=\"%s\" delim='%s' placement=%d got=%s ref=%s", show(s).c_str(),
                         vf::esc(&d, 1).c_str(), m, show(got).c_str(), show(ref).c_str());
            VF_OK("split(buf,char) == maximal runs of non-delimiters");
            // join is the inverse of split on such token lists
            vf::cls("join(vector,char)");
            std::string j = igris::join(ref, d);
            Toks back = ref_split(j, std::string(1, d));
            if (back != ref)
                vf::fail("join(char):not-inverse-of-split", "tokens=%s delim='%s' joined=\"%s\"", show(ref).c_str(),
                         vf::esc(&d, 1).c_str(), show(j).c_str());
            vf::Exact je(j.data(), j.size(), 1, false);
            vf::cls("split(char)");
            if (igris::split(igris::buffer((const void *)je.p, j.size()), d) != ref)
                vf::fail("split(char):split(join(t))!=t", "tokens=%s delim='%s' joined=\"%s\"", show(ref).c_str(), vf::esc(&d, 1).c_str(),
                         show(j).c_str());
            VF_OK("split(join(tokens)) == tokens");
            if (d == '\0' && ref.size() >= 2)
                VF_OK("split/join with delimiter NUL and >= 2 tokens");
        }
        for (const char *ds : DELIM_SETS)
        {
            vf::cls("split(delims)");
            vf::ExactStr dse(ds, 0, m == 1);
            Toks got = igris::split(buf, dse.cc()), ref = ref_split(s, ds);
            if (got != ref)
                vf::fail("split(delims):!=reference", "input=\"%s\" delims=\"%s\" placement=%d got=%s ref=%s", show(s).c_str(),
                         vf::esc(ds, strlen(ds)).c_str(), m, show(got).c_str(), show(ref).c_str());
            VF_OK("split(buf,delims) == maximal runs of non-delimiters");
            if (m == 0 && ds[1])
            {
                // iterator-range join with a one-character delimiter string, optional prefix/postfix
                vf::cls("join(range)");
                const char d1[2] = {ds[0], 0};
                std::string j = igris::join(ref.begin(), ref.end(), d1, "", "");
                if (ref_split(j, ds) != ref)
                    vf::fail("join(range):not-inverse-of-split", "tokens=%s delim=\"%s\" joined=\"%s\"", show(ref).c_str(),
                             vf::esc(d1, 1).c_str(), show(j).c_str());
                std::string jp = igris::join(ref.begin(), ref.end(), d1, "<<", ">");
                if (jp != "<<" + j + ">")
                    vf::fail("join(range):prefix/postfix", "tokens=%s joined=\"%s\" with prefix/postfix=\"%s\"", show(ref).c_str(),
                             show(j).c_str(), show(jp).c_str());
                VF_OK("join(range) inverse of split, prefix/postfix wrapped around");
            }
        }
        vf::cls("trim");
        std::string t = igris::trim(buf), rt = ref_trim(s);
        if (t != rt)
            vf::fail("trim:!=reference", "input=\"%s\" placement=%d got=\"%s\" ref=\"%s\"", show(s).c_str(), m, show(t).c_str(),
                     show(rt).c_str());
        VF_OK("trim == input without leading/trailing {space,\\n,\\r,\\t}");
    }
    // bytes that are white space under no definition (neither the code's {space,\n,\r,\t} nor isspace()) at both edges:
    // nothing may be removed. \v and \f, on which the two definitions differ, are not driven (seeded C19-r6s1, DESIGN 8).
    static const unsigned char EDGE[] = {0x01, 0x08, 0x0e, 0x1b, 0x1f, 0x21, 0x7f, 0x80, 0xff};
    vf::cls("trim:non-space-edges");
    for (unsigned char e : EDGE)
    {
        std::string x = std::string(1, (char)e) + s + std::string(1, (char)e);
        vf::Exact ex(x.data(), x.size(), 0, false);
        std::string t = igris::trim(igris::buffer((const void *)ex.p, x.size()));
        if (t != x)
            vf::fail("trim:removed-non-space", "input=\"%s\" got=\"%s\": the edge byte 0x%02x is not white space", show(x).c_str(), show(t).c_str(), e);
    }
    VF_OK("trim keeps control and high bytes that are not white space at the edges");
}

// ---------------------------------------------------------------- split_cmdargs
static void check_cmdargs(const std::string &s)
{
    Toks ref = ref_cmdargs(s);
    for (int m = 0; m < 2; m++)
    {
        Place pl = place(m, s.size());
        vf::Exact e(s.data(), s.size(), pl.mis, pl.mirror);
        vf::cls("split_cmdargs");
        Toks got = igris::split_cmdargs(igris::buffer((const void *)e.p, s.size()));
        if (got != ref)
            vf::fail("split_cmdargs:!=reference", "input=\"%s\" placement=%d got=%s ref=%s", show(s).c_str(), m, show(got).c_str(),
                     show(ref).c_str());
        VF_OK("split_cmdargs == quote-aware space tokeniser (DESIGN 3a)");
    }
}

// ---------------------------------------------------------------- memmem / replace / replace_substrings
static std::vector<std::string> needles_for(const std::string &s)
{
    std::vector<std::string> v = {"a", "ab", "aa", std::string("a\0", 2), "/.", std::string("\0", 1), "ba\"", " ", "\xE1", "\xA0 ", "\xFF"};
    size_t n = s.size();
    for (size_t l = 1; l <= 3 && l <= n; l++)
    {
        v.push_back(s.substr(n - l)); // only possible match may be at the very end
        v.push_back(s.substr(0, l));
    }
    if (n >= 4)
        v.push_back(s.substr(n / 2, 2));
    if (n >= 1)
        v.push_back(s + "a"); // longer than the haystack
    if (n > 200)
    {
        // long needles: the tail, the head, the middle and the whole haystack
        v.push_back(s.substr(n - (n < 257 ? n : 257)));
        v.push_back(s.substr(0, n < 300 ? n : 300));
        v.push_back(s.substr(n / 3, n / 2));
        v.push_back(s);
        v.push_back(s.substr(n / 2) + "#");
    }
    return v;
}
static void check_memmem(const std::string &s)
{
    std::vector<std::string> needles = needles_for(s);
    for (int m = 0; m < 2; m++)
    {
        Place pl = place(m, s.size());
        vf::Exact h(s.data(), s.size(), pl.mis, pl.mirror);
        for (const std::string &nd : needles)
        {
            vf::Exact ne(nd.data(), nd.size(), (unsigned)(nd.size() % 2), m == 1);
            vf::cls("igris_memmem");
            void *r = igris_memmem(h.p, s.size(), ne.p, nd.size());
            long ref = ref_find(s, nd);
            long got = r ? (long)((unsigned char *)r - h.p) : -1;
            if (r && (got < 0 || (size_t)got + nd.size() > s.size()))
                vf::fail("memmem:result-outside-haystack", "haystack=\"%s\" needle=\"%s\" offset=%ld", show(s).c_str(), show(nd).c_str(), got);
            if (got != ref)
                vf::fail("memmem:!=first-occurrence", "haystack=\"%s\" needle=\"%s\" placement=%d got=%ld ref=%ld", show(s).c_str(),
                         show(nd).c_str(), m, got, ref);
            VF_OK("igris_memmem == first occurrence or none");
            if (ref >= 0 && (size_t)ref + nd.size() == s.size())
                VF_OK("igris_memmem: match ending at the last byte");
        }
        // empty needle: the result is left open by the statement, only the access is watched
        vf::Exact none(nullptr, 0, 0, m == 1);
        vf::cls("igris_memmem(empty-needle)");
        (void)igris_memmem(h.p, s.size(), none.p, 0);
    }
}
struct Sub
{
    std::string pat, rep;
};
static const Sub SUBS[] = {{"a", ""},     {"a", "b"},    {"a", "aa"},  {"ab", "a"},   {"aa", "a"},          {" ", "\t\t"},
                           {"/.", "/"},   {"", "a"},     {"b", "xyz"}, {"\"", "\\\""}, {std::string("\0", 1), "0"}, {"a", std::string("\0", 1)},
                           {"aba", "ab"}, {"\n", "\r\n"},
                           // pattern and replacement of equal length (>= 2: a cut can fall inside an occurrence)
                           {"ab", "cd"},  {"aa", "bb"},  {"/.", "./"}, {"a a", "b b"},
                           // the |0x80 twins of pattern bytes must neither match nor be produced
                           {"\xA0", " "},  {" ", "\xA0"}, {"a\xE1", "\xE1" "a"}, {"\xFF", "\x80\x80"}};
static void check_replace(const std::string &s, uint64_t salt, size_t dense_limit)
{
    for (size_t k = 0; k < sizeof SUBS / sizeof SUBS[0]; k++)
    {
        const Sub &sb = SUBS[k];
        std::string ref = ref_replace(s, sb.pat, sb.rep);
        vf::cls("replace");
        std::string got = igris::replace(s, sb.pat, sb.rep);
        if (got != ref)
            vf::fail("replace:!=reference", "input=\"%s\" pattern=\"%s\" with=\"%s\" got=\"%s\" ref=\"%s\"", show(s).c_str(),
                     show(sb.pat).c_str(), show(sb.rep).c_str(), show(got).c_str(), show(ref).c_str());
        VF_OK("replace == left-to-right non-overlapping substitution");

        // C routine: input, pattern, replacement unterminated and exact; output block of exactly maxsize bytes
        int m = (int)((k + salt) & 1);
        Place pl = place(m, s.size());
        vf::Exact in(s.data(), s.size(), pl.mis, pl.mirror), pe(sb.pat.data(), sb.pat.size(), 0, m == 1),
            re(sb.rep.data(), sb.rep.size(), 1, m == 1);
        size_t fits = ref.size() + 1;
        // every maxsize from 0 to beyond the full length for short results, else the corner sizes plus seeded ones
        std::vector<size_t> sizes;
        if (ref.size() <= dense_limit)
            for (size_t z = 0; z <= fits + 1; z++)
                sizes.push_back(z);
        else
        {
            sizes = {fits, fits + 3, ref.size(), 0, 1, 2, ref.size() / 2};
            vf::Rng zr(0x5125, salt, k);
            for (int z = 0; z < 12; z++)
                sizes.push_back((size_t)zr.below(fits));
        }
        for (size_t maxsize : sizes)
        {
            vf::Exact out(nullptr, maxsize, 1, false);
            vf::cls(maxsize >= fits ? "replace_substrings(fits)" : "replace_substrings(maxsize-too-small)");
            replace_substrings(out.c(), maxsize, in.cc(), s.size(), pe.cc(), sb.pat.size(), re.cc(), sb.rep.size());
            if (maxsize >= fits)
            {
                if (memcmp(out.p, ref.data(), ref.size()) != 0 || out.p[ref.size()] != 0)
                    vf::fail("replace_substrings:!=reference", "input=\"%s\" pattern=\"%s\" with=\"%s\" maxsize=%zu got=\"%s\" ref=\"%s\"",
                             show(s).c_str(), show(sb.pat).c_str(), show(sb.rep).c_str(), maxsize, vf::esc(out.p, fits).c_str(), show(ref).c_str());
                VF_OK("replace_substrings == reference + terminator when it fits");
            }
            else if (maxsize >= 1)
            {
                // the routine's own contract since it honours maxsize: the substituted text cut to maxsize - 1 bytes, terminated
                if (memcmp(out.p, ref.data(), maxsize - 1) != 0 || out.p[maxsize - 1] != 0)
                {
                    char key[120];
                    snprintf(key, sizeof key, "replace_substrings:truncated!=prefix-of-reference:%s",
                             sb.pat.size() == sb.rep.size() ? "sublen==replen" : sb.pat.size() < sb.rep.size() ? "sublen<replen" : "sublen>replen");
                    vf::fail(key, "input=\"%s\" pattern=\"%s\" with=\"%s\" maxsize=%zu got=\"%s\" (terminator %s) full result=\"%s\"", show(s).c_str(),
                             show(sb.pat).c_str(), show(sb.rep).c_str(), maxsize, vf::esc(out.p, maxsize - 1).c_str(),
                             out.p[maxsize - 1] == 0 ? "present" : "missing", show(ref).c_str());
                }
                VF_OK("replace_substrings truncated == first maxsize-1 bytes of the full result + terminator");
                if (sb.pat.size() == sb.rep.size() && sb.pat.size() >= 2)
                    VF_OK("replace_substrings truncated, pattern and replacement of equal length >= 2");
            }
            else
                VF_OK("replace_substrings with maxsize 0 writes nothing (ASan)");
        }
    }
}

// ---------------------------------------------------------------- creader
static void check_creader(const std::string &s)
{
    for (int m = 0; m < 2; m++)
    {
        Place pl = place(m, s.size());
        vf::Exact e(s.data(), s.size(), pl.mis, pl.mirror);
        const char *strt = e.cc(), *fini = e.cc() + s.size();
        struct creader r;
        creader_init(&r, strt, s.size());
        for (size_t it = 0; it < s.size() + 3; it++)
        {
            const char *before = r.cursor;
            bool at_end = creader_end(&r);
            const char *tok = nullptr;
            vf::cls("creader_readline");
            ptrdiff_t len = creader_readline(&r, &tok);
            if (at_end)
            {
                if (len != -1)
                    vf::fail("creader_readline:not--1-at-end", "input=\"%s\" len=%td", show(s).c_str(), len);
                VF_OK("creader_readline at the end returns -1");
                break;
            }
            if (len < 0 || tok < strt || tok > fini || len > fini - tok)
                vf::fail("creader_readline:line-outside-extent", "input=\"%s\" call=%zu token offset=%td len=%td size=%zu", show(s).c_str(),
                         it, tok - strt, len, s.size());
            if (r.cursor < before || r.cursor > fini)
                vf::fail("creader_readline:cursor-outside-extent", "input=\"%s\" call=%zu cursor offset=%td size=%zu", show(s).c_str(), it,
                         r.cursor - strt, s.size());
            VF_OK("creader_readline: line and cursor inside [strt, fini]");
            if (r.cursor == before)
                break; // last line without a newline: the cursor is documented not to move
        }
        // skip: exactly the leading run of bytes from the set
        creader_init(&r, strt, s.size());
        vf::cls("creader_skipws");
        int cnt = creader_skipws(&r);
        size_t lead = 0;
        while (lead < s.size() && is_ws(s[lead]))
            lead++;
        if ((size_t)cnt != lead || r.cursor != strt + lead)
            vf::fail("creader_skipws:!=leading-run", "input=\"%s\" count=%d cursor=%td ref=%zu", show(s).c_str(), cnt, r.cursor - strt, lead);
        VF_OK("creader_skipws == length of the leading white-space run");
    }
}

// ---------------------------------------------------------------- suites: one per routine family so that a crash
// in one routine cannot hide the others; all walk the same enumeration
static uint64_t n_enum() { return enum_cases(true); }
static uint64_t n_enum_exp() { return enum_cases(false); }
static void split_run(uint64_t idx)
{
    enum_run(idx, [](const std::string &s) {
        if (vf::verbose())
            printf("  split/join/trim input=\"%s\"\n", show(s).c_str());
        check_split(s);
    }, true, true);
    if (idx == 40 && vf::want_sample())
        vf::sample("enumeration: every string of length <= %d over {' ',a,b,/,.,\",\\t,\\n,NUL} and of length <= 4 over their |0x80 twins; e.g. \"%s\" through split(' '), split('/'), "
                   "split(\" \\t\\n\"), split(\"/.\"), split(\"b\"), join, trim in both placements",
                   enum_maxlen(), show(nth(40 * enum_batch() + 5)).c_str());
}
VF_SUITE(enum_split, n_enum, split_run)
static void cmdargs_run(uint64_t idx)
{
    enum_run(idx, [](const std::string &s) {
        if (vf::verbose())
            printf("  split_cmdargs input=\"%s\"\n", show(s).c_str());
        check_cmdargs(s);
    }, true, true);
}
VF_SUITE(enum_cmdargs, n_enum, cmdargs_run)
static void memmem_run(uint64_t idx)
{
    enum_run(idx, [](const std::string &s) {
        if (vf::verbose())
            printf("  memmem haystack=\"%s\"\n", show(s).c_str());
        check_memmem(s);
    }, false, true);
}
VF_SUITE(enum_memmem, n_enum_exp, memmem_run)
static void replace_run(uint64_t idx)
{
    uint64_t i = idx * enum_batch();
    enum_run(idx, [&](const std::string &s) {
        if (vf::verbose())
            printf("  replace input=\"%s\"\n", show(s).c_str());
        check_replace(s, i++, 14);
    }, false, true);
}
VF_SUITE(enum_replace, n_enum_exp, replace_run)
static void creader_run(uint64_t idx)
{
    enum_run(idx, [](const std::string &s) {
        if (vf::verbose())
            printf("  creader input=\"%s\"\n", show(s).c_str());
        check_creader(s);
    }, true, true);
}
VF_SUITE(enum_creader, n_enum, creader_run)

// seeded random longer inputs through everything
static uint64_t rand_count() { return scaled(vf::thorough() ? 400000 : 6000); }
static void rand_run(uint64_t idx)
{
    vf::Rng r(vf::seed(), 0xC19, idx);
    std::string s = random_text(r, 200, true);
    if (vf::verbose())
        printf("  random input (%zu bytes)=\"%s\" hex=%s\n", s.size(), show(s).c_str(), vf::hex(s.data(), s.size(), 220).c_str());
    check_split(s);
    check_cmdargs(s);
    check_memmem(s);
    check_replace(s, idx, 40);
    check_creader(s);
    vf::count_case(vf::hash_bytes(s.data(), s.size()), s.size() >= 1);
    if (s.size() > 30 && vf::want_sample())
        vf::sample("random: %zu bytes \"%s\"", s.size(), show(s).c_str());
}
VF_SUITE(random_text, rand_count, rand_run)

// long tokens / lines / haystacks (254..5000 bytes and several KiB in total) through every text family
static std::string long_text(uint64_t idx)
{
    size_t L = LONG_LENS[idx % 6];
    unsigned salt = (unsigned)(idx / 6);
    std::string t = long_token(L, salt), s;
    switch ((idx / 6) % 8)
    {
    case 0:
        return t;
    case 1:
        return t + " " + long_token(L, salt + 3) + "  " + t;
    case 2:
        return std::string(L, ' ') + "x" + std::string(L, '\t') + "\r\n";
    case 3:
    {
        std::string q = t;
        for (size_t i = 5; i < q.size(); i += 11)
            q[i] = ' ';
        return "\"" + q + "\" " + t + " '" + q;
    }
    case 4:
        return t + "/" + long_token(L, salt + 1) + "/./" + std::string(1, '\0') + t + "\xFF";
    case 5:
        for (size_t i = 0; s.size() < L * 2; i++)
            s += long_token(i % 9, salt) + (i % 3 ? "\n" : "\r\n");
        return s + t;
    case 6:
        for (size_t i = 0; i < L / 2; i++)
            s += "ab";
        return s + "aba a b /.";
    default:
        s = t;
        for (size_t i = 0; i < s.size(); i += 127)
            s[i] = "a/ \"b"[i % 5];
        return s + s;
    }
}
static uint64_t long_count() { return 48; }
static void long_run(uint64_t idx)
{
    std::string s = long_text(idx);
    if (vf::verbose())
        printf("  long input shape %d, token length %zu, %zu bytes: \"%s\"\n", (int)((idx / 6) % 8), LONG_LENS[idx % 6], s.size(), show(s).c_str());
    check_split(s);
    check_cmdargs(s);
    check_memmem(s);
    check_replace(s, idx, 0);
    check_creader(s);
    VF_OK("long inputs (tokens of 254..5000 bytes) through split/join/trim, split_cmdargs, memmem, replace, creader");
    vf::count_case(vf::hash_bytes(s.data(), s.size()), true);
}
VF_SUITE(long_text, long_count, long_run)

void c19_path_setup();
void c19_shell_setup();
extern "C" void vf_setup()
{
    for (const char *c :
         {"split(buf,char) == maximal runs of non-delimiters", "split(buf,delims) == maximal runs of non-delimiters",
          "split(join(tokens)) == tokens", "join(range) inverse of split, prefix/postfix wrapped around",
          "trim == input without leading/trailing {space,\\n,\\r,\\t}", "trim keeps control and high bytes that are not white space at the edges", "split_cmdargs == quote-aware space tokeniser (DESIGN 3a)",
          "igris_memmem == first occurrence or none", "igris_memmem: match ending at the last byte",
          "replace == left-to-right non-overlapping substitution", "replace_substrings == reference + terminator when it fits",
          "replace_substrings truncated == first maxsize-1 bytes of the full result + terminator",
          "replace_substrings truncated, pattern and replacement of equal length >= 2", "replace_substrings with maxsize 0 writes nothing (ASan)",
          "creader_readline: line and cursor inside [strt, fini]", "creader_readline at the end returns -1",
          "creader_skipws == length of the leading white-space run", "split/join with delimiter NUL and >= 2 tokens",
          "long inputs (tokens of 254..5000 bytes) through split/join/trim, split_cmdargs, memmem, replace, creader"})
        vf::require(c);
    c19_path_setup();
    c19_shell_setup();
}
