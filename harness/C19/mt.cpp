// C19 (TSan unit) — every routine family is a pure function of its arguments (the dispatchers of theirs plus the
// command table); users call them from several consoles / threads without a lock. Each case forks a fresh process
// (vf::mt_run), releases 2..4 threads together; every thread runs every family on ITS OWN inputs many times and
// compares with the results the same calls gave before the threads started (those sequential results are what the
// asan unit compares with the references). A shared scratch buffer / argv / table shows as a wrong result in the
// mask or as a ThreadSanitizer report.
#define VF_MAIN
#include "c19.h"
#include "mt.h"
#include <igris/creader.h>
#include <igris/util/pathops.h>
#include <igris/util/string.h>
extern "C"
{
#include <igris/datastruct/argvc.h>
#include <igris/shell/mshell.h>
#include <igris/shell/rshell.h>
}
using namespace c19;
typedef std::vector<std::string> Toks;

// what one handler activation saw, per thread
static thread_local std::string t_seen;
static int hm(int which, int argc, char **argv)
{
    t_seen += (char)('0' + which);
    for (int i = 0; i < argc; i++)
        t_seen += std::string("|") + argv[i];
    t_seen += ';';
    return 100 + which;
}
static int m0(int c, char **v) { return hm(0, c, v); }
static int m1(int c, char **v) { return hm(1, c, v); }
static int m2(int c, char **v) { return hm(2, c, v); }
static int r0(int c, char **v, char *, int) { return hm(0, c, v); }
static int r1(int c, char **v, char *, int) { return hm(1, c, v); }
static int r2(int c, char **v, char *, int) { return hm(2, c, v); }
static const mshell_command MT[4] = {{"a", m0, nullptr}, {"ab", m1, "h"}, {"b", m2, nullptr}, {nullptr, nullptr, nullptr}};
static const rshell_command RT[4] = {{"a", r0, nullptr}, {"ab", r1, nullptr}, {"b", r2, nullptr}, {nullptr, nullptr, nullptr}};
static const mshell_command *const MTABS[2] = {MT, nullptr};
static const rshell_command_table RTABS[2] = {{RT, 0}, {nullptr, 0}};

static std::string flat(const Toks &t)
{
    std::string s;
    for (const std::string &x : t)
        s += x + '\x1f';
    return s;
}
// one pass over every family on (text, line, path, prefix); the result is one string that must not change
static std::string all_families(const std::string &text, const std::string &line, const std::string &path, const std::string &prefix)
{
    std::string out;
    igris::buffer buf((const void *)text.data(), text.size());
    Toks sp = igris::split(buf, ' ');
    out += flat(sp) + "#" + flat(igris::split(buf, " \t\n/")) + "#" + igris::join(sp, ' ') + "#" + igris::join(sp.begin(), sp.end(), "::", "<", ">") + "#";
    out += igris::trim(buf) + "#" + flat(igris::split_cmdargs(buf)) + "#" + igris::replace(text, "a", "bb") + "#";
    char rb[64];
    replace_substrings(rb, sizeof rb, text.data(), text.size(), "ab", 2, "c", 1);
    out += std::string(rb) + "#";
    void *mm = igris_memmem(text.data(), text.size(), "b ", 2);
    out += std::to_string(mm ? (long)((const char *)mm - text.data()) : -1L) + "#";
    struct creader cr;
    creader_init(&cr, text.data(), text.size());
    for (int i = 0; i < 6 && !creader_end(&cr); i++)
    {
        const char *tok;
        const char *before = cr.cursor;
        ptrdiff_t n = creader_readline(&cr, &tok);
        out += std::to_string(n) + "@" + std::to_string(tok - text.data()) + ",";
        if (cr.cursor == before)
            break;
    }
    out += "#";
    // argv splitters and dispatchers, each on its own copy of the line
    {
        std::string l = line;
        char *av[10];
        int ac = argvc_internal_split(&l[0], av, 10);
        for (int i = 0; i < ac; i++)
            out += std::string(av[i]) + '\x1f';
        l = line;
        ac = argvc_internal_split_n(&l[0], (int)l.size(), av, 4);
        out += "#" + std::to_string(ac) + "#";
    }
    t_seen.clear();
    int rv = 0;
    char ob[8];
    std::string l1 = line, l2 = line, l3 = line, l4 = line;
    out += std::to_string(mshell_execute(&l1[0], MT, &rv)) + "," + std::to_string(mshell_tables_execute(&l2[0], MTABS, &rv)) + "," +
           std::to_string(rshell_execute(&l3[0], RT, &rv, 0, ob, 8)) + "," + std::to_string(rshell_tables_execute(&l4[0], RTABS, &rv, ob, 8)) + "#" + t_seen + "#";
    // paths
    unsigned len = 0;
    const char *pn = path_next(path.c_str(), &len);
    out += (pn ? std::to_string(pn - path.c_str()) + ":" + std::to_string(len) : std::string("null")) + "#";
    for (const char *p = path.c_str(); p && *p;)
    {
        p = path_iterate(p);
        out += std::to_string(p ? p - path.c_str() : -1L) + ",";
    }
    out += "#" + std::to_string(path_compare_node(path.c_str(), prefix.c_str())) + "#" +
           std::to_string(path_remove_prefix(path.c_str(), prefix.c_str()) - path.c_str());
    return out;
}

struct Input
{
    std::string text, line, path, prefix, expect;
};
static uint64_t count() { return vf::thorough() ? 600 : 40; }
static void run(uint64_t idx)
{
    vf::Rng r(vf::seed(), 0xC197, idx);
    int nthreads = 2 + (int)(idx % 3);
    std::vector<Input> in((size_t)nthreads);
    std::string what;
    for (Input &i : in)
    {
        i.text = random_text(r, 60, true);
        static const char *HEADS[] = {"a", "ab", "b", "zz", ""};
        i.line = HEADS[r.below(5)];
        for (int k = (int)r.below(6); k > 0; k--)
            i.line += " " + std::string(1 + r.below(4), (char)('a' + r.below(6)));
        i.path = r.chance(1, 2) ? "/" : "";
        for (int k = (int)r.below(5); k > 0; k--)
            i.path += std::string(1 + r.below(3), (char)('a' + r.below(3))) + (r.chance(1, 4) ? "/./" : "/");
        i.prefix = i.path.substr(0, r.below(i.path.size() + 1));
        i.expect = all_families(i.text, i.line, i.path, i.prefix); // before the threads start
        what += "text=\"" + show(i.text) + "\" line=\"" + show(i.line) + "\" path=\"" + show(i.path) + "\" | ";
    }
    if (vf::verbose())
        printf("  %d threads: %s\n", nthreads, what.c_str());
    vf::cls("concurrent:all-families");
    int mask = vf::mt_run(nthreads, [&](int tid) -> unsigned {
        const Input &i = in[(size_t)tid];
        unsigned m = 0;
        for (int k = 0; k < 60; k++)
            if (all_families(i.text, i.line, i.path, i.prefix) != i.expect)
                m |= 1;
        return m;
    });
    if (mask != 0)
        vf::fail(mask == -1 ? "concurrent:child-died" : mask == -2 ? "concurrent:hang" : "concurrent:result!=result-computed-before-the-threads-started",
                 "%d threads, mask=%d: %s", nthreads, mask, what.c_str());
    VF_OK("concurrent runs of every routine family on own inputs == results computed before the threads started");
    vf::count_case(vf::hash_bytes(what.data(), what.size()), true);
}
VF_SUITE(concurrent, count, run)
extern "C" void vf_setup() { vf::require("concurrent runs of every routine family on own inputs == results computed before the threads started"); }
