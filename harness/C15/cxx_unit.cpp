// C15, unit "cxx": the C++ line editor (igris/container/sline.h + igris/shell/readlinexx.h + igris/shell/vtermxx.cpp).
// The classes allocate their line / history storage with std::allocator<char>::allocate(n) = operator new(n):
// exactly n bytes, ASan red zones on both sides.
#define VF_MAIN
#include "model.h"

#include <igris/container/sline.h>
#include <igris/shell/vtermxx.h>

namespace
{
    // igris::vtermxx keeps its readline private and offers no accessor.  To read len/cursor/line through the public
    // accessors of igris::readline / igris::sline the harness mirrors vtermxx's member list; the mirror is validated
    // by a static_assert on the size and by a run-time probe in the XTerm constructor (prompt pointer, storage size).
    struct VtermView
    {
        igris::delegate<void, const char *, unsigned int> execute_callback;
        igris::delegate<void, const char *, unsigned int> write_callback;
        igris::delegate<void, int> signal_callback;
        int state;
        uint8_t echo;
        const char *prefix_string;
        igris::readline rl;
    };
    static_assert(sizeof(VtermView) == sizeof(igris::vtermxx), "vtermxx layout changed: update VtermView");

    struct XTerm
    {
        igris::vtermxx vt;
        unsigned cap;
        static const char *impl() { return "cxx"; }
        static void w(void *p, const char *d, unsigned n) { ((c15::Sink *)p)->on_write(d, n); }
        static void x(void *p, const char *d, unsigned n) { ((c15::Sink *)p)->on_exec(d, n); }
        static void s(void *p, int) { ((c15::Sink *)p)->sigints++; }
        XTerm(const c15::Cfg &cfg, c15::Sink *sink) : cap(cfg.cap)
        {
            vt.init(cfg.cap, cfg.H);
            // external-function delegates: plain function pointer + context, no member-pointer casting involved
            vt.set_write_callback(igris::delegate<void, const char *, unsigned int>(w, (void *)sink));
            vt.set_execute_callback(igris::delegate<void, const char *, unsigned int>(x, (void *)sink));
            vt.set_signal_callback(igris::delegate<void, int>(s, (void *)sink));
            VtermView *v = reinterpret_cast<VtermView *>(&vt);
            if (v->state != 0 || v->echo != 1 || !v->prefix_string || strcmp(v->prefix_string, "$ ") != 0 || line().storage_size() != cfg.cap)
                vf::fail("harness:vtermxx-layout-mirror", "VtermView does not match igris::vtermxx any more");
            if (cfg.prompt)
                vt.set_prompt(cfg.prompt);
        }
        // vtermxx::init on the object in use -> readline::init -> sline::init (storage re-allocated by the classes)
        void reinit(const c15::Cfg &cfg, c15::Sink *sink)
        {
            cap = cfg.cap;
            vt.init(cfg.cap, cfg.H);
            vt.set_write_callback(igris::delegate<void, const char *, unsigned int>(w, (void *)sink));
            vt.set_execute_callback(igris::delegate<void, const char *, unsigned int>(x, (void *)sink));
            vt.set_signal_callback(igris::delegate<void, int>(s, (void *)sink));
            if (cfg.prompt)
                vt.set_prompt(cfg.prompt);
        }
        igris::sline &line() { return reinterpret_cast<VtermView *>(&vt)->rl.line(); }
        int linecpy(char *dst, size_t size) { return reinterpret_cast<VtermView *>(&vt)->rl.linecpy(dst, size); }
        const char *history(int k) { return reinterpret_cast<VtermView *>(&vt)->rl.history_pointer(k); }
        void key(int c) { vt.newdata((int16_t)c); }
        unsigned len() { return (unsigned)line().current_size(); }
        unsigned cursor() { return (unsigned)line().current_size() - line().rightsize(); }
        const char *data() { return line().data(); }
    };

    struct XSline
    {
        igris::sline sl;
        static const char *impl() { return "cxx"; }
        explicit XSline(unsigned cap) : sl(cap) {}
        void reinit(unsigned cap, bool) { sl.init(cap); }
        int putchar(char c)
        {
            size_t before = sl.current_size();
            sl.newdata(c); // returns void: the result is the growth
            return (int)(sl.current_size() - before);
        }
        int newdata(const char *d, int n)
        {
            size_t before = sl.current_size();
            sl.newdata(d, (size_t)n);
            return (int)(sl.current_size() - before);
        }
        int backspace(unsigned n) { return sl.backspace((int)n); }
        int del(unsigned n) { return sl.del((int)n); }
        int left() { return sl.left(); }
        int right() { return sl.right(); }
        const char *getline() { return sl.getline(); }
        bool equal(const char *s) { return sl.equal(s); }
        unsigned len() { return (unsigned)sl.current_size(); }
        unsigned cursor() { return (unsigned)sl.current_size() - sl.rightsize(); }
        const char *data() { return sl.data(); }
    };
} // namespace

VF_SUITE(keys_exhaustive, c15::exhA_count, c15::exhA_run<XTerm>)
VF_SUITE(keys_reinit, c15::exhR_count, c15::exhR_run<XTerm>)
VF_SUITE(keys_exhaustive7, c15::exhB_count, c15::exhB_run<XTerm>)
VF_SUITE(keys_random, c15::rnd_count, c15::rnd_run<XTerm>)
VF_SUITE(keys_longline, c15::long_count, c15::long_run<XTerm>)
VF_SUITE(keys_deephist, c15::deep_count, c15::deep_run<XTerm>)
VF_SUITE(sline_exhaustive, c15::slexh_count, c15::slexh_run<XSline>)
VF_SUITE(sline_random, c15::slrnd_count, c15::slrnd_run<XSline>)

extern "C" void vf_setup() { c15::require_common(); }

// Millions of short cases allocate and free a handful of small blocks each; with the default 256 MiB quarantine
// every worker keeps touching fresh pages (page-fault bound).  Use-after-free is not what this property is about
// (nothing is freed while a line editor is in use); overflow detection does not depend on the quarantine.
extern "C" const char *__asan_default_options() { return "quarantine_size_mb=8:thread_local_quarantine_size_kb=64"; }
