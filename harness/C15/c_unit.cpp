// C15, unit "c": the C line editor (igris/datastruct/sline.h + igris/shell/readline.h + igris/shell/vterm.c).
// Line and history buffers are heap blocks of exactly cap / cap*H bytes (malloc(n): red zones on both sides).
#define VF_MAIN
#include "model.h"

#include <igris/datastruct/sline.h>
#include <igris/shell/vterm.h>

namespace
{
    struct CTerm
    {
        vterm_automate vt;
        vf::Exact line, hist;
        static const char *impl() { return "c"; }
        static void w(void *p, const char *d, unsigned n) { ((c15::Sink *)p)->on_write(d, n); }
        static void x(void *p, const char *d, unsigned n) { ((c15::Sink *)p)->on_exec(d, n); }
        static void s(void *p, int) { ((c15::Sink *)p)->sigints++; }
        CTerm(const c15::Cfg &cfg, c15::Sink *sink) : line(nullptr, cfg.cap), hist(nullptr, cfg.cap * cfg.H)
        {
            vterm_automate_init(&vt, line.c(), cfg.cap, hist.c(), cfg.H);
            vterm_set_write_callback(&vt, w, sink);
            vterm_set_execute_callback(&vt, x, sink);
            vterm_set_signal_callback(&vt, s, sink);
            if (cfg.prompt)
                vt.prefix_string = cfg.prompt;
        }
        int linecpy(char *dst, size_t size) { return readline_linecpy(&vt.rl, dst, size); }
        const char *history(int k) { return readline_history_pointer(&vt.rl, k); }
        // vterm_automate_init on the object in use: readline_init + readline_history_init + sline_init with new,
        // exactly sized blocks; the old blocks are freed (Exact::init releases before it allocates)
        void reinit(const c15::Cfg &cfg, c15::Sink *sink)
        {
            line.init(nullptr, cfg.cap);
            hist.init(nullptr, cfg.cap * cfg.H);
            vterm_automate_init(&vt, line.c(), cfg.cap, hist.c(), cfg.H);
            vterm_set_write_callback(&vt, w, sink);
            vterm_set_execute_callback(&vt, x, sink);
            vterm_set_signal_callback(&vt, s, sink);
            if (cfg.prompt)
                vt.prefix_string = cfg.prompt;
        }
        void key(int c) { vterm_automate_newdata(&vt, (int16_t)c); }
        unsigned len() { return (unsigned)sline_size(&vt.rl.line); }
        unsigned cursor() { return vt.rl.line.len - sline_rightsize(&vt.rl.line); }
        const char *data() { return vt.rl.line.buf; }
    };

    struct CSline
    {
        struct sline sl;
        vf::Exact buf;
        static const char *impl() { return "c"; }
        explicit CSline(unsigned cap) : buf(nullptr, cap) { sline_init(&sl, buf.c(), cap); }
        void reinit(unsigned cap, bool by_setbuf)
        {
            buf.init(nullptr, cap);
            if (by_setbuf)
            {
                sline_setbuf(&sl, buf.c(), cap);
                sline_reset(&sl);
            }
            else
                sline_init(&sl, buf.c(), cap);
        }
        int putchar(char c) { return sline_putchar(&sl, c); }
        int newdata(const char *d, int n) { return sline_newdata(&sl, d, n); }
        int backspace(unsigned n) { return sline_backspace(&sl, n); }
        int del(unsigned n) { return sline_delete(&sl, n); }
        int left() { return sline_left(&sl); }
        int right() { return sline_right(&sl); }
        const char *getline() { return sline_getline(&sl); }
        bool equal(const char *s) { return sline_equal(&sl, s); }
        unsigned len() { return (unsigned)sline_size(&sl); }
        unsigned cursor() { return sl.len - sline_rightsize(&sl); }
        const char *data() { return sl.buf; }
    };
} // namespace

VF_SUITE(keys_exhaustive, c15::exhA_count, c15::exhA_run<CTerm>)
VF_SUITE(keys_reinit, c15::exhR_count, c15::exhR_run<CTerm>)
VF_SUITE(keys_exhaustive7, c15::exhB_count, c15::exhB_run<CTerm>)
VF_SUITE(keys_random, c15::rnd_count, c15::rnd_run<CTerm>)
VF_SUITE(keys_longline, c15::long_count, c15::long_run<CTerm>)
VF_SUITE(keys_deephist, c15::deep_count, c15::deep_run<CTerm>)
VF_SUITE(sline_exhaustive, c15::slexh_count, c15::slexh_run<CSline>)
VF_SUITE(sline_random, c15::slrnd_count, c15::slrnd_run<CSline>)

extern "C" void vf_setup() { c15::require_common(); }

// Millions of short cases allocate and free a handful of small blocks each; with the default 256 MiB quarantine
// every worker keeps touching fresh pages (page-fault bound).  Use-after-free is not what this property is about
// (nothing is freed while a line editor is in use); overflow detection does not depend on the quarantine.
extern "C" const char *__asan_default_options() { return "quarantine_size_mb=8:thread_local_quarantine_size_kb=64"; }
