// C15 — shared monitor code for the two terminal implementations (C: readline.h + vterm.c, C++: readlinexx.h +
// vtermxx.cpp).  The two igris headers share an include guard, so each implementation lives in its own unit / TU;
// this header holds everything that does not depend on igris: the reference editor (DESIGN §3a C15), the VT100
// screen model, the key alphabet, and the drivers (templates over a thin adapter).
#pragma once
#include "guard.h"
#include "vf.h"
#include <optional>
#include <string>
#include <vector>

namespace c15
{
    // ------------------------------------------------------------------------------------------------ keys
    enum Key : uint8_t
    {
        K_CH1,   // printable 'A' (doubles as the final byte of "up" when typed after raw ESC [)
        K_CH2,   // printable '3' (doubles as the intro of "delete" when typed after raw ESC [)
        K_BS,    // 0x08
        K_UP,    // ESC [ A
        K_DOWN,  // ESC [ B
        K_LEFT,  // ESC [ D
        K_RIGHT, // ESC [ C
        K_DEL,   // ESC [ 3 ~
        K_CR,
        K_LF,
        K_CTRLC, // 0x03
        K_ESCX,  // ESC x  (unknown escape, as one key)
        K_ESC,   // raw ESC (sequence split: whatever comes next is its continuation)
        K_LBR,   // raw '['  (printable in the ground state, CSI introducer after ESC)
        K_NKEYS
    };
    static const char *const KEY_NAME[K_NKEYS] = {"A", "3", "BS", "UP", "DOWN", "LEFT", "RIGHT", "DEL", "CR", "LF", "^C", "ESC-x", "ESC", "["};
    static const char *const KEY_BYTES[K_NKEYS] = {"A", "3", "\x08", "\x1b[A", "\x1b[B", "\x1b[D", "\x1b[C", "\x1b[3~", "\r", "\n", "\x03", "\x1bx", "\x1b", "["};

    static inline std::string show_bytes(const std::string &s)
    {
        std::string o;
        for (size_t i = 0; i < s.size(); i++)
        {
            unsigned char c = (unsigned char)s[i];
            char b[48];
            if (c == 1 && i + 3 < s.size())
            { // harness marker: re-initialisation with a new capacity / history depth
                snprintf(b, sizeof b, "<REINIT cap=%u hist=%u>", (unsigned char)s[i + 1] | ((unsigned char)s[i + 2] << 8), (unsigned char)s[i + 3]);
                o += b;
                i += 3;
            }
            else if (c == 0x1b)
                o += "<ESC>";
            else if (c == '\r')
                o += "<CR>";
            else if (c == '\n')
                o += "<LF>";
            else if (c == 3)
                o += "<^C>";
            else if (c == 8)
                o += "<BS>";
            else if (c >= 0x21 && c < 0x7f)
                o += (char)c;
            else
            {
                snprintf(b, sizeof b, "<%02x>", c);
                o += b;
            }
        }
        return o;
    }

    // ------------------------------------------------------------------------------------------------ reference editor
    // Written from DESIGN §3a C15, not from igris.  One byte at a time; reports what the byte did.
    enum Act
    {
        A_START,
        A_INSERT,
        A_INSERT_FULL, // printable typed into a full line: ignored, nothing echoed
        A_BS,
        A_BS_NOOP,
        A_DEL,
        A_DEL_NOOP,
        A_LEFT,
        A_LEFT_CLAMP,
        A_RIGHT,
        A_RIGHT_CLAMP,
        A_UP,
        A_UP_CLAMP,
        A_DOWN,
        A_DOWN_CLAMP,
        A_NEWLINE,
        A_NL_SWALLOW, // second byte of CRLF / LFCR
        A_CTRLC,
        A_ESC_START,
        A_ESC_MID,  // '[' after ESC, '3' after ESC [
        A_ESC_DROP, // unknown sequence finished, nothing happens
        A_NACTS
    };
    static const char *const ACT_NAME[A_NACTS] = {"start", "insert", "insert-into-full-line", "bs", "bs-noop", "del", "del-noop", "left", "left-clamped", "right", "right-clamped", "up", "up-clamped", "down", "down-clamped", "newline", "newline-second-half", "ctrl-c", "esc-start", "esc-mid", "esc-dropped"};

    struct RefEditor
    {
        unsigned cap, H;
        std::string line;
        unsigned cur = 0;
        unsigned histpos = 0;
        std::vector<std::string> hist; // most recent first, at most H entries; missing entries are empty slots
        enum
        {
            GROUND,
            ESC,
            CSI,
            CSI3
        } ps = GROUND;
        char pending = 0;          // newline byte that would be the second half of a mixed pair (0: none)
        bool ctrlc_in_pair = false; // ^C arrived while `pending` was set (what a following `pending` byte does is left open)
        std::vector<std::string> executed;

        RefEditor(unsigned cap_, unsigned H_) : cap(cap_), H(H_) {}
        void reset()
        {
            line.clear();
            cur = histpos = 0;
            hist.clear();
            ps = GROUND;
            pending = 0;
            ctrlc_in_pair = false;
            executed.clear();
        }
        bool ground() const { return ps == GROUND; }
        void load()
        {
            line = (histpos == 0 || histpos > hist.size()) ? std::string() : hist[histpos - 1];
            cur = (unsigned)line.size();
        }
        Act feed(unsigned char c)
        {
            if (c == 3)
            { // intercepted before the editor: abandons the line, parser untouched
                line.clear();
                cur = 0;
                histpos = 0;
                if (pending)
                    ctrlc_in_pair = true;
                return A_CTRLC;
            }
            char was_pending = pending;
            pending = 0;
            ctrlc_in_pair = false;
            switch (ps)
            {
            case GROUND:
                if (c == '\r' || c == '\n')
                {
                    if (was_pending == (char)c)
                        return A_NL_SWALLOW; // swallowed once; the byte after it is fresh
                    executed.push_back(line);
                    if (!line.empty() && (hist.empty() || hist.front() != line))
                    {
                        hist.insert(hist.begin(), line);
                        if (hist.size() > H)
                            hist.pop_back();
                    }
                    line.clear();
                    cur = 0;
                    histpos = 0;
                    pending = c == '\r' ? '\n' : '\r';
                    return A_NEWLINE;
                }
                if (c == 8)
                {
                    if (cur == 0)
                        return A_BS_NOOP;
                    line.erase(cur - 1, 1);
                    cur--;
                    return A_BS;
                }
                if (c == 0x1b)
                {
                    ps = ESC;
                    return A_ESC_START;
                }
                if (line.size() + 1 < cap)
                {
                    line.insert(line.begin() + cur, (char)c);
                    cur++;
                    return A_INSERT;
                }
                return A_INSERT_FULL;
            case ESC:
                if (c == '[')
                {
                    ps = CSI;
                    return A_ESC_MID;
                }
                ps = GROUND;
                return A_ESC_DROP;
            case CSI:
                ps = GROUND;
                switch (c)
                {
                case 'A':
                    if (histpos == H)
                        return A_UP_CLAMP;
                    histpos++;
                    load();
                    return A_UP;
                case 'B':
                    if (histpos == 0)
                        return A_DOWN_CLAMP;
                    histpos--;
                    load();
                    return A_DOWN;
                case 'C':
                    if (cur == line.size())
                        return A_RIGHT_CLAMP;
                    cur++;
                    return A_RIGHT;
                case 'D':
                    if (cur == 0)
                        return A_LEFT_CLAMP;
                    cur--;
                    return A_LEFT;
                case '3':
                    ps = CSI3;
                    return A_ESC_MID;
                }
                return A_ESC_DROP;
            case CSI3:
                ps = GROUND;
                if (cur == line.size())
                    return A_DEL_NOOP;
                line.erase(cur, 1);
                return A_DEL;
            }
            return A_ESC_DROP;
        }
    };

    // ------------------------------------------------------------------------------------------------ VT100 screen model
    // printable, CR, LF, BS, CSI n A/B/C/D, CSI n K.  Anything else is flagged (the echo must stay inside what the
    // model understands, otherwise the screen clause would be judged on a guess).
    struct Screen
    {
        int W; // columns; the terminal layer positions with relative moves inside one row (no wrapping), so the
               // model is simply made wider than the longest prompt + line of the case
        std::vector<std::string> rows; // pool: rows[0..nrows) are live, the others are blank and reused
        std::vector<int> hi;           // hi[i]: every cell of row i at a column >= hi[i] is blank
        int nrows = 1;
        int r = 0, c = 0;
        int st = 0;
        int param = 0;
        bool have_param = false;
        std::string unmodelled; // first byte sequence the model does not know
        bool overflow = false;
        explicit Screen(int width = 100) : W(width)
        {
            rows.emplace_back((size_t)W, ' ');
            hi.push_back(0);
        }
        void blank(int i, int from)
        {
            for (int k = from; k < hi[i]; k++)
                rows[i][k] = ' ';
            if (from < hi[i])
                hi[i] = from;
        }
        void reset()
        {
            for (int i = 0; i < nrows; i++)
                blank(i, 0);
            nrows = 1;
            r = c = st = param = 0;
            have_param = false;
            unmodelled.clear();
            overflow = false;
        }
        void flag(const char *what, unsigned char b)
        {
            if (unmodelled.empty())
            {
                char t[64];
                snprintf(t, sizeof t, "%s 0x%02x", what, b);
                unmodelled = t;
            }
        }
        void put(unsigned char b)
        {
            switch (st)
            {
            case 0:
                if (b == 0x1b)
                    st = 1;
                else if (b == '\r')
                    c = 0;
                else if (b == '\n')
                {
                    r++;
                    if (r == nrows)
                    {
                        if ((size_t)nrows == rows.size())
                        {
                            rows.emplace_back((size_t)W, ' ');
                            hi.push_back(0);
                        }
                        nrows++;
                    }
                }
                else if (b == 8)
                {
                    if (c > 0)
                        c--;
                }
                else if (b >= 0x20 && b < 0x7f)
                {
                    if (c >= W - 1)
                        overflow = true;
                    else
                    {
                        rows[r][c++] = (char)b;
                        if (c > hi[r])
                            hi[r] = c;
                    }
                }
                else if (b == 0 || b == 7)
                    ; // NUL, BEL: no effect on what the screen shows
                else
                    flag("control byte", b);
                break;
            case 1:
                if (b == '[')
                {
                    st = 2;
                    param = 0;
                    have_param = false;
                }
                else
                {
                    flag("escape", b);
                    st = 0;
                }
                break;
            case 2:
                if (b >= '0' && b <= '9')
                {
                    param = param * 10 + (b - '0');
                    have_param = true;
                    if (param > 100000)
                        param = 100000;
                    break;
                }
                st = 0;
                {
                    int n = have_param && param > 0 ? param : 1;
                    switch (b)
                    {
                    case 'A':
                        r = r - n < 0 ? 0 : r - n;
                        break;
                    case 'B':
                        r = r + n >= nrows ? nrows - 1 : r + n;
                        break;
                    case 'C':
                        c = c + n > W - 1 ? W - 1 : c + n;
                        break;
                    case 'D':
                        c = c - n < 0 ? 0 : c - n;
                        break;
                    case 'K':
                    {
                        int mode = have_param ? param : 0;
                        if (mode == 0)
                            blank(r, c); // cursor .. end of line
                        else if (mode == 2)
                            blank(r, 0); // whole line
                        else if (mode == 1)
                        { // start of line .. cursor
                            for (int k = 0; k <= c && k < hi[r]; k++)
                                rows[r][k] = ' ';
                        }
                        else
                            flag("CSI K mode", b);
                        break;
                    }
                    default:
                        flag("CSI final", b);
                    }
                }
                break;
            }
        }
        std::string row_trimmed(int i) const
        {
            std::string s = rows[i];
            while (!s.empty() && s.back() == ' ')
                s.pop_back();
            return s;
        }
        // row i == a ++ b followed by blanks only
        bool row_is(int i, const char *a, size_t na, const std::string &b) const
        {
            const std::string &row = rows[i];
            if (na + b.size() > row.size())
                return false;
            if (memcmp(row.data(), a, na) != 0 || memcmp(row.data() + na, b.data(), b.size()) != 0)
                return false;
            for (size_t k = na + b.size(); k < (size_t)hi[i]; k++)
                if (row[k] != ' ')
                    return false;
            return true;
        }
    };

    // ------------------------------------------------------------------------------------------------ observation sink
    struct Sink
    {
        std::string out;               // every byte given to the write callback
        std::vector<std::string> exec; // every (line, length) given to the execute callback
        int sigints = 0;
        void on_write(const char *p, unsigned n) { out.append(p, n); }
        // reads exactly line[0..length): a length beyond the exact line buffer is an ASan report
        void on_exec(const char *p, unsigned n) { exec.emplace_back(p, n); }
    };

    struct Cfg
    {
        unsigned cap, H;
        const char *prompt; // nullptr = leave the default "$ "
        int width = 100;    // columns of the screen model
        const char *prompt_text() const { return prompt ? prompt : "$ "; }
    };

    // ------------------------------------------------------------------------------------------------ terminal driver
    // Term adapter: Term(const Cfg&, Sink*), void key(int), unsigned len(), unsigned cursor(), const char* data(),
    //               int linecpy(char *dst, size_t size)   readline_linecpy / readline::linecpy (NUL-terminating copy-out)
    //               const char *history(int k)            readline_history_pointer / readline::history_pointer (k-th most recent)
    //               static const char* impl()  ("c" / "cxx")
    static inline void note_state(unsigned cap, unsigned H, unsigned len, unsigned cur, unsigned hp)
    {
        static uint64_t cache[1024];
        uint64_t h = vf::mix(vf::mix(cap * 8 + H, len * 64 + cur), hp + 1);
        uint64_t &slot = cache[h & 1023];
        if (slot == h)
            return;
        slot = h;
        vf::state(h);
    }

    static inline void count_act(Act a)
    {
        static int ids[A_NACTS];
        static bool init = false;
        if (!init)
        {
            for (int i = 0; i < A_NACTS; i++)
                ids[i] = vf::clause_id(ACT_NAME[i]);
            init = true;
        }
        vf::clause_hit(ids[a]);
    }

    template <class Term> struct Runner
    {
        Cfg cfg;
        Sink sink;
        std::optional<Term> term; // the igris objects and their exact buffers are created anew for every sequence
        RefEditor ref;
        Screen scr;
        size_t replayed = 0;
        std::string fed;    // bytes so far (witness)
        std::string script; // long cases: readable description used in the witness instead of every byte
        unsigned char *pool; // destination pool for the copy-out accessor: 8 canary bytes + cap + 2, exactly allocated
        Act prev = A_START;
        const char *last_nl = "none"; // what the reference did with the most recent CR/LF byte before the current one
        uint64_t steps = 0;
        unsigned reinits = 0; // re-initialisations so far in this sequence

        unsigned first_cap, first_H;
        explicit Runner(const Cfg &c) : cfg(c), ref(c.cap, c.H), scr(c.width), pool((unsigned char *)malloc(8 + c.cap + 2)), first_cap(c.cap), first_H(c.H) {}
        ~Runner() { free(pool); }
        Runner(const Runner &) = delete;

        std::string witness() const
        {
            char t[96];
            snprintf(t, sizeof t, "impl=%s cap=%u hist=%u prompt=\"%s\" keys=", Term::impl(), cfg.cap, cfg.H, cfg.prompt_text());
            if (script.empty())
                return std::string(t) + show_bytes(fed);
            return std::string(t) + script + " ...last bytes " + show_bytes(fed.size() > 24 ? fed.substr(fed.size() - 24) : fed);
        }
        // ---- copy-out / terminating accessors, driven after every key
        // linecpy(dst, size): at most size-1 characters + NUL, returns the number copied, nothing outside dst[0..size).
        // dst ends exactly at the end of a heap block (ASan red zone behind dst[size-1]), 8 canary bytes in front.
        void probe_linecpy(size_t size)
        {
            size_t total = 8 + cfg.cap + 2;
            unsigned char *dst = pool + total - size;
            memset(dst - 8, 0xA5, 8 + size);
            size_t len = ref.line.size(), want = len < size - 1 ? len : size - 1;
            const char *cls = size < len ? "size<len" : size == len ? "size==len" : size == len + 1 ? "size==len+1" : "size>len+1";
            int r = term->linecpy((char *)dst, size);
            char key[vf::KEY_LEN], d[160];
            const char *what = nullptr;
            if (r != (int)want)
                what = "return";
            else if (memcmp(dst, ref.line.data(), want) != 0 || dst[want] != 0)
                what = "content";
            else
                for (int k = 1; k <= 8; k++)
                    if (dst[-k] != 0xA5)
                        what = "write-before-destination";
            if (what)
            {
                snprintf(key, sizeof key, "%s:linecpy:%s:%s", Term::impl(), what, cls);
                snprintf(d, sizeof d, "linecpy(dst, %zu) with len=%zu returned %d, reference %zu", size, len, r, want);
                vf::fail(key, "%s | %s", witness().c_str(), d);
            }
            VF_OK("linecpy: min(len, size-1) characters + NUL inside the destination, return value");
            if (size == len)
                VF_OK("linecpy: destination size == line length");
        }
        void check_accessors()
        {
            size_t len = ref.line.size();
            if (len <= 8)
                for (size_t sz = 1; sz <= len + 3; sz++)
                    probe_linecpy(sz);
            else
            {
                const size_t some[] = {1, 2, len - 1, len, len + 1, len + 2, len + 3, 3 + (size_t)(steps * 7919u) % (len - 4)};
                for (size_t sz : some)
                    probe_linecpy(sz);
            }
            // history accessor: k-th most recent entry, NUL-terminated inside its slot of cap bytes
            for (unsigned k = 1; k <= cfg.H; k++)
            {
                const char *p = term->history((int)k);
                size_t n = strnlen(p, cfg.cap); // reads at most the slot: the slot is part of the exact history block
                const std::string *want = k <= ref.hist.size() ? &ref.hist[k - 1] : nullptr;
                size_t wn = want ? want->size() : 0;
                if (n >= cfg.cap || n != wn || (wn && memcmp(p, want->data(), wn) != 0))
                {
                    char key[vf::KEY_LEN];
                    snprintf(key, sizeof key, "%s:history:accessor:%s", Term::impl(), n >= cfg.cap ? "unterminated" : "entry");
                    vf::fail(key, "%s | history_pointer(%u) = \"%s\", reference \"%s\"", witness().c_str(), k, vf::esc(p, n).c_str(), want ? want->c_str() : "");
                }
            }
            VF_OK("history accessor: k-th most recent entry == reference ring, terminated inside its slot");
        }
        [[noreturn]] void bad(const char *monitor, Act a, bool cursor_mid, bool with_nl, const std::string &detail)
        {
            char key[vf::KEY_LEN];
            snprintf(key, sizeof key, "%s:%s:%s%s%s%s%s", Term::impl(), monitor, ACT_NAME[a], cursor_mid ? ":cursor-mid" : "", with_nl ? ":last-newline-byte=" : "", with_nl ? last_nl : "", reinits ? ":after-reinit" : "");
            vf::fail(key, "%s | %s", witness().c_str(), detail.c_str());
        }
        void replay_output()
        {
            for (; replayed < sink.out.size(); replayed++)
                scr.put((unsigned char)sink.out[replayed]);
        }
        void check_bounds(Act a)
        {
            unsigned len = term->len(), cur = term->cursor();
            if (!(cur <= len && len < cfg.cap))
            {
                char d[96];
                snprintf(d, sizeof d, "len=%u cursor=%u cap=%u", len, cur, cfg.cap);
                bad("bounds", a, false, false, d);
            }
            VF_OK("0 <= cursor <= len < cap after every byte");
        }
        void check_screen(Act a, bool cursor_mid)
        {
            replay_output();
            if (!scr.unmodelled.empty())
                bad("screen:unmodelled-output", a, false, false, scr.unmodelled);
            if (scr.overflow)
                vf::fail("harness:screen-too-narrow", "%s", witness().c_str());
            const char *pt = cfg.prompt_text();
            size_t pl = strlen(pt);
            int wantcol = (int)pl + (int)ref.cur;
            if (scr.r != scr.nrows - 1 || !scr.row_is(scr.r, pt, pl, ref.line))
            {
                char d[400];
                snprintf(d, sizeof d, "screen row %d of %d shows \"%s\", reference \"%s%s\"", scr.r, scr.nrows, scr.row_trimmed(scr.r).c_str(), pt, ref.line.c_str());
                bad("screen:row", a, cursor_mid, false, d);
            }
            VF_OK("screen row == prompt + reference line");
            if (scr.c != wantcol)
            {
                char d[200];
                snprintf(d, sizeof d, "screen cursor column %d, reference %d (row \"%s\")", scr.c, wantcol, scr.row_trimmed(scr.r).c_str());
                bad("screen:cursor", a, cursor_mid, false, d);
            }
            VF_OK("screen cursor == prompt + reference cursor");
        }
        // (re)start: fresh terminal, empty reference, blank screen; the harness-side containers keep their storage
        void start()
        {
            term.reset();
            sink.out.clear();
            sink.exec.clear();
            sink.sigints = 0;
            ref.reset();
            scr.reset();
            replayed = 0;
            fed.clear();
            prev = A_START;
            last_nl = "none";
            steps = 0;
            reinits = 0;
            if (cfg.cap != first_cap || cfg.H != first_H)
            { // a previous sequence of this batch re-initialised with another configuration
                cfg.cap = ref.cap = first_cap;
                cfg.H = ref.H = first_H;
                free(pool);
                pool = (unsigned char *)malloc(8 + cfg.cap + 2);
            }
            term.emplace(cfg, &sink);
            if (vf::verbose())
                printf("  terminal case: impl=%s cap=%u hist=%u prompt=\"%s\" %s\n", Term::impl(), cfg.cap, cfg.H, cfg.prompt_text(), script.c_str());
            term->key(-1);
            check_bounds(A_START);
            check_screen(A_START, false);
        }
        // Re-initialisation of the same terminal object (vterm_automate_init / vtermxx::init -> readline init, history
        // init, sline init) with another capacity and history depth, as an ordinary step of a key history.  The C
        // adapter hands over new exactly sized line / history blocks and frees the old ones (a stale pointer is a
        // use-after-free for ASan).  HEAD's init routines reset line, cursor, escape parser, newline pairing and browse
        // index and zero the history, so the reference restarts empty with the new capacity and depth; the init routines
        // also drop the callbacks and the prompt, which the adapter sets again.  The screen model restarts blank
        // ("terminal reconnect": the init does not emit anything, the next newdata prints the prompt).
        void reinit(unsigned ncap, unsigned nH)
        {
            char m[4] = {1, (char)(ncap & 0xff), (char)(ncap >> 8), (char)nH};
            fed.append(m, 4);
            if (vf::verbose())
                printf("    re-init cap=%u hist=%u\n", ncap, nH);
            reinits++;
            cfg.cap = ncap;
            cfg.H = nH;
            term->reinit(cfg, &sink);
            ref.cap = ncap;
            ref.H = nH;
            ref.reset();
            sink.exec.clear();
            scr.reset();
            replayed = sink.out.size();
            free(pool);
            pool = (unsigned char *)malloc(8 + ncap + 2);
            prev = A_START;
            last_nl = "none";
            check_bounds(A_START);
            term->key(-1);
            check_bounds(A_START);
            if (term->len() != 0 || term->cursor() != 0)
                bad("editor:line", A_START, false, false, "line not empty after re-initialisation");
            check_screen(A_START, false);
            check_accessors();
            VF_OK("re-init: empty line, empty history, prompt shown again");
        }
        // feed one byte; with flush: newdata(-1) afterwards and evaluate the state/screen clauses
        void byte(unsigned char b, bool flush)
        {
            fed += (char)b;
            steps++;
            if (vf::verbose() && script.empty())
                printf("    byte %s%s\n", show_bytes(std::string(1, (char)b)).c_str(), flush ? "" : " (no flush)");
            bool cursor_mid = ref.cur < ref.line.size();
            unsigned cursor_before_byte = ref.cur;
            term->key(b);
            Act a = ref.feed(b);
            count_act(a);
            check_bounds(a);
            // executed lines: same number, same text, NUL-terminated at the reported length
            if (sink.exec.size() != ref.executed.size())
            {
                char d[200];
                snprintf(d, sizeof d, "execute callback ran %zu times, reference %zu", sink.exec.size(), ref.executed.size());
                bad("exec:count", a, false, true, d);
            }
            if (a == A_NEWLINE)
            {
                if (sink.exec.back() != ref.executed.back())
                    bad("exec:line", a, false, false, "executed \"" + vf::esc(sink.exec.back().data(), sink.exec.back().size()) + "\", reference \"" + ref.executed.back() + "\"");
                VF_OK("executed line == reference line");
                if (ref.executed.back().empty())
                    VF_OK("empty line executed");
            }
            if (a == A_NL_SWALLOW)
                VF_OK("second half of CRLF/LFCR swallowed");
            if (a == A_NEWLINE && prev == A_NL_SWALLOW)
                VF_OK("newline directly after a swallowed half is fresh");
            if (flush)
            {
                term->key(-1);
                check_bounds(a);
                if (ref.ground())
                {
                    unsigned len = term->len(), cur = term->cursor();
                    bool recall = a == A_UP || a == A_DOWN;
                    if (len != ref.line.size() || memcmp(term->data(), ref.line.data(), len) != 0)
                        bad(recall ? "history:recall" : "editor:line", a, cursor_mid, false, "line \"" + vf::esc(term->data(), len) + "\", reference \"" + ref.line + "\"");
                    if (cur != ref.cur)
                    {
                        char d[96];
                        snprintf(d, sizeof d, "cursor %u, reference %u", cur, ref.cur);
                        bad("editor:cursor", a, cursor_mid, false, d);
                    }
                    VF_OK("line, length, cursor == reference");
                    if (recall)
                    {
                        VF_OK("history recall == reference ring");
                        if (!ref.line.empty())
                            VF_OK("history recall of a non-empty entry");
                        if (ref.histpos > ref.hist.size())
                            VF_OK("history recall of an unused slot gives the empty line");
                    }
                    if (a == A_INSERT_FULL)
                        VF_OK("printable typed into a full line ignored");
                    check_screen(a, cursor_mid);
                    check_accessors();
                    if (len >= 256 && cursor_mid && ref.line.size() - ref.cur >= 256)
                        VF_OK("edit with >= 256 characters right of the cursor");
                    if (recall && cursor_before_byte >= 256)
                        VF_OK("history recall with the cursor at column >= 256");
                    note_state(cfg.cap, cfg.H, len, cur, ref.histpos);
                }
            }
            prev = a;
            if (b == '\r' || b == '\n')
                last_nl = a == A_NEWLINE ? "newline" : a == A_NL_SWALLOW ? "second-half" : "consumed-by-escape";
        }
        // DESIGN §3a leaves open what <newline byte> ^C <other newline byte> does; such a continuation is not judged
        bool next_is_open(unsigned char b) const { return ref.ctrlc_in_pair && ref.pending == (char)b; }
    };

    // run a byte string; returns false if it was cut at an open continuation
    template <class Term> static bool run_bytes(Runner<Term> &R, const std::string &bytes)
    {
        for (unsigned char b : bytes)
        {
            if (R.next_is_open(b))
            {
                VF_OK("open continuation (newline byte, ^C, other newline byte) not judged");
                return false;
            }
            R.byte(b, true);
        }
        return true;
    }

    // -------------------------------------------------------------- suite: exhaustive key sequences
    static const unsigned CAPS[4] = {2, 3, 4, 8};
    static const unsigned HISTS[3] = {1, 2, 3};
    static const int SUFFIX = 3; // keys enumerated inside one case
    static inline uint64_t ipow(uint64_t b, int e)
    {
        uint64_t r = 1;
        while (e-- > 0)
            r *= b;
        return r;
    }
    // All sequences of exactly L keys over the first `nkeys` keys of the alphabet (every shorter sequence is a prefix
    // and the clauses are evaluated after every byte) x 4 capacities x 3 history depths.  One case = one
    // (configuration, prefix of L-3 keys) with all nkeys^3 continuations.
    //   suite A: all 14 keys (12 whole keys + raw ESC + raw '[' so that sequences are also split/malformed), L = 5 / 6,
    //            4 capacities x 3 history depths
    //   suite B (thorough only): the 12 whole keys, L = 7, 4 capacities x 3 history depths
    static inline int lenA() { return vf::thorough() ? 6 : 5; }
    static inline uint64_t exhA_count() { return 12 * ipow(K_NKEYS, lenA() - SUFFIX); }
    static inline uint64_t exhB_count() { return vf::thorough() ? 12 * ipow(K_ESC, 7 - SUFFIX) : 0; }
    template <class Term> static void exh_run(uint64_t idx, unsigned nkeys, int L, unsigned nconfigs)
    {
        char tag[40];
        snprintf(tag, sizeof tag, "%s:vterm", Term::impl());
        vf::cls(tag);
        unsigned cfgi = idx % nconfigs;
        idx /= nconfigs;
        const uint64_t pidx = idx;
        Cfg cfg{CAPS[cfgi % 4], HISTS[cfgi / 4], nullptr};
        uint8_t keys[16];
        for (int i = 0; i < L - SUFFIX; i++, idx /= nkeys)
            keys[i] = idx % nkeys;
        uint64_t nsuf = ipow(nkeys, SUFFIX), nontrivial = 0;
        Runner<Term> R(cfg);
        for (uint64_t s = 0; s < nsuf; s++)
        {
            uint64_t t = s;
            for (int i = L - SUFFIX; i < L; i++, t /= nkeys)
                keys[i] = t % nkeys;
            R.start();
            bool edits = false;
            for (int i = 0; i < L; i++)
            {
                if (keys[i] <= K_DEL)
                    edits = true;
                if (!run_bytes(R, KEY_BYTES[keys[i]]))
                    break;
            }
            nontrivial += edits;
            if (s == 1234 && cfgi == 5 && (pidx == 100 || pidx == 150) && vf::want_sample())
                vf::sample("exhaustive: %s", R.witness().c_str());
        }
        vf::count_bulk(nsuf, nontrivial);
        VF_OK("exhaustive batch (one configuration and prefix, all continuations of 3 keys)");
    }
    // Re-initialisation inside key histories: 12 first configurations x 12 second configurations (smaller, equal,
    // larger capacity and depth) x every prefix of 2 keys over {A, 3, BS, UP, LEFT, CR, ^C, raw ESC} (line content,
    // history entry, pending escape, pending newline half at the moment of the re-init) x every continuation of
    // 3 (quick) / 4 (thorough) keys over {A, 3, BS, UP, DOWN, LEFT, DEL, CR, LF, raw ESC}.  One case = one
    // (first, second, prefix) with all continuations.
    static const Key RI_PRE[8] = {K_CH1, K_CH2, K_BS, K_UP, K_LEFT, K_CR, K_CTRLC, K_ESC};
    static const Key RI_SUF[10] = {K_CH1, K_CH2, K_BS, K_UP, K_DOWN, K_LEFT, K_DEL, K_CR, K_LF, K_ESC};
    static inline int ri_suflen() { return vf::thorough() ? 4 : 3; }
    static inline uint64_t exhR_count() { return 12 * 12 * 64; }
    template <class Term> static void exhR_run(uint64_t idx)
    {
        char tag[40];
        snprintf(tag, sizeof tag, "%s:vterm-reinit", Term::impl());
        vf::cls(tag);
        unsigned c1 = idx % 12, c2 = (idx / 12) % 12, pre = (unsigned)(idx / 144);
        Cfg cfg{CAPS[c1 % 4], HISTS[c1 / 4], nullptr};
        unsigned ncap = CAPS[c2 % 4], nH = HISTS[c2 / 4];
        int SL = ri_suflen();
        uint64_t nsuf = ipow(10, SL);
        Runner<Term> R(cfg);
        for (uint64_t s = 0; s < nsuf; s++)
        {
            R.start();
            bool ok = run_bytes(R, KEY_BYTES[RI_PRE[pre % 8]]) && run_bytes(R, KEY_BYTES[RI_PRE[pre / 8]]);
            if (!ok)
                continue;
            R.reinit(ncap, nH);
            uint64_t t = s;
            for (int i = 0; i < SL; i++, t /= 10)
                if (!run_bytes(R, KEY_BYTES[RI_SUF[t % 10]]))
                    break;
            if (s == 123 && c1 == 11 && c2 == 0 && pre == 8 && vf::want_sample())
                vf::sample("re-init: %s", R.witness().c_str());
        }
        vf::count_bulk(nsuf, nsuf);
        if (ncap < cfg.cap || ncap < R.first_cap)
            VF_OK("re-init with a smaller capacity");
        if (ncap > R.first_cap)
            VF_OK("re-init with a larger capacity");
        if (ncap == R.first_cap && nH == R.first_H)
            VF_OK("re-init with the same capacity and depth");
    }
    template <class Term> static void exhA_run(uint64_t idx) { exh_run<Term>(idx, K_NKEYS, lenA(), 12); }
    template <class Term> static void exhB_run(uint64_t idx) { exh_run<Term>(idx, K_ESC, 7, 12); }

    // -------------------------------------------------------------- suite: random long sequences
    static inline uint64_t rnd_count() { return vf::thorough() ? 200000 : 2000; }
    template <class Term> static void rnd_run(uint64_t idx)
    {
        char tag[40];
        snprintf(tag, sizeof tag, "%s:vterm", Term::impl());
        vf::cls(tag);
        vf::Rng r(vf::seed(), 0xC15, idx);
        static const unsigned caps[] = {2, 3, 4, 5, 8, 16, 40};
        static const unsigned hs[] = {1, 2, 3, 5};
        static const char *const prompts[] = {nullptr, "#>", "", "igris>>"};
        Cfg cfg{r.pick(caps), r.pick(hs), r.pick(prompts)};
        Runner<Term> R(cfg);
        R.start();
        static const char printable[] = "abcdefghijklmnopqrstuvwxyzABCD0123456789[]~;?OHF-_./";
        int mode = (int)r.below(4); // 0 balanced, 1 typing-heavy (fills lines), 2 navigation-heavy, 3 raw bytes
        // one case in six runs without any newdata(-1) between the keys: only the clauses that need no flush
        // (bounds, executed lines) are evaluated there, so that a divergence is never attributed to a later key
        bool noflush = r.chance(1, 6);
        std::string all;
        for (int k = 0; k < 300; k++)
        {
            std::string bytes;
            unsigned x = (unsigned)r.below(100);
            if (mode == 3)
            {
                static const char raw[] = "\x1b\x1b[[33~~AABBCCDD\r\n\x08\x03xyz";
                bytes = std::string(1, raw[r.below(sizeof raw - 1)]);
            }
            else
            {
                unsigned p_char = mode == 1 ? 60 : mode == 2 ? 20 : 35;
                if (x < p_char)
                    bytes = std::string(1, printable[r.below(sizeof printable - 1)]);
                else
                {
                    static const Key nav[] = {K_BS, K_UP, K_DOWN, K_LEFT, K_RIGHT, K_DEL, K_LEFT, K_UP, K_BS};
                    static const Key other[] = {K_CR, K_LF, K_CR, K_LF, K_CTRLC, K_ESCX, K_ESC, K_LBR};
                    if (r.chance(mode == 2 ? 4 : 3, 5))
                        bytes = KEY_BYTES[r.pick(nav)];
                    else
                    {
                        Key kk = r.pick(other);
                        bytes = KEY_BYTES[kk];
                        if (kk == K_CR && r.chance(1, 2))
                            bytes = "\r\n";
                        else if (kk == K_LF && r.chance(1, 3))
                            bytes = "\n\r";
                        else if (kk == K_ESCX)
                        {
                            static const char *const unk[] = {"\x1bx", "\x1bOP", "\x1b[Z", "\x1b[3x", "\x1b[H", "\x1b\r", "\x1b[\n", "\x1b[3\r"};
                            bytes = r.pick(unk);
                        }
                    }
                }
            }
            if (r.chance(1, 40))
            {
                static const unsigned rcaps[] = {2, 3, 4, 5, 8, 16, 40};
                static const unsigned rhs[] = {1, 2, 3, 5};
                unsigned nc = r.pick(rcaps), nh = r.pick(rhs);
                R.reinit(nc, nh);
                all.append("\x01", 1);
                all += (char)nc;
                all += (char)nh;
            }
            bool cut = false;
            for (unsigned char b : bytes)
            {
                if (R.next_is_open(b))
                {
                    VF_OK("open continuation (newline byte, ^C, other newline byte) not judged");
                    cut = true;
                    break;
                }
                R.byte(b, !noflush);
                all += (char)b;
            }
            if (cut)
                break;
        }
        vf::count_case(vf::hash_bytes(all.data(), all.size(), vf::mix(cfg.cap * 16 + cfg.H, (cfg.prompt ? strlen(cfg.prompt) + 1 : 0) * 2 + noflush)), R.ref.executed.size() > 0);
        VF_MAX("lines executed in one random case", R.ref.executed.size());
        if (idx < 2 && vf::want_sample())
            vf::sample("random%s: %s", noflush ? " (no newdata(-1) between keys)" : "", R.witness().substr(0, 400).c_str());
    }

    // -------------------------------------------------------------- suite: long lines (cursor-back moves of >= 256 columns)
    // The echo positions the cursor with ESC[<n>D where n is the number of characters right of the cursor (insert,
    // backspace, delete) or the cursor column (history recall).  Capacities around 256 and far above, lines that fill
    // them, the cursor moved 255 / 256 / 257 / all columns to the left, then edits and recalls.  Screen model 2048
    // columns wide (the terminal layer never relies on wrapping).  Scenarios 0..5 are scripted (the first three
    // variants of each do not depend on the seed), 6..7 are random segment mixes.
    static const unsigned LCAPS[6] = {64, 255, 256, 257, 300, 1000};
    static const int LSCEN = 8;
    static inline uint64_t long_count() { return 6 * LSCEN * (vf::thorough() ? 40 : 3); }
    struct LongScript
    {
        std::string bytes, text;
        unsigned typed = 0;
        void rep(Key k, unsigned n)
        {
            if (!n)
                return;
            for (unsigned i = 0; i < n; i++)
                bytes += KEY_BYTES[k];
            char t[48];
            snprintf(t, sizeof t, "%s*%u ", KEY_NAME[k], n);
            text += t;
        }
        void type(unsigned n)
        {
            if (!n)
                return;
            for (unsigned i = 0; i < n; i++, typed++)
                bytes += (char)('a' + typed % 26);
            char t[48];
            snprintf(t, sizeof t, "type(%u) ", n);
            text += t;
        }
        void ch(char c)
        {
            bytes += c;
            text += c;
            text += ' ';
        }
    };
    template <class Term> static void long_run(uint64_t idx)
    {
        char tag[40];
        snprintf(tag, sizeof tag, "%s:vterm-long", Term::impl());
        vf::cls(tag);
        vf::Rng r(vf::seed(), 0x10F6, idx);
        unsigned cap = LCAPS[idx % 6];
        int sc = (int)((idx / 6) % LSCEN);
        unsigned var = (unsigned)(idx / (6 * LSCEN));
        static const char *const prompts[] = {nullptr, "#>", "", "igris>>", "a-rather-long-prompt-of-37-columns:~$ "};
        Cfg cfg{cap, 1 + (unsigned)((idx / 6 + var) % 3), prompts[(idx / 6 + 2 * var) % 5], 2048};
        const unsigned full = cap - 1;
        auto lim = [&](unsigned v, unsigned hi) { return v < hi ? v : hi; };
        // line length and cursor-back distance: seed-independent for the first three variants
        unsigned L = var == 0 ? full : var == 1 ? lim(257, full) : var == 2 ? lim(260, full) : (unsigned)r.range((int)(cap / 2), (int)full);
        auto move = [&](unsigned len) -> unsigned {
            if (var == 0)
                return lim(256, len);
            if (var == 1)
                return len;
            if (var == 2)
                return lim(257, len);
            static const unsigned pts[] = {255, 256, 257, 511, 512};
            return r.chance(1, 2) ? lim(r.pick(pts), len) : (unsigned)r.range(0, (int)len);
        };
        LongScript S;
        switch (sc)
        {
        case 0: // edits with a long tail right of the cursor (one free cell so that the insert is taken)
            L = lim(L, full - 1);
            S.type(L);
            S.rep(K_LEFT, move(L));
            S.ch('X');
            S.rep(K_BS, 1);
            S.rep(K_DEL, 1);
            S.rep(K_RIGHT, 3);
            S.ch('Y');
            S.rep(K_CR, 1);
            break;
        case 1: // recall with the cursor at the end of a long line, then from the middle
            S.type(L);
            S.rep(K_CR, 1);
            S.rep(K_UP, 2);
            S.rep(K_DOWN, 2);
            S.rep(K_UP, 1);
            S.rep(K_LEFT, L - move(L));
            S.rep(K_UP, 1);
            S.rep(K_DOWN, 1);
            S.rep(K_UP, 1);
            S.rep(K_DOWN, 2);
            break;
        case 2: // backspace / delete runs inside a long line, execute, recall, delete again
            S.type(L);
            S.rep(K_LEFT, move(L));
            S.rep(K_BS, 3);
            S.rep(K_DEL, 3);
            S.ch('Y');
            S.rep(K_CR, 1);
            S.rep(K_UP, 1);
            S.rep(K_LEFT, move(L > 6 ? L - 5 : 0));
            S.rep(K_DEL, 1);
            S.rep(K_BS, 1);
            S.rep(K_LF, 1);
            break;
        case 3: // long and short history entries, recall long over short and short over long
            S.type(L);
            S.rep(K_CR, 1);
            S.type(3);
            S.rep(K_CR, 1);
            S.rep(K_UP, 2);
            S.rep(K_LEFT, move(L));
            S.rep(K_DOWN, 1);
            S.rep(K_UP, 1);
            S.ch('Z');
            S.rep(K_LEFT, 1);
            S.rep(K_DOWN, 2);
            S.rep(K_UP, 3);
            S.rep(K_CR, 1);
            break;
        case 4: // ^C on a long line, home by repeated LEFT, insert at column 0, run to the end again
            S.type(L);
            S.rep(K_CTRLC, 1);
            L = lim(L, full - 3);
            S.type(L);
            S.rep(K_LEFT, L);
            S.type(2);
            S.rep(K_DEL, 2);
            S.rep(K_RIGHT, move(L));
            S.ch('Q');
            S.rep(K_CR, 1);
            break;
        case 5: // more characters than the line holds, rejected inserts in the middle of a full line
            S.type(cap + 5);
            S.rep(K_LEFT, move(full));
            S.type(3);
            S.rep(K_BS, 1);
            S.type(2);
            S.rep(K_DEL, 1);
            S.rep(K_CR, 1);
            S.rep(K_UP, 1);
            S.rep(K_LEFT, move(full));
            S.rep(K_UP, 1);
            break;
        default: // random segments
        {
            int nseg = r.range(8, 14);
            unsigned len_guess = 0;
            for (int i = 0; i < nseg; i++)
            {
                switch (r.below(8))
                {
                case 0:
                case 1:
                {
                    unsigned n = r.chance(1, 2) ? cap : (unsigned)r.range(1, (int)cap);
                    S.type(n);
                    len_guess = lim(len_guess + n, full);
                    break;
                }
                case 2:
                case 3:
                    S.rep(K_LEFT, move(len_guess));
                    break;
                case 4:
                    S.rep(K_RIGHT, (unsigned)r.range(1, 300));
                    break;
                case 5:
                    S.rep(r.chance(1, 2) ? K_BS : K_DEL, (unsigned)r.range(1, 4));
                    break;
                case 6:
                    S.rep(r.chance(2, 3) ? K_UP : K_DOWN, (unsigned)r.range(1, 3));
                    len_guess = full;
                    break;
                default:
                    S.rep(r.chance(1, 4) ? K_CTRLC : r.chance(1, 2) ? K_CR : K_LF, 1);
                    len_guess = 0;
                }
            }
        }
        }
        Runner<Term> R(cfg);
        R.script = S.text;
        R.start();
        run_bytes(R, S.bytes);
        vf::count_case(vf::hash_bytes(S.bytes.data(), S.bytes.size(), vf::mix(cap * 16 + cfg.H, idx)), true);
        VF_MAX("longest line in a long-line case", R.ref.executed.empty() ? R.ref.line.size() : R.ref.executed[0].size());
        if (sc == 1 && cap == 300 && var == 0 && vf::want_sample())
            vf::sample("long line: %s", R.witness().c_str());
    }

    // -------------------------------------------------------------- suite: deep histories (ring index arithmetic)
    // The history ring's depth, head and selection are uint8_t fields and the slot of the k-th most recent entry is
    // (head + depth - k) % depth: with depths of 100..255 the sum passes 255 (seeded C15-r5s1 kept it in 8 bits: wrong
    // entries from depth 128 on once enough lines were entered).  Depths around 128 and up to 255, distinct lines
    // entered short of / exactly / one past / more than twice around the ring, then UP through the whole ring and
    // beyond, DOWN again, execution of a recalled line (duplicate suppression compares with the newest slot), more
    // lines, more recalls.  After every byte the recalled line and all `depth` accessor slots are compared with the
    // reference ring.
    static const unsigned DEPTHS[8] = {4, 16, 100, 127, 128, 129, 200, 255};
    static inline uint64_t deep_count() { return 8 * 4 * (vf::thorough() ? 12 : 2); }
    template <class Term> static void deep_run(uint64_t idx)
    {
        char tag[40];
        snprintf(tag, sizeof tag, "%s:vterm-deep-history", Term::impl());
        vf::cls(tag);
        vf::Rng r(vf::seed(), 0xDEE9, idx);
        unsigned H = DEPTHS[idx % 8];
        int fill = (int)((idx / 8) % 4);
        unsigned var = (unsigned)(idx / 32);
        Cfg cfg{var % 2 ? 6u : 9u, H, var % 3 ? "#>" : nullptr, 2048};
        LongScript S;
        unsigned serial = var * 7919;
        auto enter = [&](unsigned n) {
            for (unsigned i = 0; i < n; i++, serial++)
            { // distinct 4-character lines
                unsigned v = serial;
                for (int c = 0; c < 4; c++, v /= 26)
                    S.bytes += (char)('a' + v % 26);
                S.bytes += KEY_BYTES[serial % 3 ? K_CR : K_LF];
            }
            char t[48];
            snprintf(t, sizeof t, "enter(%u lines) ", n);
            S.text += t;
        };
        unsigned n1 = fill == 0 ? H - 1 : fill == 1 ? H : fill == 2 ? H + 1 : 2 * H + 3 + (var > 1 ? (unsigned)r.below(H) : 0);
        enter(n1);
        S.rep(K_UP, H + 2);
        S.rep(K_DOWN, var > 1 ? (unsigned)r.range(1, (int)H) : H / 2 + 1);
        S.rep(K_CR, 1); // execute a recalled line: it becomes the newest entry
        S.rep(K_UP, 1);
        S.rep(K_CR, 1); // the newest entry again: suppressed as a duplicate
        S.rep(K_UP, var > 1 ? (unsigned)r.range(1, (int)H + 1) : H);
        S.rep(K_DOWN, 2);
        enter(var > 1 ? 1 + (unsigned)r.below(H) : 3);
        S.rep(K_UP, H + 1);
        S.rep(K_DOWN, H + 2);
        Runner<Term> R(cfg);
        R.script = S.text;
        R.start();
        run_bytes(R, S.bytes);
        vf::count_case(vf::hash_bytes(S.bytes.data(), S.bytes.size(), vf::mix(cfg.cap * 1024 + H, idx)), true);
        VF_MAX("deepest history ring driven", H);
        if (H >= 128 && n1 + H > 255)
            VF_OK("history recall with head + depth beyond 255");
        if (H == 200 && fill == 3 && var == 0 && vf::want_sample())
            vf::sample("deep history: %s", R.witness().substr(0, 400).c_str());
    }

    // ------------------------------------------------------------------------------------------------ sline driven directly
    // SL adapter: SL(unsigned cap), int putchar(char), int newdata(const char*, int), int backspace(unsigned),
    //   int del(unsigned), int left(), int right(), const char* getline(), unsigned len(), unsigned cursor(),
    //   const char* data(), static const char* impl()
    enum SOp : uint8_t
    {
        S_PUT_A,
        S_PUT_B,
        S_NEW1,    // bulk insert of 1 byte
        S_NEW2,    // bulk insert of 2 bytes
        S_NEWROOM, // bulk insert of exactly the free room (cap-1-len)
        S_NEWOVER, // bulk insert of room+1 bytes
        S_NEWCAP,  // bulk insert of cap+3 bytes (a line longer than the buffer)
        S_BS1,
        S_BS2,
        S_DEL1,
        S_DEL2,
        S_LEFT,
        S_RIGHT,
        S_GETLINE,
        S_REINIT_2,    // re-init (sline_init / igris::sline::init) with capacity 2
        S_REINIT_SAME, // ... with the current capacity (C: sline_setbuf + sline_reset on a new block)
        S_REINIT_BIG,  // ... with capacity + 3
        S_NOPS
    };
    static const char *const SOP_NAME[S_NOPS] = {"putchar", "putchar", "newdata:fits", "newdata:fits", "newdata:exact-room", "newdata:over-room", "newdata:over-cap", "backspace", "backspace", "delete", "delete", "left", "right", "getline", "reinit", "reinit", "reinit"};
    static const char *const SOP_SHOW[S_NOPS] = {"put(a)", "put(b)", "new(1)", "new(2)", "new(room)", "new(room+1)", "new(cap+3)", "bs(1)", "bs(2)", "del(1)", "del(2)", "left", "right", "getline", "reinit(2)", "reinit(same)", "reinit(cap+3)"};

    template <class SL> struct SlineRunner
    {
        unsigned cap;
        SL sl;
        std::string line; // reference
        unsigned cur = 0;
        std::string trace;
        unsigned serial = 0;
        explicit SlineRunner(unsigned cap_) : cap(cap_), sl(cap_) {}
        [[noreturn]] void bad(const char *what, const char *opname, const std::string &detail)
        {
            char key[vf::KEY_LEN];
            snprintf(key, sizeof key, "%s:sline:%s:%s", SL::impl(), what, opname);
            vf::fail(key, "impl=%s cap=%u ops=%s | %s", SL::impl(), cap, trace.c_str(), detail.c_str());
        }
        void compare(const char *opname)
        {
            unsigned len = sl.len(), c = sl.cursor();
            if (!(c <= len && len < cap))
            {
                char d[96];
                snprintf(d, sizeof d, "len=%u cursor=%u cap=%u", len, c, cap);
                bad("bounds", opname, d);
            }
            VF_OK("sline: 0 <= cursor <= len < cap after every operation");
            std::string got(sl.data(), len);
            if (got != line || c != cur)
            {
                char d[300];
                snprintf(d, sizeof d, "line \"%s\" cursor %u, reference \"%s\" cursor %u", vf::esc(got.data(), got.size()).c_str(), c, line.c_str(), cur);
                bad("state", opname, d);
            }
            VF_OK("sline: line and cursor == reference");
            note_state(cap, 0, len, c, 0);
        }
        void ret(const char *opname, int got, int want)
        {
            if (got != want)
            {
                char d[96];
                snprintf(d, sizeof d, "returned %d, reference %d", got, want);
                bad("return", opname, d);
            }
        }
        void bulk(const char *opname, unsigned n)
        {
            // source in a block of exactly n bytes: an over-read of the source hits the red zone
            std::string src;
            for (unsigned i = 0; i < n; i++)
                src += (char)('k' + (serial + i) % 12);
            serial += 5;
            vf::Exact e(src.data(), n, n ? 0 : 1);
            int k = sl.newdata(e.cc(), (int)n);
            unsigned room = cap - 1 - (unsigned)line.size();
            if (k < 0 || (unsigned)k > n || (unsigned)k > room)
            {
                char d[120];
                snprintf(d, sizeof d, "returned %d for n=%u with room=%u (len=%u)", k, n, room, sl.len());
                // the state clause below would say the same; bounds first so that the key names the real failure
                if (!(sl.len() < cap))
                    bad("bounds", opname, d);
                bad("return", opname, d);
            }
            if (n <= room && (unsigned)k != n)
            {
                char d[120];
                snprintf(d, sizeof d, "returned %d for n=%u although room=%u", k, n, room);
                bad("return", opname, d);
            }
            // how much of a too-long insert is taken is not fixed by the statement: any k <= room, but consistently
            line.insert(cur, src.substr(0, (size_t)k));
            cur += (unsigned)k;
            if (n > room)
                VF_OK("sline: bulk insert longer than the room stays inside the line");
            else
                VF_OK("sline: bulk insert that fits is taken completely");
        }
        void op(SOp o)
        {
            if (!trace.empty())
                trace += ' ';
            trace += SOP_SHOW[o];
            if (vf::verbose())
                printf("    sline op %s\n", SOP_SHOW[o]);
            const char *nm = SOP_NAME[o];
            switch (o)
            {
            case S_PUT_A:
            case S_PUT_B:
            {
                char ch = o == S_PUT_A ? 'a' : 'b';
                bool room = line.size() + 1 < cap;
                int k = sl.putchar(ch);
                if (room)
                {
                    line.insert(line.begin() + cur, ch);
                    cur++;
                }
                else
                    VF_OK("sline: putchar into a full line rejected");
                ret(nm, k, room ? 1 : 0);
                break;
            }
            case S_NEW1:
                bulk(line.size() + 1 + 1 <= cap ? "newdata:fits" : "newdata:over-room", 1);
                break;
            case S_NEW2:
                bulk(line.size() + 2 + 1 <= cap ? "newdata:fits" : "newdata:over-room", 2);
                break;
            case S_NEWROOM:
                bulk(nm, cap - 1 - (unsigned)line.size());
                break;
            case S_NEWOVER:
                bulk(nm, cap - (unsigned)line.size());
                break;
            case S_NEWCAP:
                bulk(nm, cap + 3);
                break;
            case S_BS1:
            case S_BS2:
            {
                unsigned n = o == S_BS1 ? 1 : 2, k = n > cur ? cur : n;
                int g = sl.backspace(n);
                line.erase(cur - k, k);
                cur -= k;
                ret(nm, g, (int)k);
                break;
            }
            case S_DEL1:
            case S_DEL2:
            {
                unsigned n = o == S_DEL1 ? 1 : 2, right = (unsigned)line.size() - cur, k = n > right ? right : n;
                int g = sl.del(n);
                line.erase(cur, k);
                ret(nm, g, (int)k);
                break;
            }
            case S_LEFT:
            {
                int g = sl.left();
                ret(nm, g, cur > 0);
                if (cur > 0)
                    cur--;
                break;
            }
            case S_RIGHT:
            {
                int g = sl.right();
                ret(nm, g, cur < line.size());
                if (cur < line.size())
                    cur++;
                break;
            }
            case S_REINIT_2:
            case S_REINIT_SAME:
            case S_REINIT_BIG:
            {
                // the same object gets another exactly sized buffer (the old one is freed); the reference restarts
                // empty with the new capacity
                unsigned ncap = o == S_REINIT_2 ? 2 : o == S_REINIT_SAME ? cap : cap + 3;
                sl.reinit(ncap, o == S_REINIT_SAME);
                cap = ncap;
                line.clear();
                cur = 0;
                VF_OK("sline: re-init with another exact buffer");
                break;
            }
            case S_GETLINE:
            {
                const char *p = sl.getline(); // writes the terminator at buf[len]: must be inside the exact buffer
                if (p != sl.data())
                    bad("getline:pointer", nm, "does not return the line buffer");
                if (p[line.size()] != '\0' || strlen(p) != line.size())
                    bad("getline:terminator", nm, "no NUL at buf[len]");
                VF_OK("sline: getline NUL-terminates at buf[len] inside the buffer");
                {
                    // comparison accessor on exactly sized C strings: equal to the line itself, not to a longer
                    // string with the line as prefix, not to a proper prefix of the line
                    vf::ExactStr same(line), longer(line + "q");
                    if (!sl.equal(same.cc()) || sl.equal(longer.cc()))
                        bad("equal", nm, "sline_equal(line) false or sline_equal(line + \"q\") true");
                    if (!line.empty())
                    {
                        vf::ExactStr prefix(line.substr(0, line.size() - 1));
                        if (sl.equal(prefix.cc()))
                            bad("equal", nm, "sline_equal(proper prefix) true");
                    }
                    VF_OK("sline: equal() accepts exactly the line");
                }
                break;
            }
            default:
                break;
            }
            compare(nm);
        }
    };

    static inline int sl_len() { return vf::thorough() ? 6 : 5; }
    static const int SL_SUFFIX = 3;
    static inline uint64_t slexh_count() { return 4 * ipow(S_NOPS, sl_len() - SL_SUFFIX); }
    template <class SL> static void slexh_run(uint64_t idx)
    {
        char tag[40];
        snprintf(tag, sizeof tag, "%s:sline", SL::impl());
        vf::cls(tag);
        unsigned cap = CAPS[idx % 4];
        idx /= 4;
        const uint64_t pidx = idx;
        int L = sl_len();
        uint8_t ops[16];
        for (int i = 0; i < L - SL_SUFFIX; i++, idx /= S_NOPS)
            ops[i] = idx % S_NOPS;
        uint64_t nsuf = ipow(S_NOPS, SL_SUFFIX);
        for (uint64_t s = 0; s < nsuf; s++)
        {
            uint64_t t = s;
            for (int i = L - SL_SUFFIX; i < L; i++, t /= S_NOPS)
                ops[i] = t % S_NOPS;
            SlineRunner<SL> R(cap);
            if (vf::verbose())
                printf("  sline case: impl=%s cap=%u\n", SL::impl(), cap);
            for (int i = 0; i < L; i++)
                R.op((SOp)ops[i]);
            R.op(S_GETLINE);
            if (s == 777 && cap == 4 && pidx == 50 && vf::want_sample())
                vf::sample("sline exhaustive: impl=%s cap=%u ops=%s", SL::impl(), cap, R.trace.c_str());
        }
        vf::count_bulk(nsuf, nsuf);
    }
    static inline uint64_t slrnd_count() { return vf::thorough() ? 100000 : 2000; }
    template <class SL> static void slrnd_run(uint64_t idx)
    {
        char tag[40];
        snprintf(tag, sizeof tag, "%s:sline", SL::impl());
        vf::cls(tag);
        vf::Rng r(vf::seed(), 0x511E, idx);
        static const unsigned caps[] = {2, 3, 4, 5, 7, 8, 16, 33, 64};
        unsigned cap = r.pick(caps);
        SlineRunner<SL> R(cap);
        if (vf::verbose())
            printf("  sline case: impl=%s cap=%u\n", SL::impl(), cap);
        uint64_t h = cap;
        for (int i = 0; i < 200; i++)
        {
            SOp o = (SOp)r.below(S_NOPS);
            if (r.chance(1, 3))
                o = r.chance(1, 2) ? S_PUT_A : S_NEW2; // keep the line populated
            R.op(o);
            h = vf::mix(h, o);
        }
        R.op(S_GETLINE);
        vf::count_case(h, true);
        if (idx == 0 && vf::want_sample())
            vf::sample("sline random: impl=%s cap=%u ops=%s", SL::impl(), cap, R.trace.substr(0, 300).c_str());
    }

    static inline void require_common()
    {
        for (const char *c : {"0 <= cursor <= len < cap after every byte", "screen row == prompt + reference line", "screen cursor == prompt + reference cursor",
                              "executed line == reference line", "empty line executed", "second half of CRLF/LFCR swallowed",
                              "newline directly after a swallowed half is fresh", "line, length, cursor == reference", "history recall == reference ring",
                              "history recall of a non-empty entry", "history recall of an unused slot gives the empty line",
                              "printable typed into a full line ignored", "sline: 0 <= cursor <= len < cap after every operation",
                              "sline: line and cursor == reference", "sline: bulk insert longer than the room stays inside the line",
                              "sline: bulk insert that fits is taken completely", "sline: putchar into a full line rejected",
                              "sline: getline NUL-terminates at buf[len] inside the buffer", "sline: equal() accepts exactly the line",
                              "linecpy: min(len, size-1) characters + NUL inside the destination, return value",
                              "linecpy: destination size == line length",
                              "history accessor: k-th most recent entry == reference ring, terminated inside its slot",
                              "re-init: empty line, empty history, prompt shown again", "re-init with a smaller capacity", "re-init with a larger capacity",
                              "re-init with the same capacity and depth", "sline: re-init with another exact buffer",
                              "edit with >= 256 characters right of the cursor", "history recall with the cursor at column >= 256", "history recall with head + depth beyond 255",
                              "exhaustive batch (one configuration and prefix, all continuations of 3 keys)"})
            vf::require(c);
        // every reference action must have been driven
        for (int a = A_INSERT; a < A_NACTS; a++)
            vf::require(ACT_NAME[a]);
    }
} // namespace c15
