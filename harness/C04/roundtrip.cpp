// C04 — gstuff framing round trip.  Every encoder form of every shipped codec is run on exact heap inputs /
// exact 2n+4 output blocks under ASan+UBSan; each produced frame is checked structurally against the statement,
// decoded by an independent reference, and fed byte by byte to the real receiver (exact buffer of n+2 bytes).
#define VF_MAIN
#include "vf.h"
#include "guard.h"
#include "gs_ref.h"
#include "gs_rx.h"
#include <algorithm>
#include <climits>
#include <new>
#include <string>

using namespace gs;
// GS_REDUCED: a second build of the same harness (units.json: -funsigned-char -DGS_REDUCED) with a reduced workload,
// so that code whose meaning depends on the signedness of plain char (ARM / AArch64 / PowerPC ABIs) is exercised too.
#ifdef GS_REDUCED
#define GS_N(quick, thorough_, reduced) (reduced)
#else
#define GS_N(quick, thorough_, reduced) (vf::thorough() ? (thorough_) : (quick))
#endif
typedef std::vector<uint8_t> Bytes;
static inline bool same(const uint8_t *a, const uint8_t *b, size_t n) { return n == 0 || memcmp(a, b, n) == 0; }

// ---------------------------------------------------------------- per-case local counters (flushed once per case)
static uint64_t g_status[NCODEC_ALL][9];
static void flush_status()
{
    for (int k = 0; k < NCODEC_ALL; k++)
        for (int s = 0; s < 9; s++)
            if (g_status[k][s])
            {
                char nm[80];
                snprintf(nm, sizeof nm, "status:%s:%s", CODEC_NAME[k], st_name(slot_st(s)));
                vf::count(nm, g_status[k][s]);
                g_status[k][s] = 0;
            }
}

static const char *input_class(const Alpha &a, const Bytes &p)
{
    if (a.is_marker(crc8(p.data(), p.size())))
        return "crc-is-marker";
    if (p.empty())
        return "empty";
    for (uint8_t b : p)
        if (a.is_marker(b))
            return "marker-payload";
    return "plain";
}

struct Job
{
    Codec k;
    const char *form;
    const Bytes *p;
    const char *icls;
    std::string key(const char *clause) const
    {
        return std::string(key_prefix(k)) + "C04:" + clause + ":" + CODEC_NAME[k] + ":" + form + ":" + icls;
    }
    std::string witness(const Bytes &frame) const
    {
        std::string alpha;
        if (k == CUSTOM)
        {
            const Alpha &a = ALPHA[CUSTOM];
            const uint8_t v[6] = {a.START, a.STOP, a.STUB, a.C_START, a.C_STOP, a.C_STUB};
            alpha = " alphabet(START,STOP,STUB,codes)=" + vf::hex(v, 6);
        }
        return "codec=" + std::string(CODEC_NAME[k]) + alpha + " form=" + form + " n=" + std::to_string(p->size()) + " payload=" +
               vf::hex(p->data(), p->size(), 48) + " frame=" + vf::hex(frame.data(), frame.size(), 100);
    }
};

// ---------------------------------------------------------------- where the context / receiver objects live
// The statement quantifies over payloads and codecs, not over where the caller keeps its gstuff_context or whether
// a receiver object is fresh; state carried between calls (caches keyed on an address, leftovers of the previous
// packet) must not change any frame.  The `interleave` suite varies these within one history.
enum CtxMode
{
    CM_LONGLIVED = 0,    // one const object per alphabet for the whole process
    CM_INPLACE = 1,      // one object, re-assigned in place before each encode
    CM_SAME_STORAGE = 2, // a new object constructed in the same storage each time
    CM_TEMPORARY = 3     // a by-value temporary in the frame of one helper function
};
static int g_ctxmode = CM_LONGLIVED;
static gstuff_context LONGLIVED[4] = {gstuff_context(), gstuff_context_v0(), gstuff_context(), gstuff_context()}; // [CUSTOM] set per case
static gstuff_context g_inplace;
alignas(gstuff_context) static unsigned char g_slot[sizeof(gstuff_context)];
template <class F> __attribute__((noinline)) static long call_with_temporary(Codec k, F &f) { return f(ctx_of(k)); }
template <class F> static long with_ctx(Codec k, F f)
{
    switch (g_ctxmode)
    {
    case CM_INPLACE:
        g_inplace = ctx_of(k);
        return f(g_inplace);
    case CM_SAME_STORAGE:
    {
        gstuff_context *c = new (g_slot) gstuff_context(ctx_of(k));
        return f(*c);
    }
    case CM_TEMPORARY:
        return call_with_temporary(k, f);
    }
    return f(LONGLIVED[k]);
}
enum RxMode
{
    RM_FRESH = 0,   // a new receiver object per frame
    RM_REUSED = 1,  // one object per codec, re-initialised with the next buffer after each packet
    RM_REBOUND = 2  // one configurable receiver object, re-assigned to the other alphabet between packets
};
struct RxPool
{
    Rx fixed[NCODEC] = {Rx(V1), Rx(V0), Rx(LEGACY)};
    Rx morph{V1};
};
static RxPool *g_pool = nullptr;
static int g_rxmode = RM_FRESH;

// ---------------------------------------------------------------- the oracle for one produced frame
static void check_frame(const Job &j, const Bytes &f, unsigned var)
{
    const Alpha &a = ALPHA[j.k];
    const Bytes &p = *j.p;
    size_t n = p.size();
    // frame structure (statement: starts with START, ends with STOP, no unescaped marker in between, <= 2n+4)
    if (f.size() < 2 || f.size() > 2 * n + 4)
        vf::fail(j.key("length").c_str(), "frame length %zu not in [2, 2n+4=%zu]; %s", f.size(), 2 * n + 4, j.witness(f).c_str());
    VF_OK("frame length <= 2n+4");
    if (f.front() != a.START)
        vf::fail(j.key("first-byte").c_str(), "frame[0] != START; %s", j.witness(f).c_str());
    if (f.back() != a.STOP)
        vf::fail(j.key("last-byte").c_str(), "frame[last] != STOP; %s", j.witness(f).c_str());
    VF_OK("frame[0]==START and frame[last]==STOP");
    Bytes u;
    int why = 0;
    if (!unescape(a, f.data() + 1, f.size() - 2, u, &why))
        vf::fail(j.key(why == 1 ? "raw-marker-inside" : why == 2 ? "stub-without-code" : "dangling-stub").c_str(),
                 "interior of the frame is not a valid escape sequence (%s); %s",
                 why == 1 ? "raw START/STOP between the delimiters" : why == 2 ? "STUB followed by a non-code" : "STUB at the end", j.witness(f).c_str());
    VF_OK("no raw marker inside, every STUB followed by a code");
    // independent decode
    if (u.size() != n + 1 || !same(u.data(), p.data(), n))
        vf::fail(j.key("ref-decode").c_str(), "reference decoder: unescaped interior (%zu bytes: %s) != payload ++ 1 trailer; %s", u.size(),
                 vf::hex(u.data(), u.size(), 48).c_str(), j.witness(f).c_str());
    VF_OK("reference decode: interior == payload ++ trailer");
    if (u[n] != crc8(p.data(), n))
        vf::fail(j.key("trailer").c_str(), "trailer %02x != CRC-8(0x31, init FF) %02x; %s", u[n], crc8(p.data(), n), j.witness(f).c_str());
    VF_OK("trailer == CRC-8 of the payload");

    // the real receiver, fed byte by byte; buffer exactly n+2 bytes (n payload + crc + the cap-1 rule) or a bit larger
    int cap = (int)n + 2 + ((var & 1) ? (int)(var >> 4) % 7 : 0);
    vf::Exact buf(nullptr, (size_t)cap, (var >> 1) % 3, (var & 8) != 0);
    Rx fresh(j.k, (int)((var >> 9) % NSRC)); // where the context given to the constructor lives: see gs_rx.h
    Rx *rxp = &fresh;
    if (g_pool && g_rxmode == RM_REUSED && j.k < NCODEC)
        rxp = &g_pool->fixed[j.k];
    else if (g_pool && g_rxmode == RM_REBOUND && j.k != LEGACY && j.k < NCODEC)
    {
        g_pool->morph.src = (int)((var >> 9) % NSRC);
        g_pool->morph.rebind(j.k);
        rxp = &g_pool->morph;
    }
    Rx &rx = *rxp;
    if (rxp == &fresh)
        rx.init(buf.p, cap);
    else
    {
        rx.reinit(buf.p, cap);
        if (g_rxmode == RM_REUSED)
            VF_OK("receiver object reused for the next packet with another buffer");
        else
            VF_OK("receiver object re-assigned to another alphabet between packets");
    }
    if (j.k != LEGACY)
        switch (rx.src)
        {
        case SRC_OWN: VF_OK("receiver constructed from a context that outlives it"); break;
        case SRC_TEMPORARY: VF_OK("receiver constructed from a temporary context"); break;
        case SRC_FACTORY_LOCAL: VF_OK("receiver constructed from a local of a factory that has returned"); break;
        case SRC_HEAP_FREED: VF_OK("receiver constructed from a heap context freed before use"); break;
        default: VF_OK("receiver constructed from a variable re-assigned to another alphabet afterwards"); break;
        }
    for (size_t i = 0; i < f.size(); i++)
    {
        int st = rx.put(f[i]);
        g_status[j.k][st_slot(st)]++;
        bool last = i + 1 == f.size();
        if (!last && st < 0)
            vf::fail(j.key("receiver-error-before-end").c_str(), "receiver status %s at byte %zu of %zu (cap=%d); %s", st_name(st), i, f.size(), cap,
                     j.witness(f).c_str());
        if (!last && st == ST_NEW)
            vf::fail(j.key("receiver-early-packet").c_str(), "NEWPACKAGE at byte %zu of %zu (cap=%d); %s", i, f.size(), cap, j.witness(f).c_str());
        if (last && st != ST_NEW)
            vf::fail(j.key("receiver-no-packet").c_str(), "status on the last byte is %s, not NEWPACKAGE (cap=%d); %s", st_name(st), cap,
                     j.witness(f).c_str());
    }
    VF_OK("receiver: exactly one NEWPACKAGE, on the last byte, no error before");
    size_t cs = rx.content_size();
    const uint8_t *ln = rx.line();
    if (cs != n || !same(ln, p.data(), n))
        vf::fail(j.key("receiver-content").c_str(), "delivered %zu bytes %s != payload (cap=%d); %s", cs, vf::hex(ln, cs, 48).c_str(), cap,
                 j.witness(f).c_str());
    VF_OK("receiver: content == payload");
    if (j.k == LEGACY)
    {
        // the legacy receiver keeps the CRC byte in its line: line == payload ++ crc8(payload)
        if (rx.size() != n + 1 || ln[n] != crc8(p.data(), n))
            vf::fail(j.key("receiver-legacy-line").c_str(), "legacy line has %zu bytes, last %02x; expected payload ++ crc %02x; %s", rx.size(),
                     rx.size() ? ln[rx.size() - 1] : 0, crc8(p.data(), n), j.witness(f).c_str());
        VF_OK("legacy receiver: line == payload ++ CRC-8");
    }
}

// ---------------------------------------------------------------- encoder forms
struct Piece
{
    size_t off, len;
    bool null_base;
};

static Bytes take(const Job &j, const vf::Exact &out, long r, size_t cap)
{
    if (r < 0 || (size_t)r > cap)
        vf::fail(j.key("length").c_str(), "encoder returned %ld for n=%zu (2n+4=%zu) payload=%s", r, j.p->size(), cap,
                 vf::hex(j.p->data(), j.p->size(), 48).c_str());
    return Bytes(out.p, out.p + r);
}
static void tag(const Job &j)
{
    char c[100];
    snprintf(c, sizeof c, "%s/%s", CODEC_NAME[j.k], j.form);
    vf::cls(c);
}

// caller-provided output: an exact 2n+4 block (statement: "at most 2n+4 bytes long")
static Bytes enc_ptr(Codec k, const Bytes &p, unsigned var)
{
    Job j{k, k == LEGACY ? "gstuffing_v1" : "gstuffing(ptr)", &p, input_class(ALPHA[k], p)};
    tag(j);
    size_t n = p.size(), cap = 2 * n + 4;
    vf::Exact in(p.data(), n, var % 4, (var & 4) != 0);
    vf::Exact out(nullptr, cap, (var >> 3) % 4, (var & 32) != 0);
    long r;
    if (k == LEGACY)
        r = lg_encode(in.c(), (int)n, out.c());
    else
        r = with_ctx(k, [&](const gstuff_context &cx) { return (long)gstuffing(in.cc(), n, out.c(), cx); });
    Bytes f = take(j, out, r, cap);
    check_frame(j, f, var);
    return f;
}
// encoder sizes its own buffer (std::vector): ASan watches the vector's allocation
static Bytes enc_vec(Codec k, const Bytes &p, unsigned var)
{
    Job j{k, "gstuffing(vector)", &p, input_class(ALPHA[k], p)};
    tag(j);
    vf::Exact in(p.data(), p.size(), var % 4, (var & 4) != 0);
    std::vector<uint8_t> f;
    with_ctx(k, [&](const gstuff_context &cx) {
        f = gstuffing(igris::buffer((const void *)in.p, p.size()), cx);
        return 0L;
    });
    VF_OK("self-sizing encoder ran under ASan");
    check_frame(j, f, var);
    return f;
}
static Bytes enc_iov(Codec k, const Bytes &p, const std::vector<Piece> &pieces, bool vec_form, unsigned var, const Bytes *same_as)
{
    Job j{k, vec_form ? "gstuffing_v(vector)" : "gstuffing_v(ptr)", &p, input_class(ALPHA[k], p)};
    tag(j);
    size_t n = p.size(), cap = 2 * n + 4, np = pieces.size();
    std::vector<vf::Exact> blocks(np);
    vf::Exact arr(nullptr, np * sizeof(struct iovec), 0, false); // exact array: reading vec[np] hits the red zone
    struct iovec *iv = (struct iovec *)arr.p;
    for (size_t i = 0; i < np; i++)
    {
        blocks[i].init(p.data() + pieces[i].off, pieces[i].len, (unsigned)((var + i) % 3), ((var >> i) & 1) != 0);
        iv[i].iov_base = pieces[i].null_base ? nullptr : (void *)blocks[i].p;
        iv[i].iov_len = pieces[i].len;
    }
    Bytes f;
    if (vec_form)
    {
        with_ctx(k, [&](const gstuff_context &cx) {
            f = gstuffing_v(iv, np, cx);
            return 0L;
        });
        VF_OK("self-sizing encoder ran under ASan");
    }
    else
    {
        vf::Exact out(nullptr, cap, (var >> 3) % 4, (var & 32) != 0);
        long r = with_ctx(k, [&](const gstuff_context &cx) { return (long)gstuffing_v(iv, np, out.c(), cx); });
        f = take(j, out, r, cap);
    }
    if (same_as && f == *same_as)
        VF_OK("partition yields the frame already fully checked"); // identical bytes -> identical verdict
    else
        check_frame(j, f, var);
    return f;
}

static std::vector<Piece> partition_from_mask(size_t n, uint32_t mask)
{
    std::vector<Piece> v;
    size_t start = 0;
    for (size_t i = 1; i < n; i++)
        if (mask & (1u << (i - 1)))
        {
            v.push_back(Piece{start, i - start, false});
            start = i;
        }
    if (n)
        v.push_back(Piece{start, n - start, false});
    return v;
}
static std::vector<Piece> random_partition(vf::Rng &r, size_t n)
{
    std::vector<Piece> v;
    size_t pos = 0;
    while (pos < n || r.chance(1, 4))
    {
        if (r.chance(1, 4) || pos == n)
        {
            v.push_back(Piece{pos, 0, r.chance(1, 2)}); // empty piece, sometimes with a null base
            if (v.size() > 40)
                break;
            continue;
        }
        size_t len = 1 + r.below(std::min<size_t>(n - pos, r.chance(1, 2) ? 4 : 64));
        v.push_back(Piece{pos, len, false});
        pos += len;
    }
    while (pos < n)
    {
        v.push_back(Piece{pos, n - pos, false});
        pos = n;
    }
    return v;
}

// every form on one payload; partitions: all (n <= 8 and all_parts) or `nrand` random ones
static void all_forms(Codec k, const Bytes &p, unsigned var, bool all_parts, int nrand, vf::Rng *rng)
{
    size_t n = p.size();
    if (vf::verbose())
        printf("  codec=%s n=%zu payload=%s\n", CODEC_NAME[k], n, vf::hex(p.data(), n, 200).c_str());
    Bytes f0 = enc_ptr(k, p, var);
    if (k != LEGACY)
    {
        enc_vec(k, p, var * 7 + 1);
        if (all_parts && n <= 8)
        {
            uint32_t nm = n ? 1u << (n - 1) : 1;
            for (uint32_t m = 0; m < nm; m++)
            {
                std::vector<Piece> pc = partition_from_mask(n, m);
                enc_iov(k, p, pc, false, var + m, &f0);
                enc_iov(k, p, pc, true, var + m * 3, &f0);
                VF_OK("iovec partition (enumerated)");
            }
            if (n == 0)
            {
                std::vector<Piece> none, one_empty{Piece{0, 0, false}}, one_null{Piece{0, 0, true}};
                for (auto *pc : {&none, &one_empty, &one_null})
                {
                    enc_iov(k, p, *pc, false, var, &f0);
                    enc_iov(k, p, *pc, true, var, &f0);
                }
            }
        }
        for (int i = 0; i < nrand && rng; i++)
        {
            std::vector<Piece> pc = random_partition(*rng, n);
            enc_iov(k, p, pc, false, (unsigned)rng->next(), &f0);
            enc_iov(k, p, pc, true, (unsigned)rng->next(), &f0);
            VF_OK("iovec partition (random, with empty pieces)");
        }
    }
    vf::count_case(vf::hash_bytes(p.data(), n, vf::mix(k, 0xC04)), n >= 1);
}

// ---------------------------------------------------------------- alphabets for the enumerations
static Bytes payload_alphabet(Codec k)
{
    const Alpha &a = ALPHA[k];
    Bytes s;
    for (uint8_t c : {a.START, a.STOP, a.STUB, a.C_START, a.C_STOP, a.C_STUB, (uint8_t)0x00, (uint8_t)0xFF, (uint8_t)'a', (uint8_t)0x80,
                      (uint8_t)'b', (uint8_t)0x7f})
        if (std::find(s.begin(), s.end(), c) == s.end() && s.size() < 9)
            s.push_back(c);
    return s;
}

// (1) all payloads of length <= L over the 9-symbol alphabet; case = (codec, first two symbols)
static int small_maxlen() { return GS_N(5, 6, 3); }
static uint64_t small_count() { return NCODEC * 82; }
static void small_run(uint64_t idx)
{
    Codec k = (Codec)(idx / 82);
    unsigned pfx = idx % 82;
    Bytes al = payload_alphabet(k);
    int L = small_maxlen();
    uint64_t done = 0;
    if (pfx == 81)
    {
        all_forms(k, Bytes(), 0, true, 0, nullptr);
        for (uint8_t c : al)
            all_forms(k, Bytes{c}, c, true, 0, nullptr);
        if (k == V1)
            vf::sample("small: codec=v1 payloads of length 0 and 1 over %s, forms ptr/vector/iovec(all partitions)", vf::hex(al.data(), al.size()).c_str());
    }
    else
    {
        for (int len = 2; len <= L; len++)
        {
            uint64_t cnt = 1;
            for (int i = 2; i < len; i++)
                cnt *= 9;
            for (uint64_t t = 0; t < cnt; t++)
            {
                Bytes p{al[pfx / 9], al[pfx % 9]};
                uint64_t x = t;
                for (int i = 2; i < len; i++, x /= 9)
                    p.push_back(al[x % 9]);
                all_forms(k, p, (unsigned)(t * 5 + pfx), true, 0, nullptr);
                done++;
            }
        }
    }
    VF_OK("enumerated payload batch");
    flush_status();
}
VF_SUITE(small, small_count, small_run)

// (2) payloads whose CRC-8 is itself a marker or an escape code: random prefix + solved suffix
static uint64_t crcmark_count() { return NCODEC * GS_N(60, 400, 6); }
static void crcmark_run(uint64_t idx)
{
    Codec k = (Codec)(idx % NCODEC);
    const Alpha &a = ALPHA[k];
    vf::Rng r(vf::seed(), 0xC04C, idx);
    Bytes al = payload_alphabet(k);
    for (uint8_t m : {a.START, a.STOP, a.STUB, a.C_START, a.C_STOP, a.C_STUB})
        for (int plen = 0; plen <= 20; plen += (plen < 6 ? 1 : 1 + (int)r.below(4)))
        {
            Bytes p;
            for (int i = 0; i < plen; i++)
                p.push_back(r.chance(1, 2) ? al[r.below(al.size())] : (uint8_t)r.next());
            // one-byte suffix: crc8 is a bijection of the last byte, so exactly one value works
            int found = -1;
            p.push_back(0);
            for (int b = 0; b < 256; b++)
            {
                p.back() = (uint8_t)b;
                if (crc8(p.data(), p.size()) == m)
                    found = b;
            }
            if (found < 0)
                vf::fail("C04:harness:crc-suffix-search", "no suffix byte gives crc %02x", m);
            p.back() = (uint8_t)found;
            all_forms(k, p, (unsigned)r.next(), true, 1, &r);
            // two-byte suffix whose first byte is a marker (escape directly in front of an escaped CRC)
            p.back() = al[r.below(3)];
            p.push_back(0);
            for (int b = 0; b < 256; b++)
            {
                p.back() = (uint8_t)b;
                if (crc8(p.data(), p.size()) == m)
                    break;
            }
            all_forms(k, p, (unsigned)r.next(), true, 1, &r);
            if (a.is_marker(m))
                VF_OK("payload whose CRC-8 equals START/STOP/STUB");
            else
                VF_OK("payload whose CRC-8 equals an escape code");
            if (vf::want_sample() && plen == 3 && m == a.STUB)
                vf::sample("crcmark: codec=%s payload=%s crc=%02x (== STUB)", CODEC_NAME[k], vf::hex(p.data(), p.size()).c_str(), m);
        }
    flush_status();
}
VF_SUITE(crcmark, crcmark_count, crcmark_run)

// (3) random payloads up to 300 bytes, marker-biased, random partitions with empty pieces
static uint64_t rand_count() { return GS_N(4500, 60000, 450); }
static void rand_run(uint64_t idx)
{
    vf::Rng r(vf::seed(), 0xC04A, idx);
    Codec k = (Codec)(idx % NCODEC);
    Bytes al = payload_alphabet(k);
    static const int LENS[] = {0, 1, 2, 3, 5, 8, 13, 31, 32, 33, 63, 64, 65, 127, 128, 129, 255, 256, 257, 300};
    for (int rep = 0; rep < 4; rep++)
    {
        size_t n = r.chance(1, 2) ? (size_t)r.pick(LENS) : (size_t)r.below(301);
        int mode = (int)r.below(4);
        Bytes p(n);
        for (auto &b : p)
            b = mode == 0   ? (uint8_t)r.next()
                : mode == 1 ? al[r.below(al.size())]
                : mode == 2 ? al[r.below(3)] // markers only: worst-case expansion 2n+4
                            : (r.chance(1, 4) ? al[r.below(6 < al.size() ? 6 : al.size())] : (uint8_t)r.next());
        all_forms(k, p, (unsigned)r.next(), false, 2, &r);
        if (mode == 2 && n >= 1)
            VF_OK("all-marker payload (worst-case expansion)");
        if (vf::want_sample() && n > 8 && n < 40)
            vf::sample("random: codec=%s n=%zu payload=%s", CODEC_NAME[k], n, vf::hex(p.data(), n, 40).c_str());
    }
    flush_status();
}
VF_SUITE(randpay, rand_count, rand_run)

// (4) every iovec partition of payloads of length 5..8 (lengths <= 4/6 are covered by `small`)
static uint64_t part_count() { return GS_N(400, 3000, 24); }
static void part_run(uint64_t idx)
{
    vf::Rng r(vf::seed(), 0xC04B, idx);
    Codec k = (Codec)(idx % 2); // the legacy codec has no iovec form
    Bytes al = payload_alphabet(k);
    size_t n = 5 + (idx / 2) % 4;
    Bytes p(n);
    for (auto &b : p)
        b = r.chance(2, 3) ? al[r.below(al.size())] : (uint8_t)r.next();
    all_forms(k, p, (unsigned)r.next(), true, 0, nullptr);
    VF_OK("all 2^(n-1) partitions of a 5..8 byte payload");
    flush_status();
}
VF_SUITE(partitions, part_count, part_run)

// (5) long payloads around and beyond 2^16 ("any length ... a receiver with a large enough buffer")
static std::vector<size_t> long_lengths()
{
#ifdef GS_REDUCED
    return std::vector<size_t>{65536};
#endif
    std::vector<size_t> v{65000, 65534, 65535, 65536, 65600, 70000, 200000, 400000};
    if (vf::thorough())
    {
        for (size_t x : {65533, 65537, 65538, 131070, 131071, 131072, 131073, 140000, 262144, 1 << 20})
            v.push_back(x);
        vf::Rng r(vf::seed(), 0xC04E, 0);
        for (int i = 0; i < 22; i++)
            v.push_back(60000 + r.below(90000));
    }
    return v;
}
static uint64_t long_count() { return NCODEC * 2 * long_lengths().size(); }
static void long_run(uint64_t idx)
{
    Codec k = (Codec)(idx % NCODEC);
    bool biased = (idx / NCODEC) % 2;
    size_t n = long_lengths()[idx / (NCODEC * 2)];
    vf::Rng r(vf::seed(), 0xC04F, idx);
    Bytes al = payload_alphabet(k);
    Bytes p(n);
    for (auto &b : p)
        b = biased ? (r.chance(1, 3) ? al[r.below(6 < al.size() ? 6 : al.size())] : (uint8_t)r.next()) : (uint8_t)('a' + r.below(26));
    if (vf::verbose())
        printf("  codec=%s n=%zu %s payload=%s...\n", CODEC_NAME[k], n, biased ? "marker-biased" : "plain", vf::hex(p.data(), n, 32).c_str());
    // var even: receive buffer exactly n+2; var odd: a few bytes more
    Bytes f0 = enc_ptr(k, p, 0);
    enc_ptr(k, p, 0x31);
    if (k != LEGACY)
    {
        enc_vec(k, p, 2);
        std::vector<Piece> pc;
        size_t pos = 0;
        for (int i = 0; i < 3 && pos < n; i++)
        {
            size_t len = r.below(n - pos + 1);
            pc.push_back(Piece{pos, len, false});
            pos += len;
        }
        pc.push_back(Piece{pos, n - pos, false});
        enc_iov(k, p, pc, false, (unsigned)r.next(), &f0);
        enc_iov(k, p, pc, true, (unsigned)r.next(), &f0);
    }
    VF_OK("payload of 65000 bytes or more through every encoder form and the receiver");
    if (n >= 65535)
        VF_OK("receive buffer of 64 KiB or more");
    vf::count_case(vf::hash_bytes(p.data(), n, vf::mix(k, 0xC04)), true);
    if (vf::want_sample() && n == 65536)
        vf::sample("long: codec=%s n=%zu %s, forms ptr/vector/iovec, receiver cap n+2 and n+5", CODEC_NAME[k], n, biased ? "marker-biased" : "plain");
    flush_status();
}
VF_SUITE(longpay, long_count, long_run)

// (6) one history that interleaves alphabets, codecs, encoder forms, context placements and receiver objects
static uint64_t inter_count() { return GS_N(300, 6000, 40); }
static void inter_run(uint64_t idx)
{
    vf::Rng r(vf::seed(), 0xC04D, idx);
    RxPool pool;
    struct Guard
    {
        ~Guard()
        {
            g_pool = nullptr;
            g_ctxmode = CM_LONGLIVED;
            g_rxmode = RM_FRESH;
        }
    } guard;
    g_pool = &pool;
    // union of both alphabets: under a stale alphabet the other one's markers go out unescaped
    static const uint8_t HOT[] = {0xA8, 0xB2, 0xC5, 0x8A, 0x2B, 0x5C, 0xAC, 0xAD, 0xAE, 0xAF, 0x00, 0xFF, 'a'};
    static const char *const CMN[] = {"long-lived", "in-place", "same-storage", "temporary"};
    Codec prev = r.chance(1, 2) ? V0 : V1;
    int steps = 40 + (int)r.below(40);
    for (int s = 0; s < steps; s++)
    {
        Codec k = r.chance(1, 6) ? LEGACY : r.chance(4, 5) ? (prev == V1 ? V0 : V1) : prev;
        if (k != LEGACY)
            prev = k;
        size_t n = r.below(14);
        Bytes p(n);
        for (auto &b : p)
            b = r.chance(3, 4) ? HOT[r.below(sizeof HOT)] : (uint8_t)r.next();
        if (r.chance(1, 3))
            g_ctxmode = (int)r.below(4);
        if (r.chance(1, 2))
            g_rxmode = (int)r.below(3);
        int form = k == LEGACY ? 0 : (int)r.below(4);
        unsigned var = (unsigned)r.next();
        if (vf::verbose())
            printf("  step %d codec=%s ctx=%s rx=%d form=%d payload=%s\n", s, CODEC_NAME[k], CMN[g_ctxmode], g_rxmode, form, vf::hex(p.data(), n).c_str());
        if (form == 0)
            enc_ptr(k, p, var);
        else if (form == 1)
            enc_vec(k, p, var);
        else
            enc_iov(k, p, random_partition(r, n), form == 3, var, nullptr);
        if (k != LEGACY)
        {
            switch (g_ctxmode)
            {
            case CM_LONGLIVED: VF_OK("encode with a long-lived context object"); break;
            case CM_INPLACE: VF_OK("encode with a context object re-assigned in place"); break;
            case CM_SAME_STORAGE: VF_OK("encode with a new context object in the same storage"); break;
            default: VF_OK("encode with a by-value temporary context"); break;
            }
        }
        vf::count_case(vf::hash_bytes(p.data(), n, vf::mix(vf::mix(k, g_ctxmode), vf::mix(g_rxmode, form))), n >= 1);
    }
    VF_OK("interleaved history of alphabets / codecs / context placements / receivers");
    if (vf::want_sample())
        vf::sample("interleave: %d steps alternating v1/v0/legacy, context in {long-lived,in-place,same-storage,temporary}, receiver in {fresh,reused,re-assigned}", steps);
    flush_status();
}
VF_SUITE(interleave, inter_count, inter_run)

// (7) EXTRA configuration dimension, beyond the letter of the statement ("both marker alphabets"): caller-defined
// gstuff_context values.  Reduced workload; keys are prefixed "custom-alphabet:".
static uint64_t custom_count() { return 2 * (uint64_t)GS_N(3 * 17 + 20, 3 * 17 + 400, 3 * 17); }
static void custom_run(uint64_t idx)
{
    bool shared = idx % 2;
    Alpha a = custom_alpha(vf::seed(), idx / 2, shared);
    set_custom(a);
    LONGLIVED[CUSTOM] = ctx_of(CUSTOM);
    const Codec k = CUSTOM;
    vf::Rng r(vf::seed(), 0xC04C05, idx);
    Bytes al = payload_alphabet(k);
    if (vf::verbose())
        printf("  custom alphabet START=%02x STOP=%02x STUB=%02x codes=%02x %02x %02x\n", a.START, a.STOP, a.STUB, a.C_START, a.C_STOP, a.C_STUB);
    // all payloads of length <= 3 over the marker/code alphabet, every form, every partition
    all_forms(k, Bytes(), 0, true, 0, nullptr);
    uint64_t A = al.size(), cnt = A;
    for (int len = 1; len <= GS_N(3, 3, 2); len++, cnt *= A)
        for (uint64_t t = 0; t < cnt; t++)
        {
            Bytes p;
            uint64_t x = t;
            for (int i = 0; i < len; i++, x /= A)
                p.push_back(al[x % A]);
            all_forms(k, p, (unsigned)(t * 3 + len), true, 0, nullptr);
        }
    // CRC equal to each marker / code
    for (uint8_t m : {a.START, a.STOP, a.STUB, a.C_START, a.C_STOP, a.C_STUB})
    {
        Bytes p;
        for (int i = (int)r.below(4); i--;)
            p.push_back(r.chance(1, 2) ? al[r.below(al.size())] : (uint8_t)r.next());
        p.push_back(0);
        for (int b = 0; b < 256; b++)
        {
            p.back() = (uint8_t)b;
            if (crc8(p.data(), p.size()) == m)
                break;
        }
        all_forms(k, p, (unsigned)r.next(), true, 1, &r);
    }
    // a few random payloads, with the context object in every placement
    for (int i = 0; i < 8; i++)
    {
        size_t n = r.below(65);
        Bytes p(n);
        for (auto &b : p)
            b = r.chance(1, 2) ? al[r.below(al.size())] : (uint8_t)r.next();
        g_ctxmode = i % 4;
        all_forms(k, p, (unsigned)r.next(), false, 1, &r);
    }
    g_ctxmode = CM_LONGLIVED;
    VF_OK("custom-alphabet: round trip over a caller-defined gstuff_context (extra dimension)");
    if (shared)
        VF_OK("custom-alphabet: START == STOP variant");
    else
        VF_OK("custom-alphabet: START != STOP variant");
    if (a.START == 0xFF || a.STOP == 0xFF || a.STUB == 0xFF)
        VF_OK("custom-alphabet: 0xFF as a marker");
    if (vf::want_sample() && idx == 17)
        vf::sample("custom: alphabet START=%02x STOP=%02x STUB=%02x codes=%02x,%02x,%02x; all payloads <= 3 over it, CRC==marker payloads, random payloads", a.START,
                   a.STOP, a.STUB, a.C_START, a.C_STOP, a.C_STUB);
    flush_status();
}
VF_SUITE(custom, custom_count, custom_run)

// calibration of the reference alphabets against what the library ships
static uint64_t calib_count() { return 1; }
static void calib_run(uint64_t)
{
    for (Codec k : {V1, V0})
    {
        gstuff_context c = ctx_of(k);
        const Alpha &a = ALPHA[k];
        if ((uint8_t)c.GSTUFF_START != a.START || (uint8_t)c.GSTUFF_STOP != a.STOP || (uint8_t)c.GSTUFF_STUB != a.STUB ||
            (uint8_t)c.GSTUFF_STUB_START != a.C_START || (uint8_t)c.GSTUFF_STUB_STOP != a.C_STOP || (uint8_t)c.GSTUFF_STUB_STUB != a.C_STUB)
            vf::fail("C04:harness:alphabet-calibration", "reference alphabet of %s differs from gstuff_context", CODEC_NAME[k]);
    }
    const Alpha &l = ALPHA[LEGACY];
    if (lg_const(0) != l.START || lg_const(1) != l.STUB || lg_const(2) != l.C_START || lg_const(3) != l.C_STUB)
        vf::fail("C04:harness:alphabet-calibration", "reference alphabet of the legacy codec differs from gstuff_v1/gstuff.h");
    if ((size_t)lg_sizeof() > sizeof(Rx::lg))
        vf::fail("C04:harness:legacy-storage", "gstuff_autorecv_v1 is %d bytes", lg_sizeof());
    // CRC-8 calibration: the suite's own vector hello/world/! has length 14 and nothing escaped
    VF_OK("reference alphabets == shipped gstuff_context values");
    if (CHAR_MIN == 0)
        VF_OK("plain char is unsigned in this build");
}
VF_SUITE(calib, calib_count, calib_run)

extern "C" void vf_setup()
{
#ifdef GS_REDUCED
    for (const char *c : {"plain char is unsigned in this build", "frame length <= 2n+4", "no raw marker inside, every STUB followed by a code",
                          "reference decode: interior == payload ++ trailer", "trailer == CRC-8 of the payload",
                          "receiver: exactly one NEWPACKAGE, on the last byte, no error before", "receiver: content == payload",
                          "legacy receiver: line == payload ++ CRC-8", "self-sizing encoder ran under ASan", "iovec partition (enumerated)",
                          "payload whose CRC-8 equals START/STOP/STUB", "all-marker payload (worst-case expansion)",
                          "custom-alphabet: round trip over a caller-defined gstuff_context (extra dimension)", "status:v1:NEWPACKAGE",
                          "status:v0:NEWPACKAGE", "status:legacy:NEWPACKAGE", "status:custom:NEWPACKAGE"})
        vf::require(c);
    return;
#endif
    for (const char *c :
         {"frame length <= 2n+4", "frame[0]==START and frame[last]==STOP", "no raw marker inside, every STUB followed by a code",
          "reference decode: interior == payload ++ trailer", "trailer == CRC-8 of the payload",
          "receiver: exactly one NEWPACKAGE, on the last byte, no error before", "receiver: content == payload",
          "legacy receiver: line == payload ++ CRC-8", "self-sizing encoder ran under ASan", "iovec partition (enumerated)",
          "iovec partition (random, with empty pieces)", "payload whose CRC-8 equals START/STOP/STUB", "payload whose CRC-8 equals an escape code",
          "all-marker payload (worst-case expansion)", "all 2^(n-1) partitions of a 5..8 byte payload",
          "reference alphabets == shipped gstuff_context values", "payload of 65000 bytes or more through every encoder form and the receiver",
          "receive buffer of 64 KiB or more", "interleaved history of alphabets / codecs / context placements / receivers",
          "encode with a long-lived context object", "encode with a context object re-assigned in place",
          "encode with a new context object in the same storage", "encode with a by-value temporary context",
          "receiver object reused for the next packet with another buffer", "receiver object re-assigned to another alphabet between packets",
          "custom-alphabet: round trip over a caller-defined gstuff_context (extra dimension)", "custom-alphabet: START == STOP variant",
          "custom-alphabet: START != STOP variant", "custom-alphabet: 0xFF as a marker", "status:custom:NEWPACKAGE",
          "receiver constructed from a context that outlives it", "receiver constructed from a temporary context",
          "receiver constructed from a local of a factory that has returned", "receiver constructed from a heap context freed before use",
          "receiver constructed from a variable re-assigned to another alphabet afterwards", "status:v1:NEWPACKAGE", "status:v0:NEWPACKAGE", "status:legacy:NEWPACKAGE"})
        vf::require(c);
}
