// C04 (second unit, TSan) — the gstuff encoders and receivers are reentrant by their interface: every call gets its
// input, its output buffer (or returns its own vector) and its context; users encode from several threads / tasks.
// Each case forks a FRESH process (vf::mt_run), releases 2..4 threads together and has every thread encode its own
// payloads with every encoder form (pointer, vector, iovec pointer, iovec vector, legacy) and decode them with its
// own receiver.  Every frame is judged inside the thread by the pure reference of gs_ref.h (START, valid escapes,
// payload ++ CRC-8, STOP) and by the real receiver (exactly one NEWPACKAGE, on the last byte, content == payload);
// payloads and their reference CRCs are fixed before the threads start.  Wrong frames -> concurrent:<encoder>:!=reference,
// unsynchronised accesses inside igris -> ThreadSanitizer report picked up by the driver.
#define VF_MAIN
#include "vf.h"
#include "mt.h"
#include "gs_ref.h"
#include "gs_rx.h"
#include <string>

using namespace gs;
typedef std::vector<uint8_t> Bytes;

enum
{
    B_PTR = 1,
    B_VEC = 2,
    B_IOV_PTR = 4,
    B_IOV_VEC = 8,
    B_LEGACY = 16,
    B_RECV = 32
};
static const char *const BIT_NAME[6] = {"gstuffing(ptr)", "gstuffing(vector)", "gstuffing_v(ptr)", "gstuffing_v(vector)", "gstuffing_v1", "receiver"};

struct Item
{
    Codec k;
    Bytes p;
    uint8_t crc; // reference CRC-8 of p, computed before the threads start
};

// pure: only locals and read-only tables
static bool frame_ok(const Alpha &a, const Item &it, const uint8_t *f, size_t len)
{
    size_t n = it.p.size();
    if (len < 3 || len > 2 * n + 4 || f[0] != a.START || f[len - 1] != a.STOP)
        return false;
    Bytes u;
    if (!unescape(a, f + 1, len - 2, u))
        return false;
    if (u.size() != n + 1 || u[n] != it.crc)
        return false;
    for (size_t i = 0; i < n; i++)
        if (u[i] != it.p[i])
            return false;
    return true;
}
static bool receiver_ok(const Item &it, const uint8_t *f, size_t len)
{
    size_t n = it.p.size();
    std::vector<uint8_t> buf(n + 2);
    Rx rx(it.k);
    rx.init(buf.data(), (int)buf.size());
    for (size_t i = 0; i < len; i++)
    {
        int st = rx.put(f[i]);
        if ((i + 1 < len) ? (st < 0 || st == ST_NEW) : st != ST_NEW)
            return false;
    }
    if (rx.content_size() != n)
        return false;
    const uint8_t *ln = rx.line();
    for (size_t i = 0; i < n; i++)
        if (ln[i] != it.p[i])
            return false;
    return true;
}
static unsigned thread_body(const std::vector<Item> &items, int rounds)
{
    unsigned bad = 0;
    for (int round = 0; round < rounds; round++)
        for (const Item &it : items)
        {
            const Alpha &a = ALPHA[it.k];
            size_t n = it.p.size();
            Bytes in = it.p; // own copy
            std::vector<char> out(2 * n + 4);
            if (it.k == LEGACY)
            {
                int r = lg_encode((char *)in.data(), (int)n, out.data());
                if (r < 0 || !frame_ok(a, it, (const uint8_t *)out.data(), (size_t)r))
                    bad |= B_LEGACY;
                else if (!receiver_ok(it, (const uint8_t *)out.data(), (size_t)r))
                    bad |= B_RECV;
                continue;
            }
            gstuff_context cx = ctx_of(it.k); // own context object
            int r = gstuffing((const char *)in.data(), n, out.data(), cx);
            if (r < 0 || !frame_ok(a, it, (const uint8_t *)out.data(), (size_t)r))
                bad |= B_PTR;
            else if (!receiver_ok(it, (const uint8_t *)out.data(), (size_t)r))
                bad |= B_RECV;
            std::vector<uint8_t> v = gstuffing(igris::buffer((const void *)in.data(), n), cx);
            if (!frame_ok(a, it, v.data(), v.size()))
                bad |= B_VEC;
            else if (!receiver_ok(it, v.data(), v.size()))
                bad |= B_RECV;
            size_t cut = n / 3;
            struct iovec iv[3] = {{(void *)in.data(), cut}, {(void *)(in.data() + cut), 0}, {(void *)(in.data() + cut), n - cut}};
            r = gstuffing_v(iv, 3, out.data(), cx);
            if (r < 0 || !frame_ok(a, it, (const uint8_t *)out.data(), (size_t)r))
                bad |= B_IOV_PTR;
            std::vector<uint8_t> w = gstuffing_v(iv, 3, cx);
            if (!frame_ok(a, it, w.data(), w.size()))
                bad |= B_IOV_VEC;
            else if (!receiver_ok(it, w.data(), w.size()))
                bad |= B_RECV;
        }
    return bad;
}

static uint64_t mt_count() { return vf::thorough() ? 1500 : 120; }
static void mt_case(uint64_t idx)
{
    vf::Rng r(vf::seed(), 0xC04E17, idx);
    int nthreads = r.range(2, 4);
    int rounds = r.range(2, 6);
    // per thread: a handful of payloads of very different sizes (a shared grow-only scratch would be reallocated while
    // another thread reads it), both alphabets and the legacy codec mixed
    std::vector<std::vector<Item>> work(nthreads);
    size_t total = 0;
    for (int t = 0; t < nthreads; t++)
    {
        int nitems = r.range(4, 10);
        for (int i = 0; i < nitems; i++)
        {
            Item it;
            it.k = (Codec)r.below(NCODEC);
            const Alpha &a = ALPHA[it.k];
            size_t n = r.chance(1, 4) ? r.below(4) : r.chance(1, 3) ? (size_t)r.range(200, 3000) : (size_t)r.range(4, 60);
            it.p.resize(n);
            uint8_t fill = (uint8_t)(t * 37 + i); // distinct per thread: a mixed-up frame cannot pass by coincidence
            for (auto &b : it.p)
                b = r.chance(1, 4) ? (r.chance(1, 2) ? a.START : a.STUB) : r.chance(1, 2) ? fill : (uint8_t)r.next();
            it.crc = crc8(it.p.data(), n);
            total += n;
            work[t].push_back(std::move(it));
        }
    }
    vf::cls("concurrent-encode-decode");
    if (vf::verbose())
        printf("  fresh process, %d threads x %d rounds, %zu payload bytes per round in total, every encoder form + own receiver per thread\n", nthreads,
               rounds, total);
    int mask = vf::mt_run(nthreads, [&](int tid) -> unsigned { return thread_body(work[tid], rounds); });
    if (mask == -2)
        vf::fail("concurrent:child-cpu-limit", "%d threads: child exceeded its CPU limit", nthreads);
    if (mask < 0)
        vf::fail("concurrent:child-died", "%d threads: child process died (signal / sanitizer abort)", nthreads);
    for (int b = 0; b < 6; b++)
        if (mask & (1 << b))
        {
            std::string key = std::string("concurrent:") + BIT_NAME[b] + ":!=reference";
            vf::fail(key.c_str(), "%d threads x %d rounds in a fresh process: a frame of %s failed the reference check (mask %#x)", nthreads, rounds, BIT_NAME[b],
                     mask);
        }
    VF_OK("every encoder form and a receiver per thread, 2..4 threads in a fresh process == reference (TSan watching)");
    vf::count_case(vf::mix(idx, vf::seed()), true);
    if (vf::want_sample())
        vf::sample("concurrent: fresh process, %d threads x %d rounds, ptr/vector/iovec/legacy encoders + own receiver, payloads 0..3000 bytes", nthreads,
                   rounds);
}
VF_SUITE(concurrent, mt_count, mt_case)

extern "C" void vf_setup() { vf::require("every encoder form and a receiver per thread, 2..4 threads in a fresh process == reference (TSan watching)"); }
