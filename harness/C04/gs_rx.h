// gs_rx.h — uniform adapter over the three receivers igris ships.  Identical copy in harness/C04 and harness/C05.
#pragma once
#include "gs_ref.h"
#include <cstring>
#include <igris/protocols/gstuff.h>

extern "C"
{
    int lg_sizeof(void);
    void lg_init(void *a, void *buf, int cap);
    void lg_setbuf(void *a, void *buf, int cap);
    int lg_newchar(void *a, unsigned char c);
    int lg_state(void *a);
    unsigned lg_len(void *a);
    const char *lg_line(void *a);
    int lg_encode(char *data, int size, char *out);
    unsigned char lg_const(int which);
}

namespace gs
{
    static inline gstuff_context ctx_of(Codec k)
    {
        if (k == CUSTOM)
        {
            const Alpha &a = ALPHA[CUSTOM];
            gstuff_context c;
            c.GSTUFF_START = (char)a.START;
            c.GSTUFF_STOP = (char)a.STOP;
            c.GSTUFF_STUB = (char)a.STUB;
            c.GSTUFF_STUB_START = (char)a.C_START;
            c.GSTUFF_STUB_STOP = (char)a.C_STOP;
            c.GSTUFF_STUB_STUB = (char)a.C_STUB;
            return c;
        }
        return k == V0 ? gstuff_context_v0() : gstuff_context();
    }

    // layout twin of gstuff_autorecv, only used to *read* the private automaton state for coverage reporting
    struct RecvTwin
    {
        struct sline line;
        uint8_t crc;
        uint8_t state;
        gstuff_context ctx;
    };
    static_assert(sizeof(RecvTwin) == sizeof(gstuff_autorecv), "gstuff_autorecv layout changed: update RecvTwin");

    struct Rx
    {
        Codec k;
        gstuff_autorecv cpp;
        alignas(16) unsigned char lg[96];
        // gstuff_autorecv(uint8_t*, int, gstuff_context) is declared but defined nowhere: construct + init
        explicit Rx(Codec k_) : k(k_), cpp(ctx_of(k_)) { memset(lg, 0, sizeof lg); }
        void init(uint8_t *buf, int cap)
        {
            if (k == LEGACY)
                lg_init(lg, buf, cap);
            else
                cpp.init(buf, cap);
        }
        // the same receiver object used for the next packet with another buffer (state as the last packet left it;
        // the legacy object was zero-filled once, in the constructor)
        void reinit(uint8_t *buf, int cap)
        {
            if (k == LEGACY)
                lg_setbuf(lg, buf, cap);
            else
                cpp.init(buf, cap);
        }
        // the same configurable receiver object re-assigned in place to another alphabet
        void rebind(Codec k2)
        {
            k = k2;
            cpp = gstuff_autorecv(ctx_of(k2));
        }
        int put(uint8_t c)
        {
            if (k == LEGACY)
                return lg_newchar(lg, c);
            int s = cpp.newchar((char)c);
            switch (s)
            {
            case GSTUFF_CONTINUE: return ST_CONTINUE;
            case GSTUFF_NEWPACKAGE: return ST_NEW;
            case GSTUFF_FORCE_RESTART: return ST_RESTART;
            case GSTUFF_GARBAGE: return ST_GARBAGE;
            case GSTUFF_CRC_ERROR: return ST_CRC;
            case GSTUFF_OVERFLOW: return ST_OVERFLOW;
            case GSTUFF_STUFFING_ERROR: return ST_STUFF;
            case GSTUFF_ALGORITHM_ERROR: return ST_ALGO;
            }
            return ST_UNKNOWN;
        }
        size_t size() { return k == LEGACY ? lg_len(lg) : cpp.size(); }
        const uint8_t *line() { return (const uint8_t *)(k == LEGACY ? lg_line(lg) : cpp.cstr()); }
        // bytes of the *packet* at NEWPACKAGE: the legacy receiver keeps the CRC byte in its line
        size_t content_size() { return k == LEGACY ? (size() ? size() - 1 : 0) : size(); }
        int state()
        {
            if (k == LEGACY)
                return lg_state(lg);
            RecvTwin t;
            memcpy((void *)&t, (const void *)&cpp, sizeof t);
            return t.state;
        }
    };
} // namespace gs
