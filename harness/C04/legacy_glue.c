/* legacy_glue.c — thin C adapter around the legacy gstuff codec.
 * A separate TU because igris/protocols/gstuff_v1/gstuff.h and igris/protocols/gstuff.h both define
 * GSTUFF_START_V1 etc. with different values.  Identical copy in harness/C04 and harness/C05.
 * The constructor-like gstuff_autorecv_init_v1() is declared but defined nowhere; setbuf_v1 does not
 * initialise `state`, so the adapter zero-fills the object first (documented assumption). */
#include <igris/protocols/gstuff_v1/autorecv.h>
#include <igris/protocols/gstuff_v1/gstuff.h>
#include <string.h>

int lg_sizeof(void) { return (int)sizeof(struct gstuff_autorecv_v1); }

void lg_init(void *a, void *buf, int cap)
{
    memset(a, 0, sizeof(struct gstuff_autorecv_v1));
    gstuff_autorecv_setbuf_v1((struct gstuff_autorecv_v1 *)a, buf, cap);
}

/* re-use of a receiver object for the next packet with another buffer: no zero-fill, only what the API offers */
void lg_setbuf(void *a, void *buf, int cap) { gstuff_autorecv_setbuf_v1((struct gstuff_autorecv_v1 *)a, buf, cap); }

/* status normalised to the values of gs::St */
int lg_newchar(void *a, unsigned char c)
{
    int s = gstuff_autorecv_newchar_v1((struct gstuff_autorecv_v1 *)a, (char)c);
    switch (s)
    {
    case GSTUFF_CONTINUE_V1: return 0;
    case GSTUFF_NEWPACKAGE_V1: return 1;
    case GSTUFF_CRC_ERROR_V1: return -1;
    case GSTUFF_OVERFLOW_V1: return -2;
    case GSTUFF_DATA_ERROR_V1: return -3;
    }
    return -9;
}

int lg_state(void *a) { return ((struct gstuff_autorecv_v1 *)a)->state; }
unsigned lg_len(void *a) { return (unsigned)sline_size(&((struct gstuff_autorecv_v1 *)a)->line); }
const char *lg_line(void *a) { return sline_getline(&((struct gstuff_autorecv_v1 *)a)->line); }

int lg_encode(char *data, int size, char *out) { return gstuffing_v1(data, size, out); }

/* 0 START, 1 STUB, 2 STUB_START, 3 STUB_STUB — for calibrating the reference alphabet */
unsigned char lg_const(int which)
{
    switch (which)
    {
    case 0: return (unsigned char)GSTUFF_START_V1;
    case 1: return (unsigned char)GSTUFF_STUB_V1;
    case 2: return (unsigned char)GSTUFF_STUB_START_V1;
    default: return (unsigned char)GSTUFF_STUB_STUB_V1;
    }
}
