/* C01 — the traversal macros and dlist_move_sorted compiled as C (typeof flavour of decltypeof,
 * C constant folding rules), called from the C++ harness after every operation. */
#include "cobjs.h"

#define PUT(idv)                                                                                                       \
    do                                                                                                                 \
    {                                                                                                                  \
        if (n >= max)                                                                                                  \
            return -1;                                                                                                 \
        out[n++] = (idv);                                                                                              \
    } while (0)

int c_dl_each(struct dlist_head *h, long *out, int max)
{
    int n = 0;
    struct dlist_head *it;
    dlist_for_each(it, h) PUT(dlist_entry(it, struct cobj, lnk)->id);
    return n;
}
int c_dl_each_reverse(struct dlist_head *h, long *out, int max)
{
    int n = 0;
    struct dlist_head *it;
    dlist_for_each_reverse(it, h) PUT(dlist_entry(it, struct cobj, lnk)->id);
    return n;
}
int c_dl_each_safe(struct dlist_head *h, long *out, int max)
{
    int n = 0;
    struct dlist_head *it, *nx;
    dlist_for_each_safe(it, nx, h) PUT(dlist_entry(it, struct cobj, lnk)->id);
    return n;
}
int c_dl_each_entry(struct dlist_head *h, long *out, int max)
{
    int n = 0;
    struct cobj *pos;
    dlist_for_each_entry(pos, h, lnk) PUT(pos->id);
    return n;
}
int c_dl_each_entry_reverse(struct dlist_head *h, long *out, int max)
{
    int n = 0;
    struct cobj *pos;
    dlist_for_each_entry_reverse(pos, h, lnk) PUT(pos->id);
    return n;
}
int c_dl_each_entry_safe(struct dlist_head *h, long *out, int max)
{
    int n = 0;
    struct cobj *pos, *nx;
    dlist_for_each_entry_safe(pos, nx, h, lnk) PUT(pos->id);
    return n;
}
void c_dl_move_sorted(struct cobj *x, struct dlist_head *h)
{
    dlist_move_sorted(x, h, lnk, C01_KEY_LESS);
}
int c_sl_each(struct slist_head *h, long *out, int max)
{
    int n = 0;
    struct slist_head *it;
    slist_for_each(it, h) PUT(slist_entry(it, struct sobj, lnk)->id);
    return n;
}
int c_sl_each_entry(struct slist_head *h, long *out, int max)
{
    int n = 0;
    struct sobj *pos;
    slist_for_each_entry(pos, h, lnk) PUT(pos->id);
    return n;
}
int c_hl_each(struct hlist_head *h, long *out, int max)
{
    int n = 0;
    struct hlist_node *it;
    hlist_for_each(it, h) PUT(hlist_entry(it, struct hobj, lnk)->id);
    return n;
}
int c_hl_each_entry(struct hlist_head *h, long *out, int max)
{
    int n = 0;
    struct hobj *pos;
    hlist_for_each_entry(pos, h, lnk) PUT(pos->id);
    return n;
}
size_t c_offsets(int which)
{
    switch (which)
    {
    case 0:
        return member_offsetof(struct cobj, lnk);
    case 1:
        return member_offsetof(struct sobj, lnk);
    case 2:
        return member_offsetof(struct hobj, lnk);
    case 3:
        return member_sizeof(struct cobj, lnk);
    case 4:
        return sizeof(member_typeof(struct hobj, lnk));
    }
    return 0;
}
