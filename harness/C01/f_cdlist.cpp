// C01 — cdlist flavour: exhaustive and random history suites (see lists.cpp for the overview)
#include "w_cdlist.h"
C01_SUITES(CDL, cdlist)
