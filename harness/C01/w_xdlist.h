// C01 — world of C++ igris::dlist / dlist_node / dlist_base (igris/container/dlist.{h,cpp}).
#pragma once
#include "common.h"
#include <igris/container/dlist.h>
#include <iterator>

namespace c01
{
    struct XObj
    {
        long id;
        igris::dlist_node lnk;
        long tail;
        explicit XObj(long i) : id(i), lnk(), tail(~i) {}
    };
    typedef igris::dlist<XObj, &XObj::lnk> XList;

    struct XDL
    {
        enum St : uint8_t
        {
            DEAD,
            UNL, // constructed or unlinked: self-linked
            IN,  // member of list where[x]
            ORP  // member of ring where[x] that lost its head (unlink_and_move_all_nodes_from_other into a non-empty list)
        };
        enum Kind
        {
            K_CREATE,
            K_MOVE_NEXT,
            K_MOVE_PREV,
            K_POP,
            K_POP_FRONT,
            K_POP_BACK,
            K_CLEAR,
            K_SPLICE,
            K_DESTROY,
            K_RELIST,
            K_COUNT
        };
        static const char *name() { return "xdlist"; }
        static const char *kind_name(int k)
        {
            static const char *n[] = {"new node", "move_next", "move_prev", "pop/unlink", "pop_front", "pop_back", "clear", "unlink_and_move_all_nodes_from_other",
                                      "delete node", "delete list"};
            return n[k];
        }
        static int depth_quick() { return 4; }
        static int depth_thorough() { return 5; }
        static int leaf_sample_den(bool thorough) { return thorough ? 4 : 1; }
        static uint64_t random_quick() { return 2000; }
        static uint64_t random_thorough() { return 100000; }
        static bool is_removal_or_move(int k) { return k != K_CREATE; }
        static int alphabet_of(int N, int L) { return K_COUNT * N * (N + L); }

        int N, L, T;
        XObj *node[NMAX];
        const void *deadaddr[NMAX];
        St st[NMAX];
        int where[NMAX];
        XList *lists[LMAX];
        std::list<int> model[LMAX];
        std::vector<std::list<int>> rings;

        XDL(int n, int l, bool populated) : N(n), L(l), T(n + l)
        {
            for (int i = 0; i < L; i++)
                lists[i] = new XList;
            for (int i = 0; i < N; i++)
            {
                node[i] = nullptr;
                deadaddr[i] = nullptr;
                st[i] = DEAD;
                where[i] = -1;
                if (populated)
                    create(i);
            }
        }
        void create(int x)
        {
            node[x] = new XObj(x);
            st[x] = UNL;
            where[x] = -1;
        }
        int alphabet() const { return alphabet_of(N, L); }
        int kind_of(int code) const { return code / (N * T); }
        void touched(int code, int &a, int &b) const
        {
            int k = kind_of(code), x = (code / T) % N, t = code % T;
            bool listop = k == K_POP_FRONT || k == K_POP_BACK || k == K_CLEAR || k == K_SPLICE || k == K_RELIST;
            a = listop ? -1 : x;
            b = (!listop && t >= L && (k == K_MOVE_NEXT || k == K_MOVE_PREV)) ? t - L : -1;
            if (listop && x < L && !model[x].empty())
                a = model[x].front();
        }
        static std::string describe(int code, int N, int L)
        {
            int T = N + L, k = code / (N * T), x = (code / T) % N, t = code % T;
            char b[110];
            auto tgt = [&](int t) -> std::string { return t < L ? "list" + std::to_string(t) + ".head" : "n" + std::to_string(t - L); };
            switch (k)
            {
            case K_CREATE:
            case K_POP:
            case K_DESTROY:
                snprintf(b, sizeof b, "%s(n%d)", kind_name(k), x);
                break;
            case K_POP_FRONT:
            case K_POP_BACK:
            case K_CLEAR:
            case K_RELIST:
                snprintf(b, sizeof b, "%s(list%d)", kind_name(k), x);
                break;
            case K_SPLICE:
                snprintf(b, sizeof b, "list%d.unlink_and_move_all_nodes_from_other(list%d)", x, t);
                break;
            default:
                snprintf(b, sizeof b, "%s(n%d, %s)", kind_name(k), x, tgt(t).c_str());
            }
            return b;
        }
        bool legal(int code) const
        {
            int k = kind_of(code), x = (code / T) % N, t = code % T;
            if (k >= K_COUNT)
                return false;
            switch (k)
            {
            case K_CREATE:
                return t == 0 && st[x] == DEAD;
            case K_MOVE_NEXT:
            case K_MOVE_PREV:
                return st[x] != DEAD && (t < L || t - L == x || st[t - L] == IN);
            case K_POP:
            case K_DESTROY:
                return t == 0 && st[x] != DEAD;
            case K_POP_FRONT:
            case K_POP_BACK:
                return t == 0 && x < L && !model[x].empty();
            case K_CLEAR:
            case K_RELIST:
                return t == 0 && x < L;
            case K_SPLICE:
                return x < L && t < L && x != t;
            }
            return false;
        }
        int propose(vf::Rng &r) const
        {
            int k = (int)r.below(K_COUNT), x = (int)r.below(N), t = (int)r.below(T);
            if (k == K_MOVE_NEXT || k == K_MOVE_PREV)
            {
                if (r.chance(1, 3))
                    k = r.chance(1, 2) ? K_MOVE_NEXT : K_MOVE_PREV;
                if (r.chance(1, 8))
                    t = L + x;
                else if (st[x] == IN && r.chance(1, 5))
                {
                    const std::list<int> &m = model[where[x]];
                    auto it = std::find(m.begin(), m.end(), x);
                    if (r.chance(1, 2))
                        t = it == m.begin() ? where[x] : L + *std::prev(it);
                    else
                        t = std::next(it) == m.end() ? where[x] : L + *std::next(it);
                }
            }
            else if (k == K_SPLICE)
            {
                x = (int)r.below(L);
                t = (int)r.below(L);
            }
            else if (k == K_POP_FRONT || k == K_POP_BACK || k == K_CLEAR || k == K_RELIST)
            {
                if ((k == K_CLEAR || k == K_RELIST) && r.chance(3, 4))
                    return -1;
                x = (int)r.below(L);
                t = 0;
            }
            else
            {
                t = 0;
                if (k == K_DESTROY && r.chance(2, 3))
                    return -1;
            }
            if (x >= N)
                return -1;
            return (k * N + x) * T + t;
        }
        // remove x from whatever holds it in the reference
        void model_remove(int x)
        {
            if (st[x] == IN)
                model[where[x]].remove(x);
            else if (st[x] == ORP)
            {
                std::list<int> &r = rings[where[x]];
                r.remove(x);
                if (r.size() == 1)
                {
                    st[r.front()] = UNL;
                    where[r.front()] = -1;
                    r.clear();
                }
            }
            st[x] = UNL;
            where[x] = -1;
        }
        void model_insert(int x, int t, bool after)
        {
            int l = t < L ? t : where[t - L];
            if (t < L)
            {
                if (after)
                    model[l].push_front(x);
                else
                    model[l].push_back(x);
            }
            else
                list_insert(model[l], t - L, after, x);
            st[x] = IN;
            where[x] = l;
        }
        void orphan(std::list<int> &old)
        {
            if (old.empty())
                return;
            if (old.size() == 1)
            {
                st[old.front()] = UNL;
                where[old.front()] = -1;
                return;
            }
            rings.push_back(old);
            for (int id : old)
            {
                st[id] = ORP;
                where[id] = (int)rings.size() - 1;
            }
        }
        const char *relation(int x, int t) const
        {
            if (t < L)
                return "head";
            if (t - L == x)
                return "self";
            if (st[x] == IN && st[t - L] == IN && where[x] == where[t - L])
            {
                const std::list<int> &m = model[where[x]];
                auto it = std::find(m.begin(), m.end(), x);
                if (it != m.begin() && *std::prev(it) == t - L)
                    return "prev-neighbour";
                if (std::next(it) != m.end() && *std::next(it) == t - L)
                    return "next-neighbour";
                return "same-list";
            }
            return "node";
        }
        void apply(int code, uint64_t v)
        {
            int k = kind_of(code), x = (code / T) % N, t = code % T;
            static int ids[K_COUNT];
            static bool have;
            if (!have)
            {
                for (int i = 0; i < K_COUNT; i++)
                {
                    char nm[90];
                    snprintf(nm, sizeof nm, "op xdlist %s", kind_name(i));
                    ids[i] = vf::clause_id(nm);
                }
                have = true;
            }
            vf::clause_hit(ids[k]);
            switch (k)
            {
            case K_CREATE:
                set_tag("new node");
                create(x);
                break;
            case K_MOVE_NEXT:
            case K_MOVE_PREV:
            {
                bool after = k == K_MOVE_NEXT;
                const char *stn = st[x] == UNL ? ",unlinked" : st[x] == ORP ? ",headless" : "";
                set_tag("%s@%s%s", after ? "move_next" : "move_prev", relation(x, t), stn);
                XObj &o = *node[x];
                int var = (int)(v % 5);
                if (t < L)
                {
                    XList &li = *lists[t];
                    switch (var)
                    {
                    case 0:
                        after ? li.move_front(o) : li.move_back(o);
                        break;
                    case 1:
                        after ? static_cast<igris::dlist_base &>(li).move_front(o.lnk) : static_cast<igris::dlist_base &>(li).move_back(o.lnk);
                        break;
                    case 2: // iterator overload on end(): forms *end() like timer_manager::plan does
                        after ? li.move_next(o, li.end()) : li.move_prev(o, li.end());
                        break;
                    case 3:
                        after ? li.move_next(o, li.end().current) : li.move_prev(o, li.end().current);
                        break;
                    default:
                        after ? o.lnk.move_next_than(li.end().current) : o.lnk.move_prev_than(li.end().current);
                    }
                }
                else
                {
                    XObj &y = *node[t - L];
                    XList &li = *lists[(v >> 8) % L]; // which list object is used must not matter
                    switch (var)
                    {
                    case 0:
                        after ? li.move_next(o, y) : li.move_prev(o, y);
                        break;
                    case 1:
                        after ? li.move_next(o, &y.lnk) : li.move_prev(o, &y.lnk);
                        break;
                    case 2:
                        after ? li.move_next(o, XList::iterator(&y.lnk)) : li.move_prev(o, XList::iterator(&y.lnk));
                        break;
                    case 3:
                        after ? static_cast<igris::dlist_base &>(li).move_next(&o.lnk, &y.lnk) : static_cast<igris::dlist_base &>(li).move_prev(&o.lnk, &y.lnk);
                        break;
                    default:
                        after ? o.lnk.move_next_than(&y.lnk) : o.lnk.move_prev_than(&y.lnk);
                    }
                }
                if (t == L + x)
                {
                    // DESIGN 3a: in place or unlinked
                    if (o.lnk.next == &o.lnk && o.lnk.prev == &o.lnk)
                        model_remove(x);
                    else if (st[x] == UNL)
                        bad("self-move:unlinked-node-changed", "n%d was unlinked, after moving it next to itself it is not self-linked", x);
                    VF_OK("xdlist: self-move leaves x in place or unlinked");
                }
                else
                {
                    model_remove(x);
                    model_insert(x, t, after);
                }
                break;
            }
            case K_POP:
            {
                set_tag(st[x] == UNL ? "pop@unlinked" : st[x] == ORP ? "pop@headless" : "pop");
                XList &li = *lists[st[x] == IN ? where[x] : (int)((v >> 8) % L)];
                switch (v % 3)
                {
                case 0:
                    li.pop(*node[x]);
                    break;
                case 1:
                    li.pop_node(&node[x]->lnk);
                    break;
                default:
                    node[x]->lnk.unlink();
                }
                model_remove(x);
                break;
            }
            case K_POP_FRONT:
            {
                set_tag("pop_front");
                lists[x]->pop_front();
                model_remove(model[x].front());
                break;
            }
            case K_POP_BACK:
            {
                set_tag("pop_back");
                lists[x]->pop_back();
                model_remove(model[x].back());
                break;
            }
            case K_CLEAR:
                set_tag(model[x].empty() ? "clear@empty" : "clear");
                lists[x]->clear();
                while (!model[x].empty())
                    model_remove(model[x].front());
                break;
            case K_SPLICE:
            {
                set_tag("unlink_and_move_all_nodes_from_other@%s%s", model[t].empty() ? "from-empty" : "from-nonempty", model[x].empty() ? "" : ",into-nonempty");
                lists[x]->unlink_and_move_all_nodes_from_other(std::move(*lists[t]));
                std::list<int> old;
                old.swap(model[x]);
                model[x].swap(model[t]);
                for (int id : model[x])
                    where[id] = x;
                orphan(old);
                break;
            }
            case K_DESTROY:
                set_tag(st[x] == UNL ? "delete node@unlinked" : st[x] == ORP ? "delete node@headless" : "delete node@linked");
                deadaddr[x] = node[x];
                delete node[x]; // ~dlist_node unlinks
                node[x] = nullptr;
                model_remove(x);
                st[x] = DEAD;
                break;
            case K_RELIST:
                set_tag(model[x].empty() ? "delete list@empty" : "delete list");
                delete lists[x]; // ~dlist_base pops every node
                lists[x] = new XList;
                while (!model[x].empty())
                    model_remove(model[x].front());
                break;
            }
        }

        // ------------------------------------------------------------ monitors
        struct Ent
        {
            int kind; // 0 none, 1 head, 2 node
            int idx;
        };
        const igris::dlist_node *headnode(int l) const { return lists[l]->end().current; }
        Ent lookup(const igris::dlist_node *p) const
        {
            for (int i = 0; i < L; i++)
                if (p == headnode(i))
                    return Ent{1, i};
            for (int i = 0; i < N; i++)
                if (node[i] && p == &node[i]->lnk)
                    return Ent{2, i};
            return Ent{0, -1};
        }
        std::string whois(const igris::dlist_node *p) const
        {
            Ent e = lookup(p);
            if (e.kind == 1)
                return "list" + std::to_string(e.idx) + ".head";
            if (e.kind == 2)
                return "n" + std::to_string(e.idx);
            for (int i = 0; i < N; i++)
                if (deadaddr[i] && p == &((const XObj *)deadaddr[i])->lnk)
                    return "deleted n" + std::to_string(i);
            return p ? "unknown address" : "null";
        }
        // walks the ring that starts at `start` (a list head, or a node of a head-less ring)
        const Seq &raw_walk(const igris::dlist_node *start, bool fwd, int l, int ring)
        {
            const igris::dlist_node *e = start;
            static Seq out;
            out.clear();
            int budget = N + L + 2;
            const char *what = l >= 0 ? "list" : "headless ring";
            int idx = l >= 0 ? l : ring;
            for (;;)
            {
                const igris::dlist_node *nx = fwd ? e->next : e->prev;
                Ent r = lookup(nx);
                if (r.kind == 0)
                    bad("structure:stale-link", "%s %d %s: %s points at %s", what, idx, fwd ? "forward" : "backward", whois(e).c_str(), whois(nx).c_str());
                if ((fwd ? nx->prev : nx->next) != e)
                    bad("structure:backlink", "%s %d: %s->%s is %s but %s->%s is %s", what, idx, whois(e).c_str(), fwd ? "next" : "prev", whois(nx).c_str(),
                        whois(nx).c_str(), fwd ? "prev" : "next", whois(fwd ? nx->prev : nx->next).c_str());
                if (nx == start)
                    break;
                if (r.kind == 1)
                    bad("structure:foreign-head", "%s %d reaches the head of list %d", what, idx, r.idx);
                if (l >= 0 ? (st[r.idx] != IN || where[r.idx] != l) : (st[r.idx] != ORP || where[r.idx] != ring))
                    bad("structure:removed-node-reachable", "n%d is %s in the reference but reachable from %s %d", r.idx,
                        st[r.idx] == IN ? "in another list" : st[r.idx] == UNL ? "unlinked" : "in a headless ring", what, idx);
                out.push_back(r.idx);
                if (--budget < 0)
                    bad("structure:cycle", "%s %d does not close within %d steps: %s", what, idx, N + L + 2, show(out).c_str());
                e = nx;
            }
            return out;
        }
        void walk_all()
        {
            for (int l = 0; l < L; l++)
            {
                expect_seq("forward!=model", "raw next walk", l, raw_walk(headnode(l), true, l, -1), model[l]);
                expect_seq("backward!=reverse(model)", "raw prev walk", l, raw_walk(headnode(l), false, l, -1), model[l], true);
            }
            VF_OKN("xdlist: forward == model, backward == reverse, neighbours point back, no stale/foreign/removed node reachable", L);
            for (size_t r = 0; r < rings.size(); r++)
            {
                if (rings[r].empty())
                    continue;
                // the ring as seen from its first reference member: the others in cyclic order
                std::list<int> rest(std::next(rings[r].begin()), rings[r].end());
                const igris::dlist_node *s = &node[rings[r].front()]->lnk;
                expect_seq("forward!=model", "raw next walk of the headless ring", (int)r, raw_walk(s, true, -1, (int)r), rest);
                expect_seq("backward!=reverse(model)", "raw prev walk of the headless ring", (int)r, raw_walk(s, false, -1, (int)r), rest, true);
                VF_OK("xdlist: nodes left behind by unlink_and_move_all_nodes_from_other stay a consistent ring, in no list");
            }
        }
#define C01_COLLECT(stmt_id)                                                                                                                         \
    {                                                                                                                                                \
        if ((int)got.size() > B)                                                                                                                     \
            bad("structure:cycle", "iteration over list %d exceeds %d steps", l, B);                                                                 \
        got.push_back((int)(stmt_id));                                                                                                               \
    }
        void observers()
        {
            const int B = N + 2;
            for (int l = 0; l < L; l++)
            {
                XList &li = *lists[l];
                const XList &cli = li;
                const std::list<int> &m = model[l];
                size_t n = m.size();
                static Seq got;
                got.clear();
                observing("iterator");
                for (XList::iterator it = li.begin(); it != li.end(); ++it)
                    C01_COLLECT(it->id);
                expect_seq("forward!=model", "begin()..end() with ++it", l, got, m);
                got.clear();
                for (XList::iterator it = li.begin(); !(it == li.end());)
                    C01_COLLECT((*it++).id);
                expect_seq("forward!=model", "begin()..end() with it++", l, got, m);
                got.clear();
                for (XObj &o : li)
                    C01_COLLECT(o.id);
                expect_seq("forward!=model", "range-for", l, got, m);
                got.clear();
                for (XList::iterator it = cli.begin(); it != cli.end(); ++it)
                    C01_COLLECT((*it).id);
                expect_seq("forward!=model", "const begin()..end()", l, got, m);
                got.clear();
                observing("reverse_iterator");
                for (XList::reverse_iterator it = li.rbegin(); it != li.rend(); ++it)
                    C01_COLLECT(it->id);
                expect_seq("backward!=reverse(model)", "rbegin()..rend() with ++it", l, got, m, true);
                got.clear();
                for (XList::reverse_iterator it = li.rbegin(); !(it == li.rend());)
                    C01_COLLECT((*it++).id);
                expect_seq("backward!=reverse(model)", "rbegin()..rend() with it++", l, got, m, true);
                got.clear();
                for (XList::iterator it = li.end(); it != li.begin();)
                {
                    --it;
                    C01_COLLECT(it->id);
                }
                expect_seq("backward!=reverse(model)", "end()..begin() with --it", l, got, m, true);
                got.clear();
                {
                    // reverse_iterator backwards (operator--) from rend() == forward order
                    XList::reverse_iterator it = li.rend();
                    while (it != li.rbegin())
                    {
                        it--;
                        C01_COLLECT((*it).id);
                    }
                    expect_seq("forward!=model", "rend()..rbegin() with it--", l, got, m);
                }
                VF_OK("xdlist: iterator / reverse_iterator / range-for / const iteration == model");

                observing("size/empty/is_correct");
                if (li.size() != n || (size_t)std::distance(li.begin(), li.end()) != n)
                    bad("size!=model", "list %d: size()=%zu distance=%zd reference %zu", l, li.size(), std::distance(li.begin(), li.end()), n);
                if (li.empty() != (n == 0))
                    bad("empty!=model", "list %d: empty()=%d reference size %zu", l, (int)li.empty(), n);
                if (!li.is_correct())
                    bad("is_correct==false", "list %d: is_correct() is false on a list the raw walk found consistent", l);
                if (n)
                {
                    long f = li.front().id, f2 = li.first().id, b = li.back().id;
                    // (dlist_node::cast_out and with it first_entry/last_entry do not compile when instantiated)
                    if (f != m.front() || f2 != m.front() || b != m.back() || li.first_node() != &node[m.front()]->lnk || li.last_node() != &node[m.back()]->lnk)
                        bad("first/last!=model", "list %d: front=%ld first=%ld back=%ld reference %d,%d", l, f, f2, b, m.front(), m.back());
                }
                else if (li.first_node() != headnode(l) || li.last_node() != headnode(l))
                    bad("first/last!=model", "empty list %d: first_node/last_node are not the head", l);
                VF_OK("xdlist: size, empty, is_correct, front/first/back, first_node/last_node == model");
            }
        }
        bool node_clauses()
        {
            bool redundant = false;
            observing("is_linked");
            for (int x = 0; x < N; x++)
            {
                if (st[x] == DEAD)
                    continue;
                igris::dlist_node &p = node[x]->lnk;
                bool linked = st[x] != UNL;
                if (p.is_linked() != linked || p.is_unlinked() == linked || p.empty() == linked)
                    bad(linked ? "membership!=model" : "unlinked-node-not-self-linked", "n%d: is_linked=%d is_unlinked=%d empty=%d, reference %s", x,
                        (int)p.is_linked(), (int)p.is_unlinked(), (int)p.empty(), linked ? "linked" : "unlinked");
                if (member_container(&p, &XObj::lnk) != node[x] || member_offset(&XObj::lnk) != offsetof(XObj, lnk))
                    bad("member_container", "member_container of n%d does not give the object back", x);
                if (st[x] == UNL)
                {
                    if (p.next != &p || p.prev != &p || p.next_node() != &p || p.prev_node() != &p || p.circular_size() != 1 || p.reverse_circular_size() != 1)
                        bad("unlinked-node-not-self-linked", "n%d is unlinked but next=%s prev=%s", x, whois(p.next).c_str(), whois(p.prev).c_str());
                    p.unlink(); // again: must be harmless (lists are re-walked afterwards)
                    if (p.next != &p || p.prev != &p)
                        bad("unlinked-node-not-self-linked", "n%d not self-linked after a second unlink()", x);
                    redundant = true;
                    VF_OK("xdlist: unlinked node is self-linked; unlinking it again changes nothing");
                }
                else if (st[x] == IN)
                {
                    size_t want = model[where[x]].size() + 1;
                    if (p.circular_size() != want || p.reverse_circular_size() != want)
                        bad("size!=model", "n%d: circular_size=%zu reverse=%zu reference %zu", x, p.circular_size(), p.reverse_circular_size(), want);
                }
            }
            VF_OK("xdlist: is_linked / is_unlinked / empty / circular_size / member_container of every node == model");
            return redundant;
        }
        uint64_t state_hash() const
        {
            uint64_t h = 0xD11;
            for (int l = 0; l < L; l++)
            {
                h = vf::mix(h, 1000 + l);
                for (int id : model[l])
                    h = vf::mix(h, (uint64_t)id);
            }
            for (auto &r : rings)
                if (!r.empty())
                {
                    h = vf::mix(h, 2000);
                    for (int id : r)
                        h = vf::mix(h, (uint64_t)id);
                }
            for (int x = 0; x < N; x++)
                h = vf::mix(h, st[x]);
            return h;
        }
        void check()
        {
            walk_all();
            observers();
            if (node_clauses())
                walk_all();
            vf::state(N <= 4 ? state_hash() : shape_hash(0xD12, N, L, model, L, (const uint8_t *)st));
        }
        void teardown(uint64_t v)
        {
            // nodes and lists die in an order chosen by the history; every deletion is followed by the raw walk
            int order[NMAX + LMAX], cnt = 0;
            for (int l = 0; l < L; l++)
                order[cnt++] = l;
            for (int x = 0; x < N; x++)
                if (node[x])
                    order[cnt++] = L + x;
            vf::Rng r(v, 77);
            int mode = (int)(v % 3); // 0 lists first, 1 nodes first, 2 shuffled
            if (mode == 1)
                std::reverse(order, order + cnt);
            else if (mode == 2)
                for (int i = cnt - 1; i > 0; i--)
                    std::swap(order[i], order[r.below(i + 1)]);
            bool list_alive[LMAX];
            for (int l = 0; l < L; l++)
                list_alive[l] = true;
            for (int i = 0; i < cnt; i++)
            {
                int o = order[i];
                if (o < L)
                {
                    set_tag("teardown:delete list");
                    delete lists[o];
                    lists[o] = nullptr;
                    list_alive[o] = false;
                    while (!model[o].empty())
                        model_remove(model[o].front());
                }
                else
                {
                    set_tag("teardown:delete node");
                    int x = o - L;
                    deadaddr[x] = node[x];
                    delete node[x];
                    node[x] = nullptr;
                    model_remove(x);
                    st[x] = DEAD;
                }
                // survivors: lists still alive must match, unlinked nodes must be self-linked
                for (int l = 0; l < L; l++)
                    if (list_alive[l])
                    {
                        // temporarily hide dead lists from lookup by walking only live ones
                        Seq f = raw_walk_live(l, true, list_alive), b = raw_walk_live(l, false, list_alive);
                        expect_seq("forward!=model", "raw next walk", l, f, model[l]);
                        expect_seq("backward!=reverse(model)", "raw prev walk", l, b, model[l], true);
                    }
                for (int x = 0; x < N; x++)
                    if (node[x] && st[x] == UNL && (node[x]->lnk.next != &node[x]->lnk || node[x]->lnk.prev != &node[x]->lnk))
                        bad("unlinked-node-not-self-linked", "n%d not self-linked after its list was destroyed", x);
                VF_OK("xdlist: destroying nodes and lists in any order keeps the survivors consistent");
            }
        }
        const Seq &raw_walk_live(int l, bool fwd, const bool *alive)
        {
            // like raw_walk, but with lookup restricted to live lists (lists[] of dead ones is null)
            const igris::dlist_node *h = lists[l]->end().current, *e = h;
            static Seq out;
            out.clear();
            int budget = N + L + 2;
            for (;;)
            {
                const igris::dlist_node *nx = fwd ? e->next : e->prev;
                int found = -2;
                if (nx == h)
                    found = -1;
                for (int i = 0; i < N && found == -2; i++)
                    if (node[i] && nx == &node[i]->lnk)
                        found = i;
                if (found == -2)
                {
                    bool otherhead = false;
                    for (int k = 0; k < L; k++)
                        if (alive[k] && k != l && nx == lists[k]->end().current)
                            otherhead = true;
                    bad(otherhead ? "structure:foreign-head" : "structure:stale-link", "list %d %s: a link points at %s", l, fwd ? "forward" : "backward",
                        otherhead ? "another list's head" : "a deleted node or list");
                }
                if ((fwd ? nx->prev : nx->next) != e)
                    bad("structure:backlink", "list %d: neighbour does not point back", l);
                if (found == -1)
                    break;
                out.push_back(found);
                if (--budget < 0)
                    bad("structure:cycle", "list %d does not close", l);
                e = nx;
            }
            return out;
        }
#undef C01_COLLECT
    };
} // namespace c01
