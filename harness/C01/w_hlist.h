// C01 — world of hlist_head / hlist_node lists (igris/datastruct/hlist.h).
#pragma once
#include "cobjs.h"
#include "common.h"

namespace c01
{
    struct HL
    {
        enum St : uint8_t
        {
            DEAD,
            RAW,    // allocated, garbage links
            INITED, // hlist_node_init: pprev == 0 ("not in a list"; hlist_del is a no-op)
            OFF,    // hlist_del'ed: links stale
            IN
        };
        enum Kind
        {
            K_CREATE,
            K_NODE_INIT,
            K_ADD_HEAD,  // hlist_add_next(x, &head->first)
            K_ADD_AFTER, // hlist_add_next(x, &y->next)
            K_DEL,
            K_DESTROY,
            K_COUNT
        };
        static const char *name() { return "hlist"; }
        static const char *kind_name(int k)
        {
            static const char *n[] = {"create", "hlist_node_init", "hlist_add_next(head)", "hlist_add_next(node)", "hlist_del", "free"};
            return n[k];
        }
        static int depth_quick() { return 5; }
        static int depth_thorough() { return 6; }
        static int leaf_sample_den(bool thorough) { return thorough ? 1 : 1; }
        static uint64_t random_quick() { return 1000; }
        static uint64_t random_thorough() { return 100000; }
        static bool is_removal_or_move(int k) { return k == K_DEL; }
        static int alphabet_of(int N, int L) { return K_COUNT * N * (N + L); }

        int N, L, T;
        hobj *node[NMAX];
        const void *deadaddr[NMAX];
        St st[NMAX];
        int where[NMAX];
        hlist_head *head[LMAX];
        std::list<int> model[LMAX];

        HL(int n, int l, bool populated) : N(n), L(l), T(n + l)
        {
            for (int i = 0; i < L; i++)
            {
                head[i] = (hlist_head *)malloc(sizeof(hlist_head));
                memset(head[i], 0xA5, sizeof(hlist_head));
                if (hlist_head_init(head[i]) != head[i])
                    bad("init", "hlist_head_init does not return its argument");
            }
            for (int i = 0; i < N; i++)
            {
                node[i] = nullptr;
                deadaddr[i] = nullptr;
                st[i] = DEAD;
                where[i] = -1;
                if (populated)
                    create(i, true);
            }
        }
        void create(int x, bool init)
        {
            node[x] = (hobj *)malloc(sizeof(hobj));
            memset(node[x], 0xA5, sizeof(hobj));
            node[x]->id = x;
            st[x] = RAW;
            if (init)
            {
                hlist_node_init(&node[x]->lnk);
                st[x] = INITED;
            }
        }
        int alphabet() const { return alphabet_of(N, L); }
        int kind_of(int code) const { return code / (N * T); }
        void touched(int code, int &a, int &b) const
        {
            int k = kind_of(code), x = (code / T) % N, t = code % T;
            a = x;
            b = (k == K_ADD_AFTER && t >= L) ? t - L : -1;
        }
        static std::string describe(int code, int N, int L)
        {
            int T = N + L, k = code / (N * T), x = (code / T) % N, t = code % T;
            char b[96];
            switch (k)
            {
            case K_ADD_HEAD:
                snprintf(b, sizeof b, "hlist_add_next(n%d, &head%d.first)", x, t);
                break;
            case K_ADD_AFTER:
                snprintf(b, sizeof b, "hlist_add_next(n%d, &n%d.next)", x, t - L);
                break;
            default:
                snprintf(b, sizeof b, "%s(n%d)", kind_name(k), x);
            }
            return b;
        }
        bool legal(int code) const
        {
            int k = kind_of(code), x = (code / T) % N, t = code % T;
            bool off = st[x] == RAW || st[x] == INITED || st[x] == OFF;
            switch (k)
            {
            case K_CREATE:
                return t == 0 && st[x] == DEAD;
            case K_NODE_INIT:
                return t == 0 && (st[x] == RAW || st[x] == OFF);
            case K_ADD_HEAD:
                return off && t < L;
            case K_ADD_AFTER:
                return off && t >= L && st[t - L] == IN;
            case K_DEL:
                return t == 0 && st[x] == IN; // hlist_del of a never linked node is not part of the statement
            case K_DESTROY:
                return t == 0 && off;
            }
            return false;
        }
        int propose(vf::Rng &r) const
        {
            int k = (int)r.below(K_COUNT), x = (int)r.below(N), t = (int)r.below(T);
            if (k == K_CREATE || k == K_NODE_INIT || k == K_DEL || k == K_DESTROY)
                t = 0;
            if (k == K_DESTROY && r.chance(1, 2))
                return -1;
            return (k * N + x) * T + t;
        }
        void apply(int code, uint64_t v)
        {
            int k = kind_of(code), x = (code / T) % N, t = code % T;
            static int ids[K_COUNT];
            static bool have;
            if (!have)
            {
                for (int i = 0; i < K_COUNT; i++)
                {
                    char nm[90];
                    snprintf(nm, sizeof nm, "op hlist %s", kind_name(i));
                    ids[i] = vf::clause_id(nm);
                }
                have = true;
            }
            vf::clause_hit(ids[k]);
            switch (k)
            {
            case K_CREATE:
                set_tag("create");
                create(x, v & 1);
                break;
            case K_NODE_INIT:
                set_tag("hlist_node_init");
                hlist_node_init(&node[x]->lnk);
                st[x] = INITED;
                break;
            case K_ADD_HEAD:
                set_tag(model[t].empty() ? "hlist_add_next@empty-head" : "hlist_add_next@head");
                hlist_add_next(&node[x]->lnk, &head[t]->first);
                model[t].push_front(x);
                st[x] = IN;
                where[x] = t;
                break;
            case K_ADD_AFTER:
            {
                int y = t - L;
                set_tag(model[where[y]].back() == y ? "hlist_add_next@last-node" : "hlist_add_next@node");
                hlist_add_next(&node[x]->lnk, &node[y]->lnk.next);
                where[x] = where[y];
                list_insert(model[where[x]], y, true, x);
                st[x] = IN;
                break;
            }
            case K_DEL:
                {
                    const std::list<int> &m = model[where[x]];
                    set_tag(m.size() == 1 ? "hlist_del@only" : m.front() == x ? "hlist_del@first" : m.back() == x ? "hlist_del@last" : "hlist_del@middle");
                }
                hlist_del(&node[x]->lnk);
                model[where[x]].remove(x);
                st[x] = OFF;
                where[x] = -1;
                break;
            case K_DESTROY:
                set_tag("free");
                deadaddr[x] = node[x];
                free(node[x]);
                node[x] = nullptr;
                st[x] = DEAD;
                break;
            }
        }
        int find_node(const hlist_node *p) const
        {
            for (int i = 0; i < N; i++)
                if (node[i] && p == &node[i]->lnk)
                    return i;
            return -1;
        }
        std::string whois(const hlist_node *p) const
        {
            if (!p)
                return "null";
            int i = find_node(p);
            if (i >= 0)
                return "n" + std::to_string(i);
            for (i = 0; i < N; i++)
                if (deadaddr[i] && p == &((const hobj *)deadaddr[i])->lnk)
                    return "freed n" + std::to_string(i);
            return "unknown address";
        }
#define C01_COLLECT(stmt_id)                                                                                                                         \
    {                                                                                                                                                \
        if ((int)got.size() > B)                                                                                                                     \
            bad("structure:cycle", "traversal of list %d exceeds %d steps", l, B);                                                                   \
        got.push_back((int)(stmt_id));                                                                                                               \
    }
        void check()
        {
            const int B = N + 2;
            long buf[NMAX + 4];
            for (int l = 0; l < L; l++)
            {
                hlist_head *h = head[l];
                const std::list<int> &m = model[l];
                // raw walk: every node's pprev is the address of the pointer that points at it
                static Seq got;
                got.clear();
                hlist_node **pp = &h->first;
                for (hlist_node *p = *pp; p; pp = &p->next, p = *pp)
                {
                    int i = find_node(p);
                    if (i < 0)
                        bad("structure:stale-link", "list %d: a link points at %s", l, whois(p).c_str());
                    if (st[i] != IN || where[i] != l)
                        bad("structure:removed-node-reachable", "n%d is not in list %d in the reference but reachable from it", i, l);
                    if (p->pprev != pp)
                        bad("structure:backlink", "list %d: n%d->pprev is not the address of the pointer that points at it", l, i);
                    C01_COLLECT(i);
                }
                expect_seq("forward!=model", "raw next walk", l, got, m);
                VF_OK("hlist: forward == model, *n->pprev == n for every linked node, no stale or removed node reachable");
                got.clear();
                hlist_node *it;
                hobj *pos;
                observing("hlist_for_each");
                hlist_for_each(it, h) C01_COLLECT(hlist_entry(it, hobj, lnk)->id);
                expect_seq("forward!=model", "hlist_for_each", l, got, m);
                got.clear();
                observing("hlist_for_each_entry");
                hlist_for_each_entry(pos, h, lnk) C01_COLLECT(pos->id);
                expect_seq("forward!=model", "hlist_for_each_entry", l, got, m);
                observing("C:hlist_for_each");
                int k = c_hl_each(h, buf, B);
                if (k < 0)
                    bad("structure:cycle", "C hlist_for_each of list %d exceeds %d steps", l, B);
                expect_ids("forward!=model", "C hlist_for_each", l, buf, k, m);
                observing("C:hlist_for_each_entry");
                k = c_hl_each_entry(h, buf, B);
                if (k < 0)
                    bad("structure:cycle", "C hlist_for_each_entry of list %d exceeds %d steps", l, B);
                expect_ids("forward!=model", "C hlist_for_each_entry", l, buf, k, m);
                VF_OK("hlist: hlist_for_each / hlist_for_each_entry (C++ and C) == model");
                if (!m.empty() && hlist_first_entry(h, hobj, lnk)->id != m.front())
                    bad("first/last!=model", "list %d: hlist_first_entry is n%ld, reference n%d", l, hlist_first_entry(h, hobj, lnk)->id, m.front());
                if ((h->first == nullptr) != m.empty())
                    bad("empty!=model", "list %d: first is %s, reference size %zu", l, h->first ? "set" : "null", m.size());
                VF_OK("hlist: emptiness and hlist_first_entry == model");
            }
            uint64_t hsh = 0x411;
            for (int l = 0; l < L; l++)
            {
                hsh = vf::mix(hsh, 1000 + l);
                for (int id : model[l])
                    hsh = vf::mix(hsh, (uint64_t)id);
            }
            for (int x = 0; x < N; x++)
                hsh = vf::mix(hsh, st[x]);
            vf::state(N <= 4 ? hsh : shape_hash(0x412, N, L, model, L, (const uint8_t *)st));
        }
#undef C01_COLLECT
        void teardown(uint64_t v)
        {
            for (int l = 0; l < L; l++)
            {
                static Seq got;
                got.clear();
                int guard = N + 2;
                bool from_back = (v + l) & 1;
                while (head[l]->first)
                {
                    hlist_node *p = head[l]->first;
                    if (from_back)
                        while (p->next && find_node(p->next) >= 0)
                            p = p->next;
                    int i = find_node(p);
                    if (i < 0 || --guard < 0)
                        bad("structure:stale-link", "draining list %d meets %s", l, whois(p).c_str());
                    got.push_back(i);
                    hlist_del(p);
                    st[i] = OFF;
                }
                expect_seq("forward!=model", from_back ? "draining from the back with hlist_del" : "draining from the front with hlist_del", l, got, model[l],
                           from_back);
                model[l].clear();
                VF_OK("hlist: deleting every node (front to back / back to front) visits the model order and empties the head");
            }
            for (int x = 0; x < N; x++)
                if (node[x])
                {
                    free(node[x]);
                    node[x] = nullptr;
                }
            for (int l = 0; l < L; l++)
            {
                free(head[l]);
                head[l] = nullptr;
            }
        }
    };
} // namespace c01
