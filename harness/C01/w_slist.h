// C01 — world of singly linked lists: C slist_head (igris/datastruct/slist.h) and C++ igris::slist (igris/container/slist.h).
// Lists 0..L-1 are C heads; lists L..L+XL-1 are igris::slist objects (add-only: the class has no removal).
#pragma once
#include "cobjs.h"
#include "common.h"
#include <igris/container/slist.h>

namespace c01
{
    typedef igris::slist<sobj, &sobj::lnk> XSList;

    struct SL
    {
        enum St : uint8_t
        {
            DEAD,
            FREE, // allocated, in no list (fresh: garbage link; popped: stale link)
            IN,   // member of C list where[x]
            INX   // member of C++ list where[x] (cannot leave it)
        };
        enum Kind
        {
            K_CREATE,
            K_ADD,      // slist_add(x, head | linked node)
            K_POP,      // slist_pop_first / slist_pop_first_entry
            K_ADDX,     // igris::slist::add_first / move_front
            K_DESTROY,
            K_COUNT
        };
        enum
        {
            XL = 1
        };
        static const char *name() { return "slist"; }
        static const char *kind_name(int k)
        {
            static const char *n[] = {"create", "slist_add", "slist_pop_first", "igris::slist::add_first", "free"};
            return n[k];
        }
        static int depth_quick() { return 5; }
        static int depth_thorough() { return 6; }
        static int leaf_sample_den(bool thorough) { return thorough ? 1 : 1; }
        static uint64_t random_quick() { return 1000; }
        static uint64_t random_thorough() { return 100000; }
        static bool is_removal_or_move(int k) { return k == K_POP; }
        static int alphabet_of(int N, int L) { return K_COUNT * N * (N + L); }

        int N, L, T;
        sobj *node[NMAX];
        const void *deadaddr[NMAX];
        St st[NMAX];
        int where[NMAX];
        slist_head *head[LMAX];
        XSList *xl[XL];
        std::list<int> model[(int)LMAX + (int)XL];

        SL(int n, int l, bool populated) : N(n), L(l), T(n + l)
        {
            for (int i = 0; i < L; i++)
            {
                head[i] = (slist_head *)malloc(sizeof(slist_head));
                if (i & 1)
                    slist_init(head[i]);
                else
                {
                    slist_head tmp = SLIST_HEAD_INIT(*head[i]);
                    *head[i] = tmp;
                }
            }
            for (int i = 0; i < XL; i++)
                xl[i] = new XSList;
            for (int i = 0; i < N; i++)
            {
                node[i] = nullptr;
                deadaddr[i] = nullptr;
                st[i] = DEAD;
                where[i] = -1;
                if (populated)
                    create(i);
            }
        }
        void create(int x)
        {
            node[x] = (sobj *)malloc(sizeof(sobj));
            memset(node[x], 0xA5, sizeof(sobj));
            node[x]->id = x;
            st[x] = FREE;
        }
        int alphabet() const { return alphabet_of(N, L); }
        int kind_of(int code) const { return code / (N * T); }
        void touched(int code, int &a, int &b) const
        {
            int k = kind_of(code), x = (code / T) % N, t = code % T;
            a = k == K_POP ? -1 : x;
            b = (k == K_ADD && t >= L) ? t - L : -1;
            if (k == K_POP)
                a = (x + 1) % N, b = (x + 2) % N; // pops touch whatever is first: counted as touching two nodes when N >= 2
        }
        static std::string describe(int code, int N, int L)
        {
            int T = N + L, k = code / (N * T), x = (code / T) % N, t = code % T;
            char b[96];
            switch (k)
            {
            case K_ADD:
                snprintf(b, sizeof b, "slist_add(n%d, %s%d)", x, t < L ? "head" : "n", t < L ? t : t - L);
                break;
            case K_POP:
                snprintf(b, sizeof b, "slist_pop_first(head%d)", x);
                break;
            case K_ADDX:
                snprintf(b, sizeof b, "cxxlist%d.add_first(n%d)", t, x);
                break;
            default:
                snprintf(b, sizeof b, "%s(n%d)", kind_name(k), x);
            }
            return b;
        }
        bool legal(int code) const
        {
            int k = kind_of(code), x = (code / T) % N, t = code % T;
            switch (k)
            {
            case K_CREATE:
                return t == 0 && st[x] == DEAD;
            case K_ADD:
                return st[x] == FREE && (t < L || st[t - L] == IN);
            case K_POP:
                return t == 0 && x < L && !model[x].empty(); // popping an empty list is not part of the statement
            case K_ADDX:
                return st[x] == FREE && t < XL;
            case K_DESTROY:
                return t == 0 && st[x] == FREE;
            }
            return false;
        }
        int propose(vf::Rng &r) const
        {
            int k = (int)r.below(K_COUNT), x = (int)r.below(N), t = (int)r.below(T);
            if (k == K_POP)
            {
                x = (int)r.below(L);
                t = 0;
            }
            else if (k == K_CREATE || k == K_DESTROY)
            {
                t = 0;
                if (k == K_DESTROY && r.chance(1, 2))
                    return -1;
            }
            else if (k == K_ADDX)
            {
                t = 0;
                if (r.chance(3, 4))
                    return -1; // nodes given to the C++ list are lost to the rest of the history
            }
            if (x >= N)
                return -1;
            return (k * N + x) * T + t;
        }
        void apply(int code, uint64_t v)
        {
            int k = kind_of(code), x = (code / T) % N, t = code % T;
            static int ids[K_COUNT];
            static bool have;
            if (!have)
            {
                for (int i = 0; i < K_COUNT; i++)
                {
                    char nm[90];
                    snprintf(nm, sizeof nm, "op slist %s", kind_name(i));
                    ids[i] = vf::clause_id(nm);
                }
                have = true;
            }
            vf::clause_hit(ids[k]);
            switch (k)
            {
            case K_CREATE:
                set_tag("create");
                create(x);
                break;
            case K_ADD:
                set_tag(t < L ? "slist_add@head" : "slist_add@node");
                if (t < L)
                {
                    slist_add(&node[x]->lnk, head[t]);
                    model[t].push_front(x);
                    where[x] = t;
                }
                else
                {
                    slist_add(&node[x]->lnk, &node[t - L]->lnk);
                    where[x] = where[t - L];
                    list_insert(model[where[x]], t - L, true, x);
                }
                st[x] = IN;
                break;
            case K_POP:
            {
                set_tag(model[x].size() == 1 ? "slist_pop_first@last" : "slist_pop_first");
                int want = model[x].front();
                long got;
                if (v & 1)
                {
                    slist_head *r = slist_pop_first(head[x]);
                    if (r == nullptr)
                        bad("pop!=model", "slist_pop_first on a list of %zu returned NULL", model[x].size());
                    got = -1;
                    for (int i = 0; i < N; i++)
                        if (node[i] && r == &node[i]->lnk)
                            got = i;
                }
                else
                    got = slist_pop_first_entry(head[x], sobj, lnk)->id;
                if (got != want)
                    bad("pop!=model", "slist_pop_first(head%d) returned n%ld, reference n%d", x, got, want);
                VF_OK("slist: slist_pop_first returns the first element of the model");
                model[x].pop_front();
                st[want] = FREE;
                where[want] = -1;
                break;
            }
            case K_ADDX:
                set_tag("igris::slist::add_first");
                if (v & 1)
                    xl[t]->add_first(*node[x]);
                else
                    xl[t]->move_front(*node[x]);
                model[LMAX + t].push_front(x);
                st[x] = INX;
                where[x] = t;
                break;
            case K_DESTROY:
                set_tag("free");
                deadaddr[x] = node[x];
                free(node[x]);
                node[x] = nullptr;
                st[x] = DEAD;
                break;
            }
        }
        int find_node(const slist_head *p) const
        {
            for (int i = 0; i < N; i++)
                if (node[i] && p == &node[i]->lnk)
                    return i;
            return -1;
        }
        std::string whois(const slist_head *p) const
        {
            for (int i = 0; i < L; i++)
                if (p == head[i])
                    return "head" + std::to_string(i);
            int i = find_node(p);
            if (i >= 0)
                return "n" + std::to_string(i);
            for (i = 0; i < N; i++)
                if (deadaddr[i] && p == &((const sobj *)deadaddr[i])->lnk)
                    return "freed n" + std::to_string(i);
            return "unknown address";
        }
        const Seq &raw_walk(const slist_head *h, int l, bool cxx)
        {
            static Seq out;
            out.clear();
            int budget = N + 2;
            const slist_head *e = h;
            for (;;)
            {
                const slist_head *nx = e->next;
                if (nx == h)
                    break;
                int i = find_node(nx);
                if (i < 0)
                    bad("structure:stale-link", "%s list %d: %s points at %s", cxx ? "C++" : "C", l, whois(e).c_str(), whois(nx).c_str());
                if (st[i] != (cxx ? INX : IN) || where[i] != l)
                    bad("structure:removed-node-reachable", "n%d is not in %s list %d in the reference but reachable from it", i, cxx ? "C++" : "C", l);
                out.push_back(i);
                if (--budget < 0)
                    bad("structure:cycle", "%s list %d does not return to its head: %s", cxx ? "C++" : "C", l, show(out).c_str());
                e = nx;
            }
            return out;
        }
#define C01_COLLECT(stmt_id)                                                                                                                         \
    {                                                                                                                                                \
        if ((int)got.size() > B)                                                                                                                     \
            bad("structure:cycle", "traversal of list %d exceeds %d steps", l, B);                                                                   \
        got.push_back((int)(stmt_id));                                                                                                               \
    }
        void check()
        {
            const int B = N + 2;
            long buf[NMAX + 4];
            for (int l = 0; l < L; l++)
            {
                slist_head *h = head[l];
                const std::list<int> &m = model[l];
                expect_seq("forward!=model", "raw next walk", l, raw_walk(h, l, false), m);
                VF_OK("slist: forward == model, no stale or removed node reachable");
                static Seq got;
                got.clear();
                slist_head *it;
                sobj *pos;
                observing("slist_for_each");
                slist_for_each(it, h) C01_COLLECT(slist_entry(it, sobj, lnk)->id);
                expect_seq("forward!=model", "slist_for_each", l, got, m);
                got.clear();
                observing("slist_for_each_entry");
                slist_for_each_entry(pos, h, lnk) C01_COLLECT(pos->id);
                expect_seq("forward!=model", "slist_for_each_entry", l, got, m);
                observing("C:slist_for_each*");
                int k = c_sl_each(h, buf, B);
                if (k < 0)
                    bad("structure:cycle", "C slist_for_each of list %d exceeds %d steps", l, B);
                expect_ids("forward!=model", "C slist_for_each", l, buf, k, m);
                k = c_sl_each_entry(h, buf, B);
                if (k < 0)
                    bad("structure:cycle", "C slist_for_each_entry of list %d exceeds %d steps", l, B);
                expect_ids("forward!=model", "C slist_for_each_entry", l, buf, k, m);
                VF_OK("slist: slist_for_each / slist_for_each_entry (C++ and C) == model");
                observing("slist_size");
                if (slist_size(h) != (int)m.size() || !!slist_empty(h) != m.empty())
                    bad("size!=model", "list %d: slist_size=%d slist_empty=%d reference size %zu", l, slist_size(h), slist_empty(h), m.size());
                if (!m.empty() && slist_first_entry(h, sobj, lnk)->id != m.front())
                    bad("first/last!=model", "list %d: slist_first_entry is n%ld, reference n%d", l, slist_first_entry(h, sobj, lnk)->id, m.front());
                VF_OK("slist: slist_size, slist_empty, slist_first_entry == model");
            }
            observing("slist_in");
            for (int x = 0; x < N; x++)
            {
                if (st[x] == DEAD)
                    continue;
                for (int l = 0; l < L; l++)
                {
                    bool in = slist_in(head[l], &node[x]->lnk) != 0, want = st[x] == IN && where[x] == l;
                    if (in != want)
                        bad(want ? "membership!=model" : "structure:removed-node-reachable", "slist_in(head%d, n%d)=%d reference %d", l, x, (int)in, (int)want);
                }
            }
            VF_OK("slist: slist_in of every node == model (popped nodes in no list)");
            for (int l = 0; l < XL; l++)
            {
                XSList &li = *xl[l];
                const std::list<int> &m = model[LMAX + l];
                observing("igris::slist iteration");
                static Seq got;
                got.clear();
                for (XSList::iterator it = li.begin(); it != li.end(); ++it)
                    C01_COLLECT(it->id);
                expect_seq("forward!=model", "igris::slist begin()..end() with ++it", l, got, m);
                got.clear();
                for (XSList::iterator it = li.begin(); !(it == li.end()); it++)
                    C01_COLLECT((*it).id);
                expect_seq("forward!=model", "igris::slist begin()..end() with it++", l, got, m);
                got.clear();
                for (sobj &o : li)
                    C01_COLLECT(o.id);
                expect_seq("forward!=model", "igris::slist range-for", l, got, m);
                got.clear();
                // (igris::slist::end() const does not compile when instantiated, so const_iterator cannot be driven)
                if (li.empty() != m.empty())
                    bad("empty!=model", "igris::slist %d: empty()=%d reference size %zu", l, (int)li.empty(), m.size());
                // the C++ list's nodes must not be reachable from any C list and vice versa: raw walk through the iterator's link
                expect_seq("forward!=model", "raw next walk of the igris::slist", l, raw_walk(li.end().current, l, true), m);
                VF_OK("slist: igris::slist iteration (iterator, range-for) and empty() == model");
            }
            uint64_t hsh = 0x511;
            for (int l = 0; l < L; l++)
            {
                hsh = vf::mix(hsh, 1000 + l);
                for (int id : model[l])
                    hsh = vf::mix(hsh, (uint64_t)id);
            }
            for (int id : model[LMAX])
                hsh = vf::mix(hsh, 50 + (uint64_t)id);
            for (int x = 0; x < N; x++)
                hsh = vf::mix(hsh, st[x]);
            vf::state(N <= 4 ? hsh : shape_hash(0x512, N, L, model, (int)LMAX + (int)XL, (const uint8_t *)st));
        }
#undef C01_COLLECT
        void teardown(uint64_t)
        {
            for (int l = 0; l < L; l++)
            {
                static Seq got;
                got.clear();
                int guard = N + 2;
                while (!slist_empty(head[l]))
                {
                    slist_head *r = slist_pop_first(head[l]);
                    int i = find_node(r);
                    if (i < 0 || --guard < 0)
                        bad("structure:stale-link", "draining list %d pops %s", l, whois(r).c_str());
                    got.push_back(i);
                    st[i] = FREE;
                }
                expect_seq("forward!=model", "draining with slist_pop_first", l, got, model[l]);
                if (!slist_empty(head[l]))
                    bad("empty!=model", "list %d not empty after popping everything", l);
                model[l].clear();
                VF_OK("slist: popping until empty yields the model order and leaves an empty head");
            }
            for (int l = 0; l < XL; l++)
            {
                delete xl[l];
                xl[l] = nullptr;
            }
            for (int x = 0; x < N; x++)
                if (node[x])
                {
                    free(node[x]);
                    node[x] = nullptr;
                }
            for (int l = 0; l < L; l++)
            {
                free(head[l]);
                head[l] = nullptr;
            }
        }
    };
} // namespace c01
