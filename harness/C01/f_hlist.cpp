// C01 — hlist flavour: exhaustive and random history suites (see lists.cpp for the overview)
#include "w_hlist.h"
C01_SUITES(HL, hlist)
