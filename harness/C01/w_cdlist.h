// C01 — world of C `struct dlist_head` lists (igris/datastruct/dlist.h).
#pragma once
#include "cobjs.h"
#include "common.h"

namespace c01
{
    struct CDL
    {
        enum St : uint8_t
        {
            DEAD, // freed
            RAW,  // allocated, links are garbage (never initialised)
            UNL,  // dlist_init'ed or dlist_del_init'ed: self-linked
            POI,  // dlist_del'ed: poisoned links, "undefined state"
            IN    // member of list where[x]
        };
        enum Kind
        {
            K_CREATE,
            K_INIT,
            K_ADD_NEXT,
            K_ADD_PREV,
            K_DEL,
            K_DEL_INIT,
            K_MOVE,
            K_MOVE_TAIL,
            K_MOVE_SORTED,
            K_INSTEAD,
            K_HEAD_REPLACE,
            K_DESTROY,
            K_COUNT
        };
        static const char *name() { return "cdlist"; }
        static const char *kind_name(int k)
        {
            static const char *n[] = {"create", "dlist_init", "dlist_add_next", "dlist_add_prev", "dlist_del", "dlist_del_init", "dlist_move",
                                      "dlist_move_tail", "dlist_move_sorted", "dlist_insert_instead", "dlist_insert_instead(heads)", "free"};
            return n[k];
        }
        static int depth_quick() { return 4; }
        static int depth_thorough() { return 5; }
        static int leaf_sample_den(bool thorough) { return thorough ? 16 : 1; }
        static uint64_t random_quick() { return 2000; }
        static uint64_t random_thorough() { return 100000; }
        static bool is_removal_or_move(int k) { return k == K_DEL || k == K_DEL_INIT || k == K_MOVE || k == K_MOVE_TAIL || k == K_INSTEAD || k == K_HEAD_REPLACE; }
        static int alphabet_of(int N, int L) { return K_COUNT * N * (N + L); }

        int N, L, T;
        cobj *node[NMAX];
        const void *deadaddr[NMAX];
        St st[NMAX];
        int where[NMAX];
        dlist_head *head[LMAX];
        std::list<int> model[LMAX];

        static long key_of(int id) { return (id * 7) % 5; }

        CDL(int n, int l, bool populated) : N(n), L(l), T(n + l)
        {
            for (int i = 0; i < L; i++)
            {
                head[i] = (dlist_head *)malloc(sizeof(dlist_head));
                if (i & 1)
                    dlist_init(head[i]);
                else
                {
                    dlist_head tmp = DLIST_HEAD_INIT(*head[i]);
                    *head[i] = tmp;
                }
            }
            for (int i = 0; i < N; i++)
            {
                node[i] = nullptr;
                deadaddr[i] = nullptr;
                st[i] = DEAD;
                where[i] = -1;
                if (populated)
                    create(i, true);
            }
        }
        void create(int x, bool init)
        {
            node[x] = (cobj *)malloc(sizeof(cobj));
            memset(node[x], 0xA5, sizeof(cobj)); // garbage links: dereferencing them faults
            node[x]->id = x;
            node[x]->key = key_of(x);
            st[x] = RAW;
            if (init)
            {
                dlist_init(&node[x]->lnk);
                st[x] = UNL;
            }
        }
        int alphabet() const { return alphabet_of(N, L); }
        int kind_of(int code) const { return code / (N * T); }
        void touched(int code, int &a, int &b) const
        {
            int k = kind_of(code), x = (code / T) % N, t = code % T;
            a = k == K_HEAD_REPLACE ? -1 : x;
            b = (t >= L && (k == K_ADD_NEXT || k == K_ADD_PREV || k == K_MOVE || k == K_MOVE_TAIL || k == K_INSTEAD)) ? t - L : -1;
        }
        static std::string describe(int code, int N, int L)
        {
            int T = N + L, k = code / (N * T), x = (code / T) % N, t = code % T;
            char b[96];
            auto tgt = [&](int t) -> std::string { return t < L ? "head" + std::to_string(t) : "n" + std::to_string(t - L); };
            switch (k)
            {
            case K_CREATE:
            case K_INIT:
            case K_DEL:
            case K_DEL_INIT:
            case K_DESTROY:
                snprintf(b, sizeof b, "%s(n%d)", kind_name(k), x);
                break;
            case K_HEAD_REPLACE:
                snprintf(b, sizeof b, "dlist_insert_instead(head%d, head%d)", x, t);
                break;
            default:
                snprintf(b, sizeof b, "%s(n%d, %s)", kind_name(k), x, tgt(t).c_str());
            }
            return b;
        }
        bool unlinked_state(int x) const { return st[x] == RAW || st[x] == UNL || st[x] == POI; }
        bool target_in_list(int t) const { return t < L || st[t - L] == IN; }
        bool legal(int code) const
        {
            int k = kind_of(code), x = (code / T) % N, t = code % T;
            if (k >= K_COUNT)
                return false;
            switch (k)
            {
            case K_CREATE:
                return t == 0 && st[x] == DEAD;
            case K_INIT:
                return t == 0 && (st[x] == RAW || st[x] == POI);
            case K_ADD_NEXT:
            case K_ADD_PREV:
                return unlinked_state(x) && target_in_list(t);
            case K_DEL:
                return t == 0 && st[x] == IN;
            case K_DEL_INIT:
                return t == 0 && (st[x] == IN || st[x] == UNL);
            case K_MOVE:
            case K_MOVE_TAIL:
                return (st[x] == IN || st[x] == UNL) && (t < L || t - L == x || st[t - L] == IN);
            case K_MOVE_SORTED:
                return st[x] == UNL && t < L; // DESIGN: only on unlinked nodes (the macro does not unlink)
            case K_INSTEAD:
                return unlinked_state(x) && t >= L && st[t - L] == IN;
            case K_HEAD_REPLACE:
                return x < L && t < L && x != t && model[x].empty();
            case K_DESTROY:
                return t == 0 && unlinked_state(x);
            }
            return false;
        }
        int propose(vf::Rng &r) const
        {
            int k = (int)r.below(K_COUNT), x = (int)r.below(N), t = (int)r.below(T);
            if (k == K_CREATE || k == K_INIT || k == K_DEL || k == K_DEL_INIT || k == K_DESTROY)
                t = 0;
            if ((k == K_MOVE || k == K_MOVE_TAIL) && r.chance(1, 6))
                t = L + x; // self-move
            if ((k == K_MOVE || k == K_MOVE_TAIL) && st[x] == IN && r.chance(1, 5))
            {
                // current neighbour
                const std::list<int> &m = model[where[x]];
                auto it = std::find(m.begin(), m.end(), x);
                if (r.chance(1, 2))
                    t = it == m.begin() ? where[x] : L + *std::prev(it);
                else
                    t = std::next(it) == m.end() ? where[x] : L + *std::next(it);
            }
            if (k == K_DESTROY && r.chance(2, 3))
                return -1; // keep populations up
            return (k * N + x) * T + t;
        }
        dlist_head *target(int t) { return t < L ? head[t] : &node[t - L]->lnk; }
        int list_of_target(int t) const { return t < L ? t : where[t - L]; }
        void model_insert(int x, int t, bool after)
        {
            int l = list_of_target(t);
            if (t < L)
            {
                if (after)
                    model[l].push_front(x);
                else
                    model[l].push_back(x);
            }
            else
                list_insert(model[l], t - L, after, x);
            st[x] = IN;
            where[x] = l;
        }
        void model_remove(int x, St to)
        {
            if (st[x] == IN)
                model[where[x]].remove(x);
            st[x] = to;
            where[x] = -1;
        }
        const char *relation(int x, int t) const
        {
            if (t < L)
                return "head";
            if (t - L == x)
                return "self";
            if (st[x] == IN && st[t - L] == IN && where[x] == where[t - L])
            {
                const std::list<int> &m = model[where[x]];
                auto it = std::find(m.begin(), m.end(), x);
                if (it != m.begin() && *std::prev(it) == t - L)
                    return "prev-neighbour";
                if (std::next(it) != m.end() && *std::next(it) == t - L)
                    return "next-neighbour";
                return "same-list";
            }
            return "node";
        }
        void apply(int code, uint64_t v)
        {
            int k = kind_of(code), x = (code / T) % N, t = code % T;
            static int ids[K_COUNT];
            static bool have;
            if (!have)
            {
                for (int i = 0; i < K_COUNT; i++)
                {
                    char nm[90];
                    snprintf(nm, sizeof nm, "op cdlist %s", kind_name(i));
                    ids[i] = vf::clause_id(nm);
                }
                have = true;
            }
            vf::clause_hit(ids[k]);
            switch (k)
            {
            case K_CREATE:
                set_tag("create");
                create(x, v & 1);
                break;
            case K_INIT:
                set_tag("dlist_init");
                dlist_init(&node[x]->lnk);
                st[x] = UNL;
                break;
            case K_ADD_NEXT:
                set_tag("dlist_add_next@%s", relation(x, t));
                if (v & 1)
                    dlist_add_next(&node[x]->lnk, target(t));
                else
                    dlist_add(&node[x]->lnk, target(t));
                model_insert(x, t, true);
                break;
            case K_ADD_PREV:
                set_tag("dlist_add_prev@%s", relation(x, t));
                if (v & 1)
                    dlist_add_prev(&node[x]->lnk, target(t));
                else
                    dlist_add_tail(&node[x]->lnk, target(t));
                model_insert(x, t, false);
                break;
            case K_DEL:
                set_tag("dlist_del");
                dlist_del(&node[x]->lnk);
                model_remove(x, POI);
                break;
            case K_DEL_INIT:
                set_tag(st[x] == UNL ? "dlist_del_init@unlinked" : "dlist_del_init");
                dlist_del_init(&node[x]->lnk);
                model_remove(x, UNL);
                break;
            case K_MOVE:
            case K_MOVE_TAIL:
            {
                bool after = k == K_MOVE;
                set_tag("%s@%s%s", after ? "dlist_move" : "dlist_move_tail", relation(x, t), st[x] == UNL ? ",unlinked" : "");
                bool self = t == L + x;
                dlist_head *tp = target(t);
                if (after)
                    dlist_move(&node[x]->lnk, tp);
                else if (v & 1)
                    dlist_move_tail(&node[x]->lnk, tp);
                else
                    dlist_move_prev(&node[x]->lnk, tp);
                if (self)
                {
                    // DESIGN 3a: x is either where it was or unlinked; everything else is decided by the check
                    if (node[x]->lnk.next == &node[x]->lnk && node[x]->lnk.prev == &node[x]->lnk)
                        model_remove(x, UNL);
                    else if (st[x] == UNL)
                        bad("self-move:unlinked-node-changed", "n%d was unlinked, after moving it next to itself it is not self-linked", x);
                    VF_OK("cdlist: self-move leaves x in place or unlinked");
                }
                else
                {
                    model_remove(x, UNL);
                    model_insert(x, t, after);
                }
                break;
            }
            case K_MOVE_SORTED:
            {
                set_tag("dlist_move_sorted");
                cobj *added = node[x];
                if (v & 1)
                    c_dl_move_sorted(added, head[t]);
                else
                    dlist_move_sorted(added, head[t], lnk, C01_KEY_LESS);
                // reference: before the first element whose key is greater
                std::list<int> &m = model[t];
                auto it = m.begin();
                while (it != m.end() && !(key_of(x) < key_of(*it)))
                    ++it;
                m.insert(it, x);
                st[x] = IN;
                where[x] = t;
                break;
            }
            case K_INSTEAD:
            {
                set_tag("dlist_insert_instead");
                int y = t - L, l = where[y];
                dlist_insert_instead(&node[x]->lnk, &node[y]->lnk);
                list_insert(model[l], y, false, x);
                st[x] = IN;
                where[x] = l;
                model_remove(y, UNL);
                break;
            }
            case K_HEAD_REPLACE:
            {
                set_tag(model[t].empty() ? "dlist_insert_instead(heads)@empty" : "dlist_insert_instead(heads)");
                dlist_insert_instead(head[x], head[t]);
                model[x].swap(model[t]);
                for (int id : model[x])
                    where[id] = x;
                break;
            }
            case K_DESTROY:
                set_tag("free");
                deadaddr[x] = node[x];
                free(node[x]);
                node[x] = nullptr;
                st[x] = DEAD;
                break;
            }
        }

        // ------------------------------------------------------------ monitors
        struct Ent
        {
            int kind; // 0 none, 1 head, 2 node
            int idx;
        };
        Ent lookup(const dlist_head *p) const
        {
            for (int i = 0; i < L; i++)
                if (p == head[i])
                    return Ent{1, i};
            for (int i = 0; i < N; i++)
                if (node[i] && p == &node[i]->lnk)
                    return Ent{2, i};
            return Ent{0, -1};
        }
        std::string whois(const dlist_head *p) const
        {
            Ent e = lookup(p);
            if (e.kind == 1)
                return "head" + std::to_string(e.idx);
            if (e.kind == 2)
                return "n" + std::to_string(e.idx);
            for (int i = 0; i < N; i++)
                if (deadaddr[i] && p == &((const cobj *)deadaddr[i])->lnk)
                    return "freed n" + std::to_string(i);
            if (p == DLIST_POISON1 || p == DLIST_POISON2)
                return "poison";
            return "unknown address";
        }
        const Seq &raw_walk(int l, bool fwd)
        {
            const dlist_head *h = head[l], *e = h;
            static Seq out;
            out.clear();
            int budget = N + L + 2;
            for (;;)
            {
                const dlist_head *nx = fwd ? e->next : e->prev;
                Ent r = lookup(nx);
                if (r.kind == 0)
                    bad("structure:stale-link", "list %d %s: %s points at %s", l, fwd ? "forward" : "backward", whois(e).c_str(), whois(nx).c_str());
                if ((fwd ? nx->prev : nx->next) != e)
                    bad("structure:backlink", "list %d: %s->%s is %s but %s->%s is %s", l, whois(e).c_str(), fwd ? "next" : "prev", whois(nx).c_str(),
                        whois(nx).c_str(), fwd ? "prev" : "next", whois(fwd ? nx->prev : nx->next).c_str());
                if (nx == h)
                    break;
                if (r.kind == 1)
                    bad("structure:foreign-head", "list %d reaches head%d", l, r.idx);
                if (st[r.idx] != IN || where[r.idx] != l)
                    bad("structure:removed-node-reachable", "n%d is %s in the reference but reachable from list %d", r.idx,
                        st[r.idx] == IN ? "in another list" : "not in any list", l);
                out.push_back(r.idx);
                if (--budget < 0)
                    bad("structure:cycle", "list %d does not return to its head within %d steps: %s", l, N + L + 2, show(out).c_str());
                e = nx;
            }
            return out;
        }
        void walk_all()
        {
            for (int l = 0; l < L; l++)
            {
                expect_seq("forward!=model", "raw next walk", l, raw_walk(l, true), model[l]);
                expect_seq("backward!=reverse(model)", "raw prev walk", l, raw_walk(l, false), model[l], true);
            }
            VF_OKN("cdlist: forward == model, backward == reverse, neighbours point back, no stale/foreign/removed node reachable", L);
        }
#define C01_COLLECT(stmt_id)                                                                                                                         \
    {                                                                                                                                                \
        if ((int)got.size() > B)                                                                                                                     \
            bad("structure:cycle", "macro traversal of list %d exceeds %d steps", l, B);                                                             \
        got.push_back((int)(stmt_id));                                                                                                               \
    }
        void observers()
        {
            const int B = N + 2;
            long buf[NMAX + 4];
            for (int l = 0; l < L; l++)
            {
                dlist_head *h = head[l];
                const std::list<int> &m = model[l];
                int n = (int)m.size();
                static Seq got;
                got.clear();
                dlist_head *it, *nx;
                cobj *pos, *npos;
                observing("dlist_for_each");
                got.clear();
                dlist_for_each(it, h) C01_COLLECT(dlist_entry(it, cobj, lnk)->id);
                expect_seq("forward!=model", "dlist_for_each", l, got, m);
                observing("dlist_for_each_reverse");
                got.clear();
                dlist_for_each_reverse(it, h) C01_COLLECT(dlist_entry(it, cobj, lnk)->id);
                expect_seq("backward!=reverse(model)", "dlist_for_each_reverse", l, got, m, true);
                observing("dlist_for_each_safe");
                got.clear();
                dlist_for_each_safe(it, nx, h) C01_COLLECT(dlist_entry(it, cobj, lnk)->id);
                expect_seq("forward!=model", "dlist_for_each_safe", l, got, m);
                observing("dlist_for_each_entry");
                got.clear();
                dlist_for_each_entry(pos, h, lnk) C01_COLLECT(pos->id);
                expect_seq("forward!=model", "dlist_for_each_entry", l, got, m);
                observing("dlist_for_each_entry_reverse");
                got.clear();
                dlist_for_each_entry_reverse(pos, h, lnk) C01_COLLECT(pos->id);
                expect_seq("backward!=reverse(model)", "dlist_for_each_entry_reverse", l, got, m, true);
                observing("dlist_for_each_entry_safe");
                got.clear();
                dlist_for_each_entry_safe(pos, npos, h, lnk) C01_COLLECT(pos->id);
                expect_seq("forward!=model", "dlist_for_each_entry_safe", l, got, m);
                VF_OK("cdlist: dlist_for_each{,_reverse,_safe,_entry,_entry_reverse,_entry_safe} (C++) == model");

                observing("C:dlist_for_each*");
                struct
                {
                    const char *nm;
                    int (*fn)(dlist_head *, long *, int);
                    bool rev;
                } cw[] = {{"C dlist_for_each", c_dl_each, false},
                          {"C dlist_for_each_reverse", c_dl_each_reverse, true},
                          {"C dlist_for_each_safe", c_dl_each_safe, false},
                          {"C dlist_for_each_entry", c_dl_each_entry, false},
                          {"C dlist_for_each_entry_reverse", c_dl_each_entry_reverse, true},
                          {"C dlist_for_each_entry_safe", c_dl_each_entry_safe, false}};
                for (auto &w : cw)
                {
                    int k = w.fn(h, buf, B);
                    if (k < 0)
                        bad("structure:cycle", "%s of list %d exceeds %d steps", w.nm, l, B);
                    expect_ids(w.rev ? "backward!=reverse(model)" : "forward!=model", w.nm, l, buf, k, m, w.rev);
                }
                VF_OK("cdlist: the six traversal macros compiled as C == model");

                observing("dlist_size...");
                int sz = dlist_size(h), rsz = dlist_size_reversed(h);
                if (sz != n || rsz != n)
                    bad("size!=model", "list %d: dlist_size=%d dlist_size_reversed=%d reference %d", l, sz, rsz, n);
                if (!!dlist_empty(h) != (n == 0) || !!dlist_is_linked(h) != (n != 0))
                    bad("empty!=model", "list %d: dlist_empty=%d dlist_is_linked(head)=%d reference size %d", l, dlist_empty(h), dlist_is_linked(h), n);
                int ck = dlist_check(h, 1000), rck = dlist_check_reversed(h, 1000);
                if (ck != n || rck != n || !dlist_is_correct(h))
                    bad("dlist_check!=model", "list %d: dlist_check=%d dlist_check_reversed=%d dlist_is_correct=%d reference size %d", l, ck, rck,
                        (int)dlist_is_correct(h), n);
                if (n)
                {
                    cobj *f = dlist_first_entry(h, cobj, lnk), *b = dlist_last_entry(h, cobj, lnk);
                    if (f->id != m.front() || b->id != m.back())
                        bad("first/last!=model", "list %d: first=%ld last=%ld reference %d,%d", l, f->id, b->id, m.front(), m.back());
                    if (n >= 2)
                    {
                        cobj *s = dlist_next_entry(f, lnk), *p = dlist_prev_entry(b, lnk);
                        if (s->id != *std::next(m.begin()) || p->id != *std::next(m.rbegin()))
                            bad("first/last!=model", "list %d: second=%ld last-but-one=%ld", l, s->id, p->id);
                    }
                }
                VF_OK("cdlist: dlist_size, dlist_size_reversed, dlist_empty, dlist_check(+_reversed), dlist_is_correct, first/last entry == model");
            }
        }
        bool node_clauses()
        {
            bool redundant = false;
            observing("dlist_in");
            for (int x = 0; x < N; x++)
            {
                if (st[x] == DEAD)
                    continue;
                dlist_head *p = &node[x]->lnk;
                for (int l = 0; l < L; l++)
                {
                    bool in = dlist_in(p, head[l]) != 0, want = st[x] == IN && where[x] == l;
                    if (in != want)
                        bad(want ? "membership!=model" : "structure:removed-node-reachable", "dlist_in(n%d, head%d)=%d reference %d", x, l, (int)in, (int)want);
                }
                if (st[x] == IN && !dlist_is_linked(p))
                    bad("membership!=model", "dlist_is_linked(n%d)=0 but the node is in list %d", x, where[x]);
                if (st[x] == UNL)
                {
                    if (p->next != p || p->prev != p || !dlist_empty(p) || dlist_is_linked(p))
                        bad("unlinked-node-not-self-linked", "n%d was dlist_init'ed / dlist_del_init'ed but next=%s prev=%s", x, whois(p->next).c_str(),
                            whois(p->prev).c_str());
                    dlist_del_init(p); // removing it again must be harmless (lists are re-walked afterwards)
                    if (p->next != p || p->prev != p)
                        bad("unlinked-node-not-self-linked", "n%d not self-linked after a second dlist_del_init", x);
                    redundant = true;
                    VF_OK("cdlist: del_init'ed node is self-linked; deleting it again changes nothing");
                }
            }
            VF_OK("cdlist: dlist_in / dlist_is_linked of every node == model (removed nodes in no list)");
            return redundant;
        }
        uint64_t state_hash() const
        {
            uint64_t h = 0xCD1;
            for (int l = 0; l < L; l++)
            {
                h = vf::mix(h, 1000 + l);
                for (int id : model[l])
                    h = vf::mix(h, (uint64_t)id);
            }
            for (int x = 0; x < N; x++)
                h = vf::mix(h, st[x] == IN ? 9 : st[x]);
            return h;
        }
        void check()
        {
            walk_all();
            observers();
            if (node_clauses())
                walk_all();
            vf::state(N <= 4 ? state_hash() : shape_hash(0xCD2, N, L, model, L, (const uint8_t *)st));
        }
        void teardown(uint64_t v)
        {
            const int B = N + 2;
            for (int l = 0; l < L; l++)
            {
                static Seq got;
                got.clear();
                dlist_head *it, *nx;
                cobj *pos, *npos;
                switch ((v + l) % 3)
                {
                case 0:
                    dlist_for_each_safe(it, nx, head[l])
                    {
                        C01_COLLECT(dlist_entry(it, cobj, lnk)->id);
                        dlist_del_init(it);
                    }
                    break;
                case 1:
                    dlist_for_each_entry_safe(pos, npos, head[l], lnk)
                    {
                        C01_COLLECT(pos->id);
                        dlist_del(&pos->lnk);
                    }
                    break;
                default:
                    while (!dlist_empty(head[l]))
                    {
                        it = head[l]->next;
                        C01_COLLECT(dlist_entry(it, cobj, lnk)->id);
                        dlist_del_init(it);
                    }
                }
                expect_seq("forward!=model", "draining traversal (for_each_safe + del)", l, got, model[l]);
                if (!dlist_empty(head[l]) || head[l]->prev != head[l])
                    bad("empty!=model", "list %d not empty after removing every node", l);
                for (int id : model[l])
                {
                    st[id] = UNL;
                    where[id] = -1;
                }
                model[l].clear();
                VF_OK("cdlist: removing every node during a _safe traversal visits the model order and leaves an empty head");
            }
            for (int x = 0; x < N; x++)
                if (node[x])
                {
                    free(node[x]);
                    node[x] = nullptr;
                    st[x] = DEAD;
                }
            for (int l = 0; l < L; l++)
            {
                free(head[l]);
                head[l] = nullptr;
            }
        }
#undef C01_COLLECT
        ~CDL()
        {
        }
    };
} // namespace c01
