// C01 — intrusive lists under enumerated and random operation histories.
// After every operation: raw structural walk of every list (neighbours point back, nothing stale / foreign / removed is
// reachable, step-bounded so a cycle is reported instead of hanging), comparison with std::list<int> per list through the raw
// links and through every public observer (iterators, *_for_each* macros compiled as C++ and as C, size/empty/membership).
// Nodes and heads are individual heap blocks that are really freed, so a stale link that igris follows is an ASan report.
#define VF_MAIN
#include "vf.h"
#include "common.h"
#include "cobjs.h"
#include <igris/container/dlist.h>
#include <cstddef>

using namespace c01;

void c01_require_cdlist();
void c01_require_xdlist();
void c01_require_slist();
void c01_require_hlist();

// member.h / memberxx.h used directly (they are what every *_entry macro and iterator rests on)
static uint64_t member_count() { return 1; }
static void member_run(uint64_t)
{
    ctx().flavour = "member";
    set_tag("member.h");
    cobj c;
    sobj s;
    hobj h;
    if (member_offsetof(cobj, lnk) != offsetof(cobj, lnk) || member_offsetof(sobj, lnk) != offsetof(sobj, lnk) || member_offsetof(hobj, lnk) != offsetof(hobj, lnk) ||
        c_offsets(0) != offsetof(cobj, lnk) || c_offsets(1) != offsetof(sobj, lnk) || c_offsets(2) != offsetof(hobj, lnk))
        vf::fail("member:offsetof", "member_offsetof disagrees with offsetof");
    if (member_sizeof(cobj, lnk) != sizeof(dlist_head) || c_offsets(3) != sizeof(dlist_head) || c_offsets(4) != sizeof(hlist_node))
        vf::fail("member:sizeof", "member_sizeof / member_typeof disagree with sizeof");
    if (mcast_out(&c.lnk, cobj, lnk) != &c || mcast_in(&c, lnk) != &c.lnk || mcast_out(&s.lnk, sobj, lnk) != &s || mcast_out(&h.lnk, hobj, lnk) != &h)
        vf::fail("member:mcast", "mcast_out(mcast_in(p)) != p");
    cobj *np = nullptr;
    dlist_head *nl = nullptr;
    if (mcast_in_or_null(np, lnk) != nullptr || mcast_in_or_null(&c, lnk) != &c.lnk || mcast_out_or_null(nl, cobj, lnk) != nullptr ||
        mcast_out_or_null(&c.lnk, cobj, lnk) != &c)
        vf::fail("member:mcast_or_null", "the _or_null casts do not map NULL to NULL / p to its container");
    struct XObj
    {
        long id;
        igris::dlist_node lnk;
    } x;
    if (member_offset(&XObj::lnk) != offsetof(XObj, lnk) || member_container(&x.lnk, &XObj::lnk) != &x)
        vf::fail("member:memberxx", "member_offset / member_container disagree with offsetof");
    VF_OK("member.h / memberxx.h: offsetof, sizeof, container casts (incl. _or_null) agree with the language's own");
    vf::count_case(0xC01AAA, false);
}
VF_SUITE(member, member_count, member_run)

extern "C" void vf_setup()
{
    for (const char *c : {
             "cdlist: forward == model, backward == reverse, neighbours point back, no stale/foreign/removed node reachable",
             "cdlist: dlist_for_each{,_reverse,_safe,_entry,_entry_reverse,_entry_safe} (C++) == model",
             "cdlist: the six traversal macros compiled as C == model",
             "cdlist: dlist_size, dlist_size_reversed, dlist_empty, dlist_check(+_reversed), dlist_is_correct, first/last entry == model",
             "cdlist: dlist_in / dlist_is_linked of every node == model (removed nodes in no list)",
             "cdlist: del_init'ed node is self-linked; deleting it again changes nothing",
             "cdlist: self-move leaves x in place or unlinked",
             "cdlist: removing every node during a _safe traversal visits the model order and leaves an empty head",
             "xdlist: forward == model, backward == reverse, neighbours point back, no stale/foreign/removed node reachable",
             "xdlist: iterator / reverse_iterator / range-for / const iteration == model",
             "xdlist: size, empty, is_correct, front/first/back, first_node/last_node == model",
             "xdlist: is_linked / is_unlinked / empty / circular_size / member_container of every node == model",
             "xdlist: unlinked node is self-linked; unlinking it again changes nothing",
             "xdlist: self-move leaves x in place or unlinked",
             "xdlist: destroying nodes and lists in any order keeps the survivors consistent",
             "xdlist: nodes left behind by unlink_and_move_all_nodes_from_other stay a consistent ring, in no list",
             "slist: forward == model, no stale or removed node reachable",
             "slist: slist_for_each / slist_for_each_entry (C++ and C) == model",
             "slist: slist_size, slist_empty, slist_first_entry == model",
             "slist: slist_in of every node == model (popped nodes in no list)",
             "slist: slist_pop_first returns the first element of the model",
             "slist: igris::slist iteration (iterator, range-for) and empty() == model",
             "slist: popping until empty yields the model order and leaves an empty head",
             "hlist: forward == model, *n->pprev == n for every linked node, no stale or removed node reachable",
             "hlist: hlist_for_each / hlist_for_each_entry (C++ and C) == model",
             "hlist: emptiness and hlist_first_entry == model",
             "hlist: deleting every node (front to back / back to front) visits the model order and empties the head",
             "member.h / memberxx.h: offsetof, sizeof, container casts (incl. _or_null) agree with the language's own",
         })
        vf::require(c);
    // every operation kind must have been driven
    c01_require_cdlist();
    c01_require_xdlist();
    c01_require_slist();
    c01_require_hlist();
}
