// C01 — intrusive lists under enumerated and random operation histories.
// After every operation: raw structural walk of every list (neighbours point back, nothing stale / foreign / removed is
// reachable, step-bounded so a cycle is reported instead of hanging), comparison with std::list<int> per list through the raw
// links and through every public observer (iterators, *_for_each* macros compiled as C++ and as C, size/empty/membership).
// Nodes and heads are individual heap blocks that are really freed, so a stale link that igris follows is an ASan report.
#define VF_MAIN
#include "vf.h"
#include "common.h"
#include "w_cdlist.h"
#include "w_hlist.h"
#include "w_slist.h"
#include "w_xdlist.h"
#include <cstddef>

using namespace c01;

// triage aid (not used by the registered check): C01_ONLY=<substring of a suite name> runs only matching suites,
// C01_MAXCASES=n caps every suite; required clauses then report "observed nothing", which is expected
static uint64_t limited(const char *suite, uint64_t n)
{
    const char *only = getenv("C01_ONLY"), *mx = getenv("C01_MAXCASES");
    if (only && *only && !strstr(suite, only))
        return 0;
    if (mx && *mx && strtoull(mx, nullptr, 0) < n)
        return strtoull(mx, nullptr, 0);
    return n;
}
#define C01_SUITES(W, tag)                                                                                                                           \
    static uint64_t tag##_dfs_count() { return limited(#tag "_dfs", Runner<W>::dfs_count()); }                                                      \
    static void tag##_dfs_run(uint64_t i) { Runner<W>::dfs_run(i); }                                                                                \
    static uint64_t tag##_rnd_count() { return limited(#tag "_rnd", Runner<W>::rnd_count()); }                                                      \
    static void tag##_rnd_run(uint64_t i) { Runner<W>::rnd_run(i); }                                                                                \
    VF_SUITE(tag##_dfs, tag##_dfs_count, tag##_dfs_run)                                                                                             \
    VF_SUITE(tag##_rnd, tag##_rnd_count, tag##_rnd_run)

C01_SUITES(CDL, cdlist)
C01_SUITES(XDL, xdlist)
C01_SUITES(SL, slist)
C01_SUITES(HL, hlist)

// member.h / memberxx.h used directly (they are what every *_entry macro and iterator rests on)
static uint64_t member_count() { return 1; }
static void member_run(uint64_t)
{
    ctx().flavour = "member";
    set_tag("member.h");
    cobj c;
    sobj s;
    hobj h;
    if (member_offsetof(cobj, lnk) != offsetof(cobj, lnk) || member_offsetof(sobj, lnk) != offsetof(sobj, lnk) || member_offsetof(hobj, lnk) != offsetof(hobj, lnk) ||
        c_offsets(0) != offsetof(cobj, lnk) || c_offsets(1) != offsetof(sobj, lnk) || c_offsets(2) != offsetof(hobj, lnk))
        vf::fail("member:offsetof", "member_offsetof disagrees with offsetof");
    if (member_sizeof(cobj, lnk) != sizeof(dlist_head) || c_offsets(3) != sizeof(dlist_head) || c_offsets(4) != sizeof(hlist_node))
        vf::fail("member:sizeof", "member_sizeof / member_typeof disagree with sizeof");
    if (mcast_out(&c.lnk, cobj, lnk) != &c || mcast_in(&c, lnk) != &c.lnk || mcast_out(&s.lnk, sobj, lnk) != &s || mcast_out(&h.lnk, hobj, lnk) != &h)
        vf::fail("member:mcast", "mcast_out(mcast_in(p)) != p");
    cobj *np = nullptr;
    dlist_head *nl = nullptr;
    if (mcast_in_or_null(np, lnk) != nullptr || mcast_in_or_null(&c, lnk) != &c.lnk || mcast_out_or_null(nl, cobj, lnk) != nullptr ||
        mcast_out_or_null(&c.lnk, cobj, lnk) != &c)
        vf::fail("member:mcast_or_null", "the _or_null casts do not map NULL to NULL / p to its container");
    XObj x(5);
    if (member_offset(&XObj::lnk) != offsetof(XObj, lnk) || member_container(&x.lnk, &XObj::lnk) != &x)
        vf::fail("member:memberxx", "member_offset / member_container disagree with offsetof");
    VF_OK("member.h / memberxx.h: offsetof, sizeof, container casts (incl. _or_null) agree with the language's own");
    vf::count_case(0xC01AAA, false);
}
VF_SUITE(member, member_count, member_run)

extern "C" void vf_setup()
{
    for (const char *c : {
             "cdlist: forward == model, backward == reverse, neighbours point back, no stale/foreign/removed node reachable",
             "cdlist: dlist_for_each{,_reverse,_safe,_entry,_entry_reverse,_entry_safe} (C++) == model",
             "cdlist: the six traversal macros compiled as C == model",
             "cdlist: dlist_size, dlist_size_reversed, dlist_empty, dlist_check(+_reversed), dlist_is_correct, first/last entry == model",
             "cdlist: dlist_in / dlist_is_linked of every node == model (removed nodes in no list)",
             "cdlist: del_init'ed node is self-linked; deleting it again changes nothing",
             "cdlist: self-move leaves x in place or unlinked",
             "cdlist: removing every node during a _safe traversal visits the model order and leaves an empty head",
             "xdlist: forward == model, backward == reverse, neighbours point back, no stale/foreign/removed node reachable",
             "xdlist: iterator / reverse_iterator / range-for / const iteration == model",
             "xdlist: size, empty, is_correct, front/first/back, first_node/last_node == model",
             "xdlist: is_linked / is_unlinked / empty / circular_size / member_container of every node == model",
             "xdlist: unlinked node is self-linked; unlinking it again changes nothing",
             "xdlist: self-move leaves x in place or unlinked",
             "xdlist: destroying nodes and lists in any order keeps the survivors consistent",
             "xdlist: nodes left behind by unlink_and_move_all_nodes_from_other stay a consistent ring, in no list",
             "slist: forward == model, no stale or removed node reachable",
             "slist: slist_for_each / slist_for_each_entry (C++ and C) == model",
             "slist: slist_size, slist_empty, slist_first_entry == model",
             "slist: slist_in of every node == model (popped nodes in no list)",
             "slist: slist_pop_first returns the first element of the model",
             "slist: slist_pop_first on an empty list returns NULL",
             "slist: igris::slist iteration (iterator, range-for) and empty() == model",
             "slist: popping until NULL yields the model order and leaves an empty head",
             "hlist: forward == model, *n->pprev == n for every linked node, no stale or removed node reachable",
             "hlist: hlist_for_each / hlist_for_each_entry (C++ and C) == model",
             "hlist: emptiness and hlist_first_entry == model",
             "hlist: hlist_del of an initialised, never linked node is harmless",
             "hlist: deleting every node (front to back / back to front) visits the model order and empties the head",
             "member.h / memberxx.h: offsetof, sizeof, container casts (incl. _or_null) agree with the language's own",
         })
        vf::require(c);
    // every operation kind must have been driven
    for (int k = 0; k < CDL::K_COUNT; k++)
        vf::require((std::string("op cdlist ") + CDL::kind_name(k)).c_str());
    for (int k = 0; k < XDL::K_COUNT; k++)
        vf::require((std::string("op xdlist ") + XDL::kind_name(k)).c_str());
    for (int k = 0; k < SL::K_COUNT; k++)
        vf::require((std::string("op slist ") + SL::kind_name(k)).c_str());
    for (int k = 0; k < HL::K_COUNT; k++)
        vf::require((std::string("op hlist ") + HL::kind_name(k)).c_str());
}
