// C01 — slist flavour: exhaustive and random history suites (see lists.cpp for the overview)
#include "w_slist.h"
C01_SUITES(SL, slist)
