// C01 — xdlist flavour: exhaustive and random history suites (see lists.cpp for the overview)
#include "w_xdlist.h"
C01_SUITES(XDL, xdlist)
