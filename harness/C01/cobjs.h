/* C01 — element types shared by the C++ harness and the C-compiled observer TU (clists.c).
 * The link member is deliberately not the first member, so every container_of style cast matters. */
#ifndef C01_COBJS_H
#define C01_COBJS_H
#include <stdbool.h>
#include <stdint.h>
#include <igris/datastruct/dlist.h>
#include <igris/datastruct/hlist.h>
#include <igris/datastruct/slist.h>

struct cobj
{
    long id;
    struct dlist_head lnk;
    long key;
};
struct sobj
{
    long id;
    long pad;
    struct slist_head lnk;
};
struct hobj
{
    long id;
    struct hlist_node lnk;
    long pad;
};

/* comparator for dlist_move_sorted: true for the first element that must follow `added` */
#define C01_KEY_LESS(added, pos) ((added)->key < (pos)->key)

#ifdef __cplusplus
extern "C"
{
#endif
    /* every walker stores at most `max` ids and returns the number of elements visited,
     * or -1 as soon as more than `max` were visited (corrupted / cyclic structure) */
    int c_dl_each(struct dlist_head *h, long *out, int max);
    int c_dl_each_reverse(struct dlist_head *h, long *out, int max);
    int c_dl_each_safe(struct dlist_head *h, long *out, int max);
    int c_dl_each_entry(struct dlist_head *h, long *out, int max);
    int c_dl_each_entry_reverse(struct dlist_head *h, long *out, int max);
    int c_dl_each_entry_safe(struct dlist_head *h, long *out, int max);
    void c_dl_move_sorted(struct cobj *x, struct dlist_head *h);
    int c_sl_each(struct slist_head *h, long *out, int max);
    int c_sl_each_entry(struct slist_head *h, long *out, int max);
    int c_hl_each(struct hlist_head *h, long *out, int max);
    int c_hl_each_entry(struct hlist_head *h, long *out, int max);
    size_t c_offsets(int which);
#ifdef __cplusplus
}
#endif
#endif
