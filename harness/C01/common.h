// C01 — shared pieces of the list harness: reporting context, sequences, history runners.
#pragma once
#include "vf.h"
#include <algorithm>
#include <list>
#include <string>
#include <vector>

namespace c01
{
    enum
    {
        NMAX = 12,
        LMAX = 4
    };
    typedef std::vector<int> Seq;

    // what is running right now (for keys and witnesses)
    struct Ctx
    {
        const char *flavour = "?";
        char optag[72] = "setup";
        const std::vector<int> *codes = nullptr; // history so far (op codes)
        size_t upto = 0;                         // number of codes already applied
        std::string (*describe)(int code, int N, int L) = nullptr;
        int N = 0, L = 0;
    };
    inline Ctx &ctx()
    {
        static Ctx c;
        return c;
    }
    inline std::string history_text(size_t maxchars = 1100)
    {
        Ctx &c = ctx();
        std::string s;
        if (!c.codes || !c.describe)
            return s;
        for (size_t i = 0; i < c.upto && i < c.codes->size(); i++)
        {
            if (i)
                s += "; ";
            s += c.describe((*c.codes)[i], c.N, c.L);
        }
        if (s.size() > maxchars)
            s = "... " + s.substr(s.size() - maxchars);
        return s;
    }
    [[noreturn]] inline void bad(const char *clause, const char *fmt, ...) __attribute__((format(printf, 2, 3)));
    [[noreturn]] inline void bad(const char *clause, const char *fmt, ...)
    {
        char msg[500];
        va_list ap;
        va_start(ap, fmt);
        vsnprintf(msg, sizeof msg, fmt, ap);
        va_end(ap);
        char key[190];
        snprintf(key, sizeof key, "%s:%s:%s", clause, ctx().flavour, ctx().optag);
        vf::fail(key, "%s | nodes=%d lists=%d history(%zu ops): %s", msg, ctx().N, ctx().L, ctx().upto, history_text().c_str());
    }
    inline void set_tag(const char *fmt, ...) __attribute__((format(printf, 1, 2)));
    inline void set_tag(const char *fmt, ...)
    {
        va_list ap;
        va_start(ap, fmt);
        vsnprintf(ctx().optag, sizeof ctx().optag, fmt, ap);
        va_end(ap);
        char c[120];
        snprintf(c, sizeof c, "%s:%s", ctx().flavour, ctx().optag);
        vf::cls(c);
    }
    // tag for crashes inside an observer (macros expand in the harness, so no /repo frame names them)
    // (called ~20 times per check: the formatted tags are cached by literal address)
    inline void observing(const char *what)
    {
        struct Ent
        {
            const char *flavour, *what;
            char text[120];
        };
        static Ent cache[64];
        static int used = 0;
        const char *fl = ctx().flavour;
        Ent *e = nullptr;
        for (int i = 0; i < used; i++)
            if (cache[i].what == what && cache[i].flavour == fl)
            {
                e = &cache[i];
                break;
            }
        if (!e)
        {
            if (used == 64)
                used = 0;
            e = &cache[used++];
            e->flavour = fl;
            e->what = what;
            snprintf(e->text, sizeof e->text, "%s:observe:%s", fl, what);
        }
        memcpy(vf::g().sh->slots[vf::g().worker].cls, e->text, sizeof e->text);
    }

    inline std::string show(const Seq &s)
    {
        std::string r = "[";
        for (size_t i = 0; i < s.size(); i++)
        {
            if (i)
                r += ",";
            r += std::to_string(s[i]);
        }
        return r + "]";
    }
    inline Seq seq_of(const std::list<int> &m, bool reversed = false)
    {
        Seq s(m.begin(), m.end());
        if (reversed)
            std::reverse(s.begin(), s.end());
        return s;
    }
    inline Seq seq_of(const long *ids, int n)
    {
        Seq s;
        for (int i = 0; i < n; i++)
            s.push_back((int)ids[i]);
        return s;
    }
    // compare an observed sequence with the model; `clause` becomes the key prefix
    inline void expect_seq(const char *clause, const char *how, int list, const Seq &got, const std::list<int> &model, bool reversed = false)
    {
        // compare in place (this runs tens of millions of times); build the reference sequence only for the report
        bool same = got.size() == model.size();
        if (same)
        {
            size_t i = 0, n = got.size();
            for (int id : model)
            {
                if (got[reversed ? n - 1 - i : i] != id)
                {
                    same = false;
                    break;
                }
                i++;
            }
        }
        if (same)
            return;
        Seq want = seq_of(model, reversed);
        if (got != want || true)
            bad(clause, "%s of list %d gives %s, reference %s%s", how, list, show(got).c_str(), show(want).c_str(), reversed ? " (reversed)" : "");
    }
    inline void expect_ids(const char *clause, const char *how, int list, const long *ids, int n, const std::list<int> &model, bool reversed = false)
    {
        bool same = (size_t)n == model.size();
        if (same)
        {
            int i = 0;
            for (int id : model)
            {
                if (ids[reversed ? n - 1 - i : i] != id)
                {
                    same = false;
                    break;
                }
                i++;
            }
        }
        if (!same)
            expect_seq(clause, how, list, seq_of(ids, n), model, reversed);
    }
    // state coverage: exact configuration (list contents + node states) for small worlds; for random worlds with more
    // than 4 nodes only the shape (list lengths, number of nodes per state), so the count stays meaningful and bounded
    inline uint64_t shape_hash(uint64_t salt, int N, int L, const std::list<int> *model, int nlists, const uint8_t *st)
    {
        uint64_t h = vf::mix(salt, (uint64_t)N * 16 + L);
        for (int l = 0; l < nlists; l++)
            h = vf::mix(h, 1000 + model[l].size());
        int cnt[8] = {0};
        for (int x = 0; x < N; x++)
            cnt[st[x] & 7]++;
        for (int k = 0; k < 8; k++)
            h = vf::mix(h, (uint64_t)cnt[k]);
        return h;
    }
    inline void list_insert(std::list<int> &m, int target, bool after, int x)
    {
        auto it = std::find(m.begin(), m.end(), target);
        if (it == m.end())
            bad("harness:model", "target %d not in its model list", target);
        if (after)
            ++it;
        m.insert(it, x);
    }

    // ------------------------------------------------------------------ runners
    // A world W provides:
    //   static const char *name();  static int kinds();  static const char *kind_name(int)
    //   static std::string describe(int code, int N, int L)
    //   W(int N, int L, bool populated);  int alphabet() const;  bool legal(int code) const;
    //   void apply(int code, uint64_t variant);  void check();  void teardown(uint64_t variant);
    //   static bool is_removal_or_move(int kind);  int kind_of(int code) const; void touched(int code, int &a, int &b) const
    template <class W> struct Runner
    {
        enum
        {
            DN = 3,
            DL = 2
        };
        static int alphabet()
        {
            return W::alphabet_of(DN, DL);
        }
        static uint64_t variant(const std::vector<int> &h, size_t i)
        {
            uint64_t x = vf::mix(vf::seed(), 0xC01);
            for (size_t k = 0; k <= i; k++)
                x = vf::mix(x, (uint64_t)h[k]);
            return x;
        }
        static bool nontrivial(const W &w, const std::vector<int> &h)
        {
            bool rm = false;
            unsigned touched = 0;
            for (int c : h)
            {
                if (W::is_removal_or_move(w.kind_of(c)))
                    rm = true;
                int a = -1, b = -1;
                w.touched(c, a, b);
                if (a >= 0)
                    touched |= 1u << a;
                if (b >= 0)
                    touched |= 1u << b;
            }
            return rm && __builtin_popcount(touched) >= 2;
        }
        // executes history h in a fresh world: prefix replayed, last operation followed by the full check.
        // returns false if the history is illegal or failed; fills `next` with the legal continuations
        static bool run_history(const std::vector<int> &h, int N, int L, bool populated, bool check_every, std::vector<int> *next, bool count = true)
        {
            Ctx &c = ctx();
            c.flavour = W::name();
            c.codes = &h;
            c.upto = 0;
            c.describe = &W::describe;
            c.N = N;
            c.L = L;
            set_tag("setup");
            W *w = new W(N, L, populated);
            try
            {
                for (size_t i = 0; i < h.size(); i++)
                {
                    if (!w->legal(h[i]))
                    {
                        w->teardown(0);
                        delete w;
                        return false;
                    }
                    if (vf::verbose())
                        printf("  op %zu: %s\n", i, W::describe(h[i], N, L).c_str());
                    c.upto = i + 1;
                    w->apply(h[i], variant(h, i));
                    if (check_every || i + 1 == h.size())
                        w->check();
                }
                if (h.empty())
                    w->check();
                if (next)
                {
                    next->clear();
                    int A = w->alphabet();
                    for (int code = 0; code < A; code++)
                        if (w->legal(code))
                            next->push_back(code);
                }
                uint64_t hh = vf::hash_bytes(h.data(), h.size() * sizeof(int), vf::mix((uint64_t)(uintptr_t)W::name()[0] * 131 + W::name()[1], (uint64_t)N * 16 + L + (populated ? 256 : 0)));
                if (count)
                    vf::count_case(hh, nontrivial(*w, h));
                set_tag("teardown");
                w->teardown(h.empty() ? 0 : variant(h, h.size() - 1));
                delete w;
                return true;
            }
            catch (vf::CaseFailed &)
            {
                // the world may be corrupted: leak it rather than run destructors over it
                return false;
            }
        }
        static int depth()
        {
            return vf::thorough() ? W::depth_thorough() : W::depth_quick();
        }
        static void dfs(std::vector<int> &h, int maxdepth)
        {
            std::vector<int> next;
            if (!run_history(h, DN, DL, true, false, &next))
                return;
            if ((int)h.size() >= maxdepth)
                return;
            // the deepest level may be thinned to a seeded 1/den sample (thorough tier of the big alphabets)
            int den = (int)h.size() + 1 == maxdepth ? W::leaf_sample_den(vf::thorough()) : 1;
            uint64_t hh = den > 1 ? vf::hash_bytes(h.data(), h.size() * sizeof(int), vf::seed()) : 0;
            for (int code : next)
            {
                if (den > 1 && vf::mix(hh, (uint64_t)code) % (uint64_t)den != 0)
                    continue;
                h.push_back(code);
                dfs(h, maxdepth);
                h.pop_back();
            }
        }
        // case idx = (first op, second op); the history consisting of the first op alone is evaluated in the
        // case whose second op is code 0, the empty history in case 0
        static uint64_t dfs_count()
        {
            uint64_t A = alphabet();
            return A * A;
        }
        static void dfs_run(uint64_t idx)
        {
            int A = alphabet();
            int a1 = (int)(idx / A), a2 = (int)(idx % A);
            std::vector<int> h;
            if (idx == 0)
                run_history(h, DN, DL, true, false, nullptr);
            h.push_back(a1);
            // the one-op history is evaluated (and must pass) before anything is built on it: a world that the
            // first operation corrupted must not be driven further or torn down through igris destructors.
            // It is counted once, in the case whose second op is code 0.
            std::vector<int> next;
            if (!run_history(h, DN, DL, true, false, &next, a2 == 0))
                return;
            if (std::find(next.begin(), next.end(), a2) == next.end())
                return;
            h.push_back(a2);
            dfs(h, depth());
        }
        static uint64_t rnd_count()
        {
            return vf::thorough() ? W::random_thorough() : W::random_quick();
        }
        static void rnd_run(uint64_t idx)
        {
            vf::Rng r(vf::seed(), 0xC0100 + (uint64_t)(uintptr_t)W::name()[0], idx);
            int N = r.range(2, NMAX), L = r.range(1, 3);
            bool populated = r.chance(1, 2);
            int steps = 200;
            // generate while executing: legality depends on the state
            Ctx &c = ctx();
            std::vector<int> h;
            h.reserve(steps);
            c.flavour = W::name();
            c.codes = &h;
            c.upto = 0;
            c.describe = &W::describe;
            c.N = N;
            c.L = L;
            set_tag("setup");
            W *w = new W(N, L, populated);
            if (vf::verbose())
                printf("  random history: nodes=%d lists=%d populated=%d\n", N, L, (int)populated);
            try
            {
                w->check();
                int A = w->alphabet();
                for (int s = 0; s < steps; s++)
                {
                    int code = -1;
                    for (int tries = 0; tries < 200; tries++)
                    {
                        int cand = w->propose(r);
                        if (cand >= 0 && cand < A && w->legal(cand))
                        {
                            code = cand;
                            break;
                        }
                    }
                    if (code < 0)
                        break;
                    h.push_back(code);
                    if (vf::verbose())
                        printf("  op %d: %s\n", s, W::describe(code, N, L).c_str());
                    c.upto = h.size();
                    w->apply(code, r.next());
                    w->check();
                }
                uint64_t hh = vf::hash_bytes(h.data(), h.size() * sizeof(int), vf::mix(0xABCD + W::name()[0], (uint64_t)N * 16 + L + (populated ? 256 : 0)));
                vf::count_case(hh, nontrivial(*w, h));
                if (vf::want_sample() && h.size() > 20)
                {
                    std::string s;
                    for (size_t i = 0; i < 6; i++)
                        s += W::describe(h[i], N, L) + "; ";
                    vf::sample("%s random history, %d nodes, %d lists, %zu ops: %s...", W::name(), N, L, h.size(), s.c_str());
                }
                set_tag("teardown");
                w->teardown(r.next());
                delete w;
            }
            catch (vf::CaseFailed &)
            {
            }
        }
    };
    // triage aid (not used by the registered check): C01_ONLY=<substring of a suite name> runs only matching suites,
    // C01_MAXCASES=n caps every suite; required clauses then report "observed nothing", which is expected
    inline uint64_t limited(const char *suite, uint64_t n)
    {
        const char *only = getenv("C01_ONLY"), *mx = getenv("C01_MAXCASES");
        if (only && *only && !strstr(suite, only))
            return 0;
        if (mx && *mx && strtoull(mx, nullptr, 0) < n)
            return strtoull(mx, nullptr, 0);
        return n;
    }
} // namespace c01

// one translation unit per list flavour (they compile in parallel); each registers its two suites and the
// operation-coverage clauses that must have been driven
#define C01_SUITES(W, tag)                                                                                                                           \
    static uint64_t tag##_dfs_count() { return c01::limited(#tag "_dfs", c01::Runner<c01::W>::dfs_count()); }                                       \
    static void tag##_dfs_run(uint64_t i) { c01::Runner<c01::W>::dfs_run(i); }                                                                      \
    static uint64_t tag##_rnd_count() { return c01::limited(#tag "_rnd", c01::Runner<c01::W>::rnd_count()); }                                       \
    static void tag##_rnd_run(uint64_t i) { c01::Runner<c01::W>::rnd_run(i); }                                                                      \
    VF_SUITE(tag##_dfs, tag##_dfs_count, tag##_dfs_run)                                                                                             \
    VF_SUITE(tag##_rnd, tag##_rnd_count, tag##_rnd_run)                                                                                             \
    void c01_require_##tag()                                                                                                                        \
    {                                                                                                                                                \
        for (int k = 0; k < c01::W::K_COUNT; k++)                                                                                                   \
            vf::require((std::string("op " #tag " ") + c01::W::kind_name(k)).c_str());                                                              \
    }
