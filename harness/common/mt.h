// mt.h — overlapping activations of otherwise sequential library code.
// Many igris routines are pure functions of their arguments; users call them from several threads (or from an
// interrupt handler) without a lock. A change that introduces hidden shared state (a static scratch buffer, a lazily
// built table, a temporarily switched global pointer) is invisible to any single-threaded workload. This helper runs a
// workload concurrently in a FRESH process (so lazily initialised state is in its first-use state):
//
//   int mask = vf::mt_run(nthreads, [&](int tid) -> unsigned { ...compute, compare with references computed
//                                                              BEFORE mt_run...; return mismatch_bits; },
//                         /*prelude=*/[]{ /* optional: runs in the child before the threads start */ });
//
// * returns the OR of the threads' masks (low 6 bits are transported), 0 = everything agreed;
//   -1 = the child died (signal / sanitizer abort), -2 = the child exceeded cpu_limit_s of CPU time (hang).
// * use it from a `tsan` flavour unit: data races inside igris are reported by ThreadSanitizer into the worker's
//   log and keyed by the driver as tsan:data-race:<innermost /repo function>; wrong values are reported by you
//   from the mask (vf::fail("concurrent:<routine>:!=reference", ...)).
// * call VF_OK / vf::fail only from the case's main thread (after mt_run returned), never inside the lambdas.
// See harness/C17/crc_mt.cpp for a complete small unit.
#pragma once
#include <functional>
#include <pthread.h>
#include <sys/prctl.h>
#include <sys/resource.h>
#include <sys/wait.h>
#include <unistd.h>
#include <vector>

namespace vf
{
    struct MtJob
    {
        pthread_barrier_t *bar;
        const std::function<unsigned(int)> *fn;
        int tid;
        unsigned mask;
    };
    static inline void *mt_thread(void *p)
    {
        MtJob *j = (MtJob *)p;
        pthread_barrier_wait(j->bar);
        j->mask = (*j->fn)(j->tid);
        return nullptr;
    }
    static inline int mt_run(int nthreads, const std::function<unsigned(int)> &fn,
                             const std::function<void()> &prelude = nullptr, int cpu_limit_s = 20)
    {
        fflush(nullptr);
        pid_t pid = fork();
        if (pid == 0)
        {
            prctl(PR_SET_PDEATHSIG, SIGKILL); // never outlive the worker that forked us
            struct rlimit rl = {(rlim_t)cpu_limit_s, (rlim_t)cpu_limit_s + 1};
            setrlimit(RLIMIT_CPU, &rl); // SIGXCPU ends a spinning child
            if (prelude)
                prelude();
            pthread_barrier_t bar;
            pthread_barrier_init(&bar, nullptr, nthreads);
            std::vector<MtJob> jobs(nthreads);
            std::vector<pthread_t> th(nthreads);
            for (int t = 0; t < nthreads; t++)
            {
                jobs[t] = MtJob{&bar, &fn, t, 0};
                pthread_create(&th[t], nullptr, mt_thread, &jobs[t]);
            }
            unsigned mask = 0;
            for (int t = 0; t < nthreads; t++)
            {
                pthread_join(th[t], nullptr);
                mask |= jobs[t].mask;
            }
            fflush(nullptr);
            _exit(mask ? 64 + (int)(mask & 63 ? mask & 63 : 63) : 0);
        }
        int st = 0;
        waitpid(pid, &st, 0);
        if (WIFEXITED(st) && WEXITSTATUS(st) == 0)
            return 0;
        if (WIFEXITED(st) && WEXITSTATUS(st) >= 64)
            return WEXITSTATUS(st) - 64;
        if (WIFSIGNALED(st) && (WTERMSIG(st) == SIGXCPU || WTERMSIG(st) == SIGKILL))
            return -2;
        return -1;
    }
} // namespace vf
