// vf.h — fork-per-worker case runner, monitor reporting and evidence counters.
// Header-only; include from exactly one TU per harness binary with VF_MAIN defined
// (other TUs may include it without VF_MAIN to call vf::fail / VF_OK ...).
//
// A harness registers suites:   VF_SUITE(name, count_fn, run_fn)
//   uint64_t count_fn()            number of cases for the current tier/seed
//   void     run_fn(uint64_t idx)  run case idx; pure function of (vf::seed(), vf::thorough(), idx)
// Monitors report with vf::fail(key, fmt, ...) (throws CaseFailed, caught by the runner)
// and count evaluated clauses with VF_OK("clause name").
#pragma once
#include <atomic>
#include <cassert>
#include <cerrno>
#include <csignal>
#include <cstdarg>
#include <cstdint>
#include <cstdio>
#include <cstdlib>
#include <cstring>
#include <string>
#include <vector>
#include <fcntl.h>
#include <sys/mman.h>
#include <sys/prctl.h>
#include <sys/stat.h>
#include <sys/time.h>
#include <sys/types.h>
#include <sys/wait.h>
#include <time.h>
#include <unistd.h>

namespace vf
{
    struct CaseFailed
    {
    };

    // ---------------------------------------------------------------- PRNG
    static inline uint64_t splitmix(uint64_t &x)
    {
        uint64_t z = (x += 0x9e3779b97f4a7c15ULL);
        z = (z ^ (z >> 30)) * 0xbf58476d1ce4e5b9ULL;
        z = (z ^ (z >> 27)) * 0x94d049bb133111ebULL;
        return z ^ (z >> 31);
    }
    static inline uint64_t mix(uint64_t a, uint64_t b)
    {
        uint64_t x = a * 0x9e3779b97f4a7c15ULL ^ (b + 0x632be59bd9b4e019ULL);
        return splitmix(x);
    }
    static inline uint64_t hash_bytes(const void *p, size_t n, uint64_t h = 0xcbf29ce484222325ULL)
    {
        const unsigned char *c = (const unsigned char *)p;
        for (size_t i = 0; i < n; i++)
        {
            h ^= c[i];
            h *= 0x100000001b3ULL;
        }
        return mix(h, n);
    }
    struct Rng
    {
        uint64_t s[4];
        explicit Rng(uint64_t a, uint64_t b = 0, uint64_t c = 0)
        {
            uint64_t x = mix(mix(a, b), c);
            for (int i = 0; i < 4; i++)
                s[i] = splitmix(x);
        }
        static inline uint64_t rotl(uint64_t x, int k) { return (x << k) | (x >> (64 - k)); }
        uint64_t next()
        {
            uint64_t r = rotl(s[1] * 5, 7) * 9, t = s[1] << 17;
            s[2] ^= s[0];
            s[3] ^= s[1];
            s[1] ^= s[2];
            s[0] ^= s[3];
            s[2] ^= t;
            s[3] = rotl(s[3], 45);
            return r;
        }
        // uniform in [0,n)
        uint64_t below(uint64_t n) { return n ? next() % n : 0; }
        int range(int lo, int hi) { return lo + (int)below((uint64_t)(hi - lo + 1)); } // inclusive
        bool chance(int num, int den) { return (int)below(den) < num; }
        template <class T, size_t N> T pick(const T (&a)[N]) { return a[below(N)]; }
    };

    // ---------------------------------------------------------------- shared state
    enum
    {
        MAX_CLAUSES = 384,
        MAX_FAILS = 2048,
        MAX_SAMPLES = 8,
        MAX_WORKERS = 64,
        KEY_LEN = 200,
        DETAIL_LEN = 1800,
        SAMPLE_LEN = 600
    };
    struct Clause
    {
        std::atomic<int> state; // 0 empty, 1 claimed, 2 ready
        char name[92];
        std::atomic<uint64_t> n;
        std::atomic<uint64_t> mx; // for stat_max
    };
    struct Failure
    {
        std::atomic<int> ready;
        int suite;
        uint64_t idx;
        char kind[16]; // monitor | crash | hang
        char key[KEY_LEN];
        char detail[DETAIL_LEN];
    };
    struct Slot
    {
        std::atomic<uint64_t> cur;      // global case index being run (+1), 0 = none
        std::atomic<uint64_t> start_ns; // when it started
        char cls[120];                  // optional input-class tag set by the harness
    };
    struct Shared
    {
        Clause clauses[MAX_CLAUSES];
        Failure fails[MAX_FAILS];
        std::atomic<uint64_t> nfails, fails_dropped, fails_dup;
        char samples[MAX_SAMPLES][SAMPLE_LEN];
        std::atomic<int> nsamples;
        Slot slots[MAX_WORKERS];
        std::atomic<uint64_t> next_case;
        std::atomic<uint64_t> evaluations, distinct, distinct_nontrivial, bulk_unique, states;
        std::atomic<uint64_t> cases_done, case_fail_count;
        std::atomic<int> hash_saturated;
    };

    struct SuiteDef
    {
        const char *name;
        uint64_t (*count)();
        void (*run)(uint64_t);
    };

    struct Global
    {
        Shared *sh = nullptr;
        std::atomic<uint64_t> *htab = nullptr; // case hashes
        uint64_t hmask = 0;
        std::atomic<uint64_t> *stab = nullptr; // state hashes
        uint64_t smask = 0;
        uint64_t seed = 1;
        bool thorough = false;
        bool verbose = false;
        int worker = 0;
        int cur_suite = 0;
        uint64_t cur_idx = 0;
        std::vector<SuiteDef> suites;
        // local pending clause counters
        uint64_t pend[MAX_CLAUSES] = {0};
        uint64_t pend_eval = 0;
    };
    Global &g();
#ifdef VF_MAIN
    Global &g()
    {
        static Global G;
        return G;
    }
#endif

    static inline uint64_t seed() { return g().seed; }
    static inline bool thorough() { return g().thorough; }
    static inline bool verbose() { return g().verbose; }
    static inline uint64_t now_ns()
    {
        timespec ts;
        clock_gettime(CLOCK_MONOTONIC, &ts);
        return (uint64_t)ts.tv_sec * 1000000000ULL + ts.tv_nsec;
    }

    static inline int clause_id(const char *name)
    {
        Shared *sh = g().sh;
        for (int i = 0; i < MAX_CLAUSES; i++)
        {
            Clause &c = sh->clauses[i];
            int st = c.state.load(std::memory_order_acquire);
            if (st == 0)
            {
                int exp = 0;
                if (c.state.compare_exchange_strong(exp, 1))
                {
                    snprintf(c.name, sizeof c.name, "%s", name);
                    c.state.store(2, std::memory_order_release);
                    return i;
                }
                st = c.state.load(std::memory_order_acquire);
            }
            while (st == 1)
                st = c.state.load(std::memory_order_acquire);
            if (strncmp(c.name, name, sizeof c.name - 1) == 0)
                return i;
        }
        fprintf(stderr, "vf: clause table full\n");
        _exit(2);
    }
    static inline void flush_local()
    {
        Global &G = g();
        for (int i = 0; i < MAX_CLAUSES; i++)
            if (G.pend[i])
            {
                G.sh->clauses[i].n.fetch_add(G.pend[i], std::memory_order_relaxed);
                G.pend[i] = 0;
            }
        if (G.pend_eval)
        {
            G.sh->evaluations.fetch_add(G.pend_eval, std::memory_order_relaxed);
            G.pend_eval = 0;
        }
    }
    static inline void clause_hit(int id, uint64_t n = 1) { g().pend[id] += n; }
    static inline void stat_max(int id, uint64_t v)
    {
        std::atomic<uint64_t> &m = g().sh->clauses[id].mx;
        uint64_t cur = m.load(std::memory_order_relaxed);
        while (v > cur && !m.compare_exchange_weak(cur, v))
        {
        }
        g().pend[id] += 1;
    }
#define VF_OK(name)                                     \
    do                                                  \
    {                                                   \
        static int vf_cid_ = ::vf::clause_id(name);     \
        ::vf::clause_hit(vf_cid_);                      \
    } while (0)
#define VF_OKN(name, n)                                 \
    do                                                  \
    {                                                   \
        static int vf_cid_ = ::vf::clause_id(name);     \
        ::vf::clause_hit(vf_cid_, (n));                 \
    } while (0)
#define VF_MAX(name, v)                                 \
    do                                                  \
    {                                                   \
        static int vf_cid_ = ::vf::clause_id(name);     \
        ::vf::stat_max(vf_cid_, (uint64_t)(v));         \
    } while (0)
    // dynamic-name counter (slower; for coverage like "status:NEWPACKAGE")
    static inline void count(const char *name, uint64_t n = 1) { clause_hit(clause_id(name), n); }
    // declare a clause that must be evaluated at least once (else the run is inconclusive)
    static inline void require(const char *name)
    {
        int id = clause_id(name);
        g().sh->clauses[id].mx.store(~0ULL); // marker: required (mx == all ones)
    }

    static inline bool hset_insert(std::atomic<uint64_t> *tab, uint64_t mask, uint64_t h)
    {
        if (h == 0)
            h = 0x9e3779b97f4a7c15ULL;
        uint64_t i = mix(h, 17) & mask;
        for (int probe = 0; probe < 64; probe++, i = (i + 1) & mask)
        {
            uint64_t cur = tab[i].load(std::memory_order_relaxed);
            if (cur == h)
                return false;
            if (cur == 0)
            {
                uint64_t exp = 0;
                if (tab[i].compare_exchange_strong(exp, h))
                    return true;
                if (exp == h)
                    return false;
            }
        }
        g().sh->hash_saturated.store(1);
        return false; // saturated: count conservatively (treated as duplicate)
    }
    // one evaluated case (or sub-case) with the hash of its canonical form
    static inline void count_case(uint64_t h, bool nontrivial)
    {
        Global &G = g();
        G.pend_eval++;
        if (hset_insert(G.htab, G.hmask, h))
        {
            G.sh->distinct.fetch_add(1, std::memory_order_relaxed);
            if (nontrivial)
                G.sh->distinct_nontrivial.fetch_add(1, std::memory_order_relaxed);
        }
    }
    // n cases of an enumeration that cannot repeat (no hashing), k of them non-trivial
    static inline void count_bulk(uint64_t n, uint64_t k)
    {
        Global &G = g();
        G.pend_eval += n;
        G.sh->bulk_unique.fetch_add(k, std::memory_order_relaxed);
    }
    static inline void state(uint64_t h)
    {
        Global &G = g();
        if (hset_insert(G.stab, G.smask, h))
            G.sh->states.fetch_add(1, std::memory_order_relaxed);
    }
    static inline void sample(const char *fmt, ...)
    {
        Shared *sh = g().sh;
        if (sh->nsamples.load(std::memory_order_relaxed) >= MAX_SAMPLES)
            return;
        int i = sh->nsamples.fetch_add(1);
        if (i >= MAX_SAMPLES)
            return;
        va_list ap;
        va_start(ap, fmt);
        vsnprintf(sh->samples[i], SAMPLE_LEN, fmt, ap);
        va_end(ap);
    }
    static inline bool want_sample() { return g().sh->nsamples.load(std::memory_order_relaxed) < MAX_SAMPLES; }
    // tag the input class of what is about to run (used in crash / hang keys)
    static inline void cls(const char *c)
    {
        Slot &s = g().sh->slots[g().worker];
        snprintf(s.cls, sizeof s.cls, "%s", c);
    }

    static inline void record_failure(const char *kind, int suite, uint64_t idx, const char *key, const char *detail)
    {
        Shared *sh = g().sh;
        {
            // keep at most 3 records per key so that one defect cannot crowd out the others
            uint64_t have = sh->nfails.load();
            if (have > MAX_FAILS)
                have = MAX_FAILS;
            int same = 0;
            for (uint64_t i = 0; i < have; i++)
                if (sh->fails[i].ready.load(std::memory_order_acquire) && strncmp(sh->fails[i].key, key, KEY_LEN - 1) == 0)
                    same++;
            if (same >= 3)
            {
                sh->fails_dup.fetch_add(1);
                return;
            }
        }
        uint64_t n = sh->nfails.fetch_add(1);
        if (n >= MAX_FAILS)
        {
            sh->fails_dropped.fetch_add(1);
            return;
        }
        Failure &f = sh->fails[n];
        f.suite = suite;
        f.idx = idx;
        snprintf(f.kind, sizeof f.kind, "%s", kind);
        snprintf(f.key, sizeof f.key, "%s", key);
        snprintf(f.detail, sizeof f.detail, "%s", detail);
        f.ready.store(1, std::memory_order_release);
    }
    static inline void vfail(bool do_throw, const char *key, const char *fmt, va_list ap)
    {
        char detail[DETAIL_LEN];
        vsnprintf(detail, sizeof detail, fmt, ap);
        Global &G = g();
        if (G.verbose)
            printf("MONITOR VIOLATION key=%s\n  %s\n", key, detail);
        record_failure("monitor", G.cur_suite, G.cur_idx, key, detail);
        G.sh->case_fail_count.fetch_add(1);
        if (do_throw)
            throw CaseFailed();
    }
    [[noreturn]] static inline void fail(const char *key, const char *fmt, ...) __attribute__((format(printf, 2, 3)));
    [[noreturn]] static inline void fail(const char *key, const char *fmt, ...)
    {
        va_list ap;
        va_start(ap, fmt);
        vfail(true, key, fmt, ap);
        va_end(ap);
        abort();
    }
    static inline void fail_nothrow(const char *key, const char *fmt, ...) __attribute__((format(printf, 2, 3)));
    static inline void fail_nothrow(const char *key, const char *fmt, ...)
    {
        va_list ap;
        va_start(ap, fmt);
        vfail(false, key, fmt, ap);
        va_end(ap);
    }
    // printable rendering of bytes for witnesses
    static inline std::string hex(const void *p, size_t n, size_t maxn = 64)
    {
        static const char *d = "0123456789abcdef";
        std::string s;
        const unsigned char *c = (const unsigned char *)p;
        for (size_t i = 0; i < n && i < maxn; i++)
        {
            s += d[c[i] >> 4];
            s += d[c[i] & 15];
        }
        if (n > maxn)
            s += "...";
        return s;
    }
    static inline std::string esc(const void *p, size_t n, size_t maxn = 80)
    {
        std::string s;
        const unsigned char *c = (const unsigned char *)p;
        char b[8];
        for (size_t i = 0; i < n && i < maxn; i++)
        {
            if (c[i] >= 0x20 && c[i] < 0x7f && c[i] != '\\' && c[i] != '"')
                s += (char)c[i];
            else
            {
                snprintf(b, sizeof b, "\\x%02x", c[i]);
                s += b;
            }
        }
        if (n > maxn)
            s += "...";
        return s;
    }

    struct SuiteReg
    {
        SuiteReg(const char *name, uint64_t (*count)(), void (*run)(uint64_t));
    };
#ifdef VF_MAIN
    SuiteReg::SuiteReg(const char *name, uint64_t (*count)(), void (*run)(uint64_t))
    {
        g().suites.push_back(SuiteDef{name, count, run});
    }
#endif
#define VF_SUITE(name, countfn, runfn) static ::vf::SuiteReg vf_suite_reg_##name(#name, countfn, runfn);
} // namespace vf

#ifdef VF_COVERAGE
extern "C" void __gcov_dump(void);
#define VF_GCOV_DUMP() __gcov_dump()
#else
#define VF_GCOV_DUMP() ((void)0)
#endif
// optional harness hook: called once in the parent before forking (register required clauses etc.)
extern "C" void vf_setup() __attribute__((weak));

#ifdef VF_MAIN
namespace vf
{
    static void json_str(FILE *f, const char *s)
    {
        fputc('"', f);
        for (const unsigned char *c = (const unsigned char *)s; *c; c++)
        {
            if (*c == '"' || *c == '\\')
                fprintf(f, "\\%c", *c);
            else if (*c == '\n')
                fputs("\\n", f);
            else if (*c == '\t')
                fputs("\\t", f);
            else if (*c < 0x20 || *c >= 0x7f)
                fprintf(f, "\\u%04x", *c);
            else
                fputc(*c, f);
        }
        fputc('"', f);
    }
    static void *shmap(size_t n)
    {
        void *p = mmap(nullptr, n, PROT_READ | PROT_WRITE, MAP_SHARED | MAP_ANONYMOUS | MAP_NORESERVE, -1, 0);
        if (p == MAP_FAILED)
        {
            perror("mmap");
            _exit(2);
        }
        return p;
    }
    struct Locate
    {
        int suite;
        uint64_t local;
    };
    static std::vector<uint64_t> suite_counts;
    static Locate locate(uint64_t gidx)
    {
        for (size_t s = 0; s < suite_counts.size(); s++)
        {
            if (gidx < suite_counts[s])
                return Locate{(int)s, gidx};
            gidx -= suite_counts[s];
        }
        return Locate{-1, 0};
    }
    static void run_one(int suite, uint64_t local)
    {
        Global &G = g();
        G.cur_suite = suite;
        G.cur_idx = local;
        try
        {
            G.suites[suite].run(local);
        }
        catch (CaseFailed &)
        {
        }
        flush_local();
    }
    static const char *g_logdir = nullptr;
    static void redirect_stderr()
    {
        if (!g_logdir)
            return;
        char path[600];
        snprintf(path, sizeof path, "%s/san.%d", g_logdir, (int)getpid());
        int fd = open(path, O_WRONLY | O_CREAT | O_APPEND, 0644);
        if (fd >= 0)
        {
            dup2(fd, 2);
            close(fd);
        }
    }
    static void worker_loop(int w, uint64_t total)
    {
        Global &G = g();
        G.worker = w;
        // a worker must never outlive the runner (a killed runner used to leave spinning orphans behind)
        prctl(PR_SET_PDEATHSIG, SIGKILL);
        if (getppid() == 1)
            _exit(0);
        redirect_stderr();
        Slot &slot = G.sh->slots[w];
        for (;;)
        {
            uint64_t i = G.sh->next_case.fetch_add(1);
            if (i >= total)
                break;
            Locate L = locate(i);
            slot.cls[0] = 0;
            slot.start_ns.store(now_ns());
            slot.cur.store(i + 1);
            run_one(L.suite, L.local);
            slot.cur.store(0);
            G.sh->cases_done.fetch_add(1);
        }
        flush_local();
        fflush(nullptr);
        VF_GCOV_DUMP();
        _exit(0);
    }
    // run a single case in a child; returns 0 ok, 1 crashed, 2 timed out
    static int run_alone(int suite, uint64_t local, double limit_s, pid_t *pid_out, int *status_out)
    {
        fflush(nullptr);
        pid_t p = fork();
        if (p == 0)
        {
            g().worker = MAX_WORKERS - 1;
            redirect_stderr();
            run_one(suite, local);
            fflush(nullptr);
            VF_GCOV_DUMP();
            _exit(0);
        }
        uint64_t t0 = now_ns();
        int st = 0;
        for (;;)
        {
            pid_t r = waitpid(p, &st, WNOHANG);
            if (r == p)
                break;
            if ((now_ns() - t0) / 1e9 > limit_s)
            {
                kill(p, SIGKILL);
                waitpid(p, &st, 0);
                if (pid_out)
                    *pid_out = p;
                return 2;
            }
            usleep(2000);
        }
        if (pid_out)
            *pid_out = p;
        if (status_out)
            *status_out = st;
        if (WIFEXITED(st) && WEXITSTATUS(st) == 0)
            return 0;
        return 1;
    }
    static std::string read_san_log(const char *logdir, pid_t pid)
    {
        std::string out;
        if (!logdir)
            return out;
        char path[600];
        snprintf(path, sizeof path, "%s/san.%d", logdir, (int)pid);
        FILE *f = fopen(path, "r");
        if (!f)
            return out;
        char buf[512];
        size_t total = 0;
        while (fgets(buf, sizeof buf, f) && total < DETAIL_LEN - 100)
        {
            // keep only the informative part: headline, runtime errors, frames
            out += buf;
            total += strlen(buf);
        }
        fclose(f);
        return out;
    }
} // namespace vf

// assert() inside igris (or the harness) becomes an attributed failure instead of an anonymous SIGABRT
extern "C" void __assert_fail(const char *expr, const char *file, unsigned int line, const char *func) noexcept
{
    using namespace vf;
    Global &G = g();
    const char *base = strrchr(file, '/');
    base = base ? base + 1 : file;
    char key[KEY_LEN], det[DETAIL_LEN];
    std::string fn = func ? func : "?";
    size_t par = fn.find('(');
    if (par != std::string::npos)
        fn = fn.substr(0, par);
    size_t sp = fn.rfind(' ');
    if (sp != std::string::npos)
        fn = fn.substr(sp + 1);
    const char *c = G.sh->slots[G.worker].cls;
    snprintf(key, sizeof key, "assert:%s:%s:%s%s%s", base, fn.c_str(), expr, c[0] ? "@" : "", c);
    snprintf(det, sizeof det, "%s:%u: %s: Assertion `%s' failed. cls=%s", file, line, func ? func : "?", expr, c);
    if (G.verbose)
        printf("ASSERTION FAILED key=%s\n  %s\n", key, det);
    record_failure("monitor", G.cur_suite, G.cur_idx, key, det);
    flush_local();
    fflush(nullptr);
    _exit(77);
}

int main(int argc, char **argv)
{
    using namespace vf;
    Global &G = g();
    setvbuf(stdout, nullptr, _IONBF, 0);
    int workers = 16;
    const char *out = nullptr, *logdir = nullptr, *replay = nullptr;
    int hash_bits = 0;
    double case_timeout = 20.0;
    bool hang_is_violation = false;
    for (int i = 1; i < argc; i++)
    {
        std::string a = argv[i];
        auto val = [&]() -> const char * { return i + 1 < argc ? argv[++i] : ""; };
        if (a == "--tier")
            G.thorough = std::string(val()) == "thorough";
        else if (a == "--seed")
            G.seed = strtoull(val(), nullptr, 0);
        else if (a == "--workers")
            workers = atoi(val());
        else if (a == "--out")
            out = val();
        else if (a == "--logdir")
            logdir = val();
        else if (a == "--replay")
            replay = val(); // SUITE:IDX
        else if (a == "--hash-bits")
            hash_bits = atoi(val());
        else if (a == "--case-timeout")
            case_timeout = atof(val());
        else if (a == "--hang-is-violation")
            hang_is_violation = true;
        else
        {
            fprintf(stderr, "vf: unknown argument %s\n", a.c_str());
            return 2;
        }
    }
    g_logdir = logdir;
    if (workers < 1)
        workers = 1;
    if (workers > MAX_WORKERS - 2)
        workers = MAX_WORKERS - 2;
    if (!hash_bits)
        hash_bits = G.thorough ? 26 : 24;
    G.sh = (Shared *)shmap(sizeof(Shared));
    G.hmask = (1ULL << hash_bits) - 1;
    G.htab = (std::atomic<uint64_t> *)shmap((G.hmask + 1) * 8);
    G.smask = (1ULL << 22) - 1;
    G.stab = (std::atomic<uint64_t> *)shmap((G.smask + 1) * 8);
    if (vf_setup)
        vf_setup();

    if (replay)
    {
        std::string r = replay;
        size_t c = r.rfind(':');
        std::string sname = r.substr(0, c);
        uint64_t idx = strtoull(r.c_str() + c + 1, nullptr, 0);
        for (size_t s = 0; s < G.suites.size(); s++)
            if (sname == G.suites[s].name)
            {
                (void)G.suites[s].count();
                G.verbose = true;
                printf("REPLAY suite=%s index=%llu seed=%llu tier=%s\n", sname.c_str(), (unsigned long long)idx,
                       (unsigned long long)G.seed, G.thorough ? "thorough" : "quick");
                run_one((int)s, idx);
                uint64_t nf = G.sh->nfails.load();
                printf("REPLAY-RESULT failures=%llu\n", (unsigned long long)nf);
                return nf ? 1 : 0;
            }
        fprintf(stderr, "vf: no suite %s\n", sname.c_str());
        return 2;
    }

    uint64_t t_begin = now_ns();
    uint64_t total = 0;
    for (auto &s : G.suites)
    {
        uint64_t n = s.count();
        suite_counts.push_back(n);
        total += n;
    }
    std::vector<pid_t> pids(workers, 0);
    auto spawn = [&](int w) {
        fflush(nullptr);
        G.sh->slots[w].cur.store(0);
        pid_t p = fork();
        if (p == 0)
            worker_loop(w, total);
        pids[w] = p;
    };
    for (int w = 0; w < workers; w++)
        spawn(w);
    int alive = workers;
    uint64_t crashes = 0, timeouts_recovered = 0, hangs = 0;
    struct Pending
    {
        uint64_t gidx;
    };
    std::vector<Pending> timed_out;
    std::vector<char> wd_killed(workers, 0);
    int wd_kills = 0;
    const int max_timeouts = 8;
    bool aborted_early = false;
    while (alive > 0)
    {
        int st;
        pid_t p = waitpid(-1, &st, WNOHANG);
        if (p > 0)
        {
            int w = -1;
            for (int i = 0; i < workers; i++)
                if (pids[i] == p)
                    w = i;
            if (w < 0)
                continue;
            bool clean = WIFEXITED(st) && WEXITSTATUS(st) == 0;
            uint64_t cur = G.sh->slots[w].cur.load();
            if (clean)
            {
                pids[w] = 0;
                alive--;
                continue;
            }
            if (WIFSIGNALED(st) && WTERMSIG(st) == SIGKILL && cur == 0)
            {
                // killed by us between cases or by OOM; treat as harness failure
                fprintf(stderr, "vf: worker %d killed outside a case\n", w);
            }
            if (cur && WIFEXITED(st) && WEXITSTATUS(st) == 77)
            {
                crashes++; // assertion failure, already recorded by __assert_fail
            }
            else if (cur && wd_killed[w])
            {
                timed_out.push_back(Pending{cur - 1}); // re-run alone below
            }
            else if (cur)
            {
                crashes++;
                Locate L = locate(cur - 1);
                std::string log = read_san_log(logdir, p);
                char key[KEY_LEN], det[DETAIL_LEN];
                snprintf(key, sizeof key, "crash:%s%s%s", WIFSIGNALED(st) ? strsignal(WTERMSIG(st)) : "exit",
                         G.sh->slots[w].cls[0] ? "@" : "", G.sh->slots[w].cls);
                snprintf(det, sizeof det, "pid=%d status=%s%d cls=%s\n%s", (int)p, WIFSIGNALED(st) ? "signal " : "exit ",
                         WIFSIGNALED(st) ? WTERMSIG(st) : WEXITSTATUS(st), G.sh->slots[w].cls, log.c_str());
                record_failure("crash", L.suite, L.local, key, det);
            }
            wd_killed[w] = false;
            // restart the worker (it continues with the next unclaimed case)
            if (G.sh->next_case.load() < total)
                spawn(w);
            else
            {
                pids[w] = 0;
                alive--;
            }
            continue;
        }
        // watchdog: a worker that has been inside one case for longer than the limit is killed;
        // the case is re-run alone afterwards and only a second expiry counts as a hang
        for (int w = 0; w < workers; w++)
        {
            if (!pids[w] || wd_killed[w])
                continue;
            uint64_t cur = G.sh->slots[w].cur.load();
            uint64_t start = G.sh->slots[w].start_ns.load();
            uint64_t cur2 = G.sh->slots[w].cur.load();
            uint64_t now = now_ns();
            if (cur && cur == cur2 && now > start && (now - start) / 1e9 > case_timeout)
            {
                wd_killed[w] = true;
                kill(pids[w], SIGKILL);
                if (++wd_kills >= max_timeouts && !aborted_early)
                {
                    // a whole class of cases does not terminate: stop handing out cases instead of
                    // waiting case_timeout for each of them; the verdict comes from the re-runs below
                    aborted_early = true;
                    G.sh->next_case.store(total);
                }
            }
        }
        usleep(5000);
    }
    // re-run timed-out cases alone, once (two at a time, on the now idle machine, with twice the time limit);
    // only a second expiry is a hang. When the run was stopped early (a whole class of cases does not terminate)
    // only the first two are re-run; the rest stay unaccounted (inconclusive unless a hang was confirmed). Otherwise
    // every timed-out case is re-run: on a heavily loaded machine a handful of slow cases can expire in the pool
    // (seen once: thorough C09 beside eight other checks, 3 expiries, 1 left unaccounted -> exit 2 on the unchanged tree).
    const double rerun_timeout = 2 * case_timeout;
    const size_t nre_total = aborted_early ? (timed_out.size() < 2 ? timed_out.size() : 2) : timed_out.size();
    for (size_t base = 0; base < nre_total; base += 2)
    {
        size_t nre = nre_total - base < 2 ? nre_total - base : 2;
        struct Re
        {
            pid_t pid;
            Locate L;
            bool done;
            int st;
            bool expired;
        };
        std::vector<Re> res;
        fflush(nullptr);
        for (size_t i = 0; i < nre; i++)
        {
            Locate L = locate(timed_out[base + i].gidx);
            pid_t p = fork();
            if (p == 0)
            {
                g().worker = (int)(MAX_WORKERS - 1 - i);
                prctl(PR_SET_PDEATHSIG, SIGKILL);
                redirect_stderr();
                run_one(L.suite, L.local);
                fflush(nullptr);
                VF_GCOV_DUMP();
                _exit(0);
            }
            res.push_back(Re{p, L, false, 0, false});
        }
        uint64_t t0 = now_ns();
        size_t left = res.size();
        while (left)
        {
            for (auto &r : res)
            {
                if (r.done)
                    continue;
                if (waitpid(r.pid, &r.st, WNOHANG) == r.pid)
                {
                    r.done = true;
                    left--;
                }
                else if ((now_ns() - t0) / 1e9 > rerun_timeout)
                {
                    kill(r.pid, SIGKILL);
                    waitpid(r.pid, &r.st, 0);
                    r.done = r.expired = true;
                    left--;
                }
            }
            usleep(5000);
        }
        for (size_t i = 0; i < res.size(); i++)
        {
            Re &r = res[i];
            Slot &sl = G.sh->slots[MAX_WORKERS - 1 - i];
            char key[KEY_LEN], det[DETAIL_LEN];
            if (r.expired)
            {
                hangs++;
                snprintf(key, sizeof key, "hang:%s%s%s", G.suites[r.L.suite].name, sl.cls[0] ? "@" : "", sl.cls);
                snprintf(det, sizeof det, "case exceeded %.0fs in the pool and again %.0fs alone (%zu cases timed out in this run%s); cls=%s",
                         case_timeout, rerun_timeout, timed_out.size(), aborted_early ? ", run stopped early" : "", sl.cls);
                record_failure("hang", r.L.suite, r.L.local, key, det);
            }
            else if (WIFEXITED(r.st) && WEXITSTATUS(r.st) == 0)
                timeouts_recovered++;
            else if (WIFEXITED(r.st) && WEXITSTATUS(r.st) == 77)
                crashes++; // the harness recorded its own attributed failure and left with 77
            else
            {
                crashes++;
                std::string log = read_san_log(logdir, r.pid);
                snprintf(key, sizeof key, "crash:%s%s%s", WIFSIGNALED(r.st) ? strsignal(WTERMSIG(r.st)) : "exit",
                         sl.cls[0] ? "@" : "", sl.cls);
                snprintf(det, sizeof det, "pid=%d (after timeout in pool) cls=%s\n%s", (int)r.pid, sl.cls, log.c_str());
                record_failure("crash", r.L.suite, r.L.local, key, det);
            }
        }
    }
    double wall = (now_ns() - t_begin) / 1e9;

    Shared *sh = G.sh;
    FILE *f = out ? fopen(out, "w") : stdout;
    if (!f)
    {
        perror("out");
        return 2;
    }
    fprintf(f, "{\n \"seed\": %llu,\n \"tier\": \"%s\",\n \"wall_s\": %.3f,\n", (unsigned long long)G.seed,
            G.thorough ? "thorough" : "quick", wall);
    fprintf(f, " \"cases_total\": %llu,\n \"cases_done\": %llu,\n", (unsigned long long)total,
            (unsigned long long)sh->cases_done.load());
    fprintf(f, " \"evaluations\": %llu,\n \"distinct\": %llu,\n \"distinct_nontrivial\": %llu,\n \"bulk_unique\": %llu,\n",
            (unsigned long long)sh->evaluations.load(), (unsigned long long)sh->distinct.load(),
            (unsigned long long)sh->distinct_nontrivial.load(), (unsigned long long)sh->bulk_unique.load());
    fprintf(f, " \"states\": %llu,\n \"hash_saturated\": %d,\n", (unsigned long long)sh->states.load(),
            sh->hash_saturated.load());
    fprintf(f, " \"crashes\": %llu,\n \"hangs\": %llu,\n \"timeouts_recovered\": %llu,\n \"hang_is_violation\": %s,\n",
            (unsigned long long)crashes, (unsigned long long)hangs, (unsigned long long)timeouts_recovered,
            hang_is_violation ? "true" : "false", aborted_early ? "true" : "false", timed_out.size());
    fprintf(f, " \"suites\": [");
    for (size_t s = 0; s < G.suites.size(); s++)
    {
        fprintf(f, "%s{\"name\": ", s ? ", " : "");
        json_str(f, G.suites[s].name);
        fprintf(f, ", \"cases\": %llu}", (unsigned long long)suite_counts[s]);
    }
    fprintf(f, "],\n \"clauses\": {");
    bool first = true;
    for (int i = 0; i < MAX_CLAUSES; i++)
    {
        Clause &c = sh->clauses[i];
        if (c.state.load() != 2)
            continue;
        fprintf(f, "%s\n  ", first ? "" : ",");
        first = false;
        json_str(f, c.name);
        uint64_t mx = c.mx.load();
        bool required = mx == ~0ULL;
        fprintf(f, ": {\"n\": %llu, \"required\": %s", (unsigned long long)c.n.load(), required ? "true" : "false");
        if (mx && !required)
            fprintf(f, ", \"max\": %llu", (unsigned long long)mx);
        fprintf(f, "}");
    }
    fprintf(f, "\n },\n \"samples\": [");
    int ns = sh->nsamples.load();
    if (ns > MAX_SAMPLES)
        ns = MAX_SAMPLES;
    for (int i = 0; i < ns; i++)
    {
        fprintf(f, "%s\n  ", i ? "," : "");
        json_str(f, sh->samples[i]);
    }
    fprintf(f, "\n ],\n \"failures_total\": %llu,\n \"failures_dropped\": %llu,\n \"failures_dup\": %llu,\n \"failures\": [",
            (unsigned long long)sh->nfails.load(), (unsigned long long)sh->fails_dropped.load(),
            (unsigned long long)sh->fails_dup.load());
    uint64_t nf = sh->nfails.load();
    if (nf > MAX_FAILS)
        nf = MAX_FAILS;
    first = true;
    for (uint64_t i = 0; i < nf; i++)
    {
        Failure &fl = sh->fails[i];
        if (!fl.ready.load())
            continue;
        fprintf(f, "%s\n  {\"kind\": ", first ? "" : ",");
        first = false;
        json_str(f, fl.kind);
        fprintf(f, ", \"suite\": ");
        json_str(f, fl.suite >= 0 && fl.suite < (int)G.suites.size() ? G.suites[fl.suite].name : "?");
        fprintf(f, ", \"index\": %llu, \"key\": ", (unsigned long long)fl.idx);
        json_str(f, fl.key);
        fprintf(f, ", \"detail\": ");
        json_str(f, fl.detail);
        fprintf(f, "}");
    }
    fprintf(f, "\n ]\n}\n");
    if (out)
        fclose(f);
    return 0;
}
#endif // VF_MAIN
