// tracked.h — element type that tracks its own lifetime.
// Every object owns a heap cell (ASan sees leaks of the cell's *use*: use-after-free, double free).
// A registry of live object addresses turns silent lifetime errors into monitor reports:
//   construct over a live object, destroy/assign/read of an object that is not live.
// Errors are recorded with vf::fail_nothrow (destructors must not throw) and latched in
// Tracked::errors(); the harness calls Tracked::check() after each container operation.
#pragma once
#include "vf.h"
#include <unordered_map>

namespace vf
{
    struct TrackedReg
    {
        std::unordered_map<const void *, int> live; // address -> 1
        long constructed = 0, destroyed = 0, errors = 0;
        const char *where = "?";                      // what the harness is doing right now (for keys)
        const char *flavour = "";                     // container flavour tag for keys
    };
    inline TrackedReg &treg()
    {
        static TrackedReg r;
        return r;
    }
    struct Tracked
    {
        int *cell;
        static void err(const char *what, const void *self)
        {
            TrackedReg &r = treg();
            r.errors++;
            char key[180];
            snprintf(key, sizeof key, "lifetime:%s:%s:%s", r.flavour, what, r.where);
            fail_nothrow(key, "%s on element at %p during '%s' (constructed=%ld destroyed=%ld live=%zu)", what, self, r.where,
                         r.constructed, r.destroyed, r.live.size());
        }
        static bool is_live(const void *p) { return treg().live.count(p) != 0; }
        void born()
        {
            TrackedReg &r = treg();
            if (r.live.count(this))
                err("construct-over-live", this);
            r.live[this] = 1;
            r.constructed++;
        }
        Tracked() : cell(new int(0)) { born(); }
        Tracked(int id) : cell(new int(id)) { born(); }
        Tracked(const Tracked &o)
        {
            if (!is_live(&o))
            {
                err("copy-construct-from-nonlive", &o);
                cell = new int(-2);
            }
            else
                cell = new int(*o.cell);
            born();
        }
        Tracked(Tracked &&o) noexcept
        {
            if (!is_live(&o))
            {
                err("move-construct-from-nonlive", &o);
                cell = new int(-2);
            }
            else
            {
                cell = new int(*o.cell);
                *o.cell = -1;
            }
            born();
        }
        Tracked &operator=(const Tracked &o)
        {
            if (!is_live(this))
            {
                err("assign-to-nonlive", this);
                return *this;
            }
            if (!is_live(&o))
            {
                err("assign-from-nonlive", &o);
                return *this;
            }
            *cell = *o.cell;
            return *this;
        }
        Tracked &operator=(Tracked &&o) noexcept
        {
            if (!is_live(this))
            {
                err("move-assign-to-nonlive", this);
                return *this;
            }
            if (!is_live(&o))
            {
                err("move-assign-from-nonlive", &o);
                return *this;
            }
            if (this != &o)
            {
                *cell = *o.cell;
                *o.cell = -1;
            }
            return *this;
        }
        ~Tracked()
        {
            TrackedReg &r = treg();
            auto it = r.live.find(this);
            if (it == r.live.end())
            {
                err("destroy-nonlive", this);
                return;
            }
            r.live.erase(it);
            r.destroyed++;
            delete cell;
            cell = nullptr;
        }
        int id() const
        {
            if (!is_live(this))
            {
                err("read-nonlive", this);
                return -3;
            }
            return *cell;
        }
        friend bool operator==(const Tracked &a, const Tracked &b) { return a.id() == b.id(); }
        friend bool operator!=(const Tracked &a, const Tracked &b) { return a.id() != b.id(); }
        friend bool operator<(const Tracked &a, const Tracked &b) { return a.id() < b.id(); }

        // harness side
        static void reset(const char *flavour)
        {
            TrackedReg &r = treg();
            r.live.clear();
            r.constructed = r.destroyed = r.errors = 0;
            r.flavour = flavour;
            r.where = "?";
        }
        static void at(const char *where) { treg().where = where; }
        static size_t live_count() { return treg().live.size(); }
        static void check()
        {
            if (treg().errors)
                throw CaseFailed();
        }
        // all containers are gone: nothing may be live any more
        static void check_all_destroyed()
        {
            TrackedReg &r = treg();
            if (!r.live.empty())
            {
                char key[180];
                snprintf(key, sizeof key, "lifetime:%s:never-destroyed", r.flavour);
                fail(key, "%zu element(s) constructed but never destroyed (constructed=%ld destroyed=%ld), last op '%s'",
                     r.live.size(), r.constructed, r.destroyed, r.where);
            }
            check();
        }
    };
} // namespace vf
