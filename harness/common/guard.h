// guard.h — exactly-sized heap copies (ASan red zone directly behind / in front of the extent)
// and pattern-filled regions for "leaves the rest untouched" clauses.
#pragma once
#include <cstdint>
#include <cstdlib>
#include <cstring>
#include <string>

namespace vf
{
    // Heap block whose extent [p, p+n) ends exactly at the end of the allocation
    // (mirror == false: the byte after the extent is red zone; `misalign` bytes of slack on the left)
    // or starts exactly at the start of the allocation (mirror == true: the byte before the
    // extent is red zone; slack on the right).
    struct Exact
    {
        unsigned char *base = nullptr;
        unsigned char *p = nullptr;
        size_t n = 0;
        Exact() {}
        Exact(const void *src, size_t n_, unsigned misalign = 0, bool mirror = false) { init(src, n_, misalign, mirror); }
        void init(const void *src, size_t n_, unsigned misalign = 0, bool mirror = false)
        {
            release();
            n = n_;
            size_t total = n + misalign;
            if (total == 0)
                total = 8;
            base = (unsigned char *)malloc(total);
            memset(base, 0xA5, total);
            p = mirror ? base : base + (total - n);
            if (src && n)
                memcpy(p, src, n);
        }
        void release()
        {
            free(base);
            base = p = nullptr;
        }
        ~Exact() { release(); }
        Exact(const Exact &) = delete;
        Exact &operator=(const Exact &) = delete;
        char *c() { return (char *)p; }
        const char *cc() const { return (const char *)p; }
    };
    // exact, NUL-terminated copy of a C string (n = strlen + 1)
    struct ExactStr : Exact
    {
        ExactStr(const std::string &s, unsigned misalign = 0, bool mirror = false) : Exact(s.c_str(), s.size() + 1, misalign, mirror) {}
    };

    // Pattern-filled region: [pre guard][window of w bytes][post guard]; verify() checks that
    // everything outside [off, off+len) of the window still carries the pattern.
    struct Region
    {
        unsigned char *base;
        size_t pre, w, post;
        unsigned char salt;
        Region(size_t w_, size_t pre_ = 16, size_t post_ = 16, unsigned char salt_ = 0x5a) : pre(pre_), w(w_), post(post_), salt(salt_)
        {
            base = (unsigned char *)malloc(pre + w + post ? pre + w + post : 1);
            fill();
        }
        ~Region() { free(base); }
        Region(const Region &) = delete;
        unsigned char pat(size_t i) const { return (unsigned char)(salt ^ (i * 37 + 11)); }
        void fill()
        {
            for (size_t i = 0; i < pre + w + post; i++)
                base[i] = pat(i);
        }
        unsigned char *win() { return base + pre; }
        // returns -1 if intact, else the offset (relative to the window start; may be negative
        // -> encoded as offset+pre in *abs) of the first modified byte outside [off, off+len)
        long verify(size_t off, size_t len) const
        {
            for (size_t i = 0; i < pre + w + post; i++)
            {
                if (i >= pre + off && i < pre + off + len)
                    continue;
                if (base[i] != pat(i))
                    return (long)i - (long)pre;
            }
            return LONG_MIN_SENTINEL;
        }
        static constexpr long LONG_MIN_SENTINEL = -0x7fffffffL;
        bool intact(size_t off, size_t len) const { return verify(off, len) == LONG_MIN_SENTINEL; }
    };
} // namespace vf
