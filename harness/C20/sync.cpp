// sync.cpp — C20: system lock, wait queues, event, safe_queue under sampled thread schedules.
// Built twice: flavour tsan and flavour asan (see units.json). One case = one short multi-threaded run whose
// programs and schedule perturbation are pure functions of (seed, tier, idx).
#define VF_MAIN
#include "infra.h"

#include <igris/container/dlist.h>
#include <igris/event/safe_queue.h>
#include <igris/osinter/wait.h>
#include <igris/sync/syslock.h>
#include <igris/syncxx/event.h>
#include <igris/util/verif_hook.h>

#include <algorithm>
#include <climits>
#include <chrono>
#include <deque>
#include <map>

using namespace h;

// ====================================================================== hook
static std::atomic<int> g_parked_now{0}; // parked minus unlinked (hint for the final drain only)
static void verif_hook(int id, const void *ptr, intptr_t val)
{
    Thr *t = tctx;
    if (!t)
        return;
    switch (id)
    {
    case IGRIS_VERIF_WAIT_PARKED:
        logev(E_PARK, t->id, t->cur_q, val != 0, t->cur_op, ptr, 0);
        g_parked_now.fetch_add(1, std::memory_order_relaxed);
        break;
    case IGRIS_VERIF_WAIT_UNLINK:
        logev(E_UNLINK, t->id, t->cur_q, 0, t->cur_op, ptr, val);
        g_parked_now.fetch_sub(1, std::memory_order_relaxed);
        break;
    case IGRIS_VERIF_WAIT_GAP:
        logev(E_GAPW, t->id, t->cur_q, 0, t->cur_op, ptr, 0);
        perturb(t, S_WAIT_GAP);
        break;
    case IGRIS_VERIF_EVENT_GAP:
        logev(E_GAPN, t->id, 0, 0, t->cur_op, nullptr, 0);
        perturb(t, S_EVENT_GAP);
        break;
    }
    if (t->id != MAIN_ID)
        g_progress.fetch_add(1, std::memory_order_relaxed);
}

// ====================================================================== case plumbing
struct CaseCfg
{
    int nthreads;
    int level;
    uint32_t hot;
    uint64_t key;
};
static Watch g_watch;
static pthread_t g_pth[MAXT];

static void case_begin(const char *suite, const CaseCfg &c, void (*diag)(void))
{
    igris_verif_hook = verif_hook;
    log_reset();
    g_failed.store(0);
    g_nts.store(0);
    g_progress.store(0);
    g_parked_now.store(0);
    for (int i = 0; i <= MAXT; i++)
    {
        g_thr[i].reset(i);
        g_thr[i].pkey = vf::mix(c.key, 0x7000 + i);
        g_thr[i].level = c.level;
        g_thr[i].hot = c.hot;
    }
    tctx = &g_thr[MAIN_ID];
    g_thr[MAIN_ID].ktid.store((int)syscall(SYS_gettid));
    g_watch.nthreads = c.nthreads;
    g_watch.suite = suite;
    g_watch.diagnose = diag;
    g_watch.stall_s = 1.0;
    g_watch.abs_s = 100.0;
    watch_start(g_watch);
}
static void threads_start(int n, void (*fn)(Thr *))
{
    pthread_barrier_init(&g_start.bar, nullptr, n);
    g_start.fn = fn;
    for (int i = 0; i < n; i++)
        pthread_create(&g_pth[i], nullptr, thr_main, &g_thr[i]);
}
static void thread_join(int i) { pthread_join(g_pth[i], nullptr); }
static void case_end()
{
    watch_stop(g_watch);
    pthread_barrier_destroy(&g_start.bar);
    drain_tsan();
    tctx = nullptr;
}
static CaseCfg make_cfg(vf::Rng &r, uint64_t salt, uint64_t idx, int nthreads)
{
    CaseCfg c;
    c.nthreads = nthreads;
    c.level = r.range(0, 3);
    c.hot = 0;
    // in half of the cases one or two sites are "hot" (delay there with high probability)
    if (r.chance(1, 2))
        c.hot |= 1u << r.range(0, NSITES - 1);
    if (r.chance(1, 4))
        c.hot |= 1u << r.range(0, NSITES - 1);
    if (c.hot && c.level == 0)
        c.level = 1;
    c.key = vf::mix(vf::mix(vf::seed(), salt), idx);
    return c;
}
// worker threads report directly (record_failure is lock-free on shared memory)
#define TFAIL(key, ...)                         \
    do                                          \
    {                                           \
        vf::fail_nothrow(key, __VA_ARGS__);     \
        g_failed.store(1);                      \
    } while (0)

// ====================================================================== suite 1: system lock
namespace lk
{
    enum
    {
        C_ENTRY_EXCL,
        C_REENTRY,
        C_INSIDE,
        C_EXIT,
        C_DEPTH,
        C_HELD_AFTER_INNER,
        C_SAVE_WITNESSED,
        C_SAVE_WITNESS_SKIPPED,
        C_SAVE_INNER_SECTION,
        C_RESTORE_EXCL,
        C_RESTORE_DEPTH,
        C_GUARD_CLASS,
        NCL
    };
    static const char *names[NCL] = {"lock: owner free on outermost entry",
                                     "lock: owner is me on nested entry",
                                     "lock: owner is me inside section",
                                     "lock: owner is me at outermost exit",
                                     "lock: syslock_counter equals performed nesting",
                                     "lock: still exclusive after inner unlock (depth>0)",
                                     "lock: save released fully (another thread entered)",
                                     "lock: save witness skipped (no free runner)",
                                     "lock: lock/unlock section between save and restore",
                                     "lock: owner free when restore returns",
                                     "lock: restore re-establishes saved depth",
                                     "lock: section through igris::syslock/syslock_guard"};
    enum
    {
        PH_RUN = 0,
        PH_WITNESS_WAIT = 1
    };
    static std::atomic<int> owner{0}; // 0 free, else thread id + 1
    static volatile long plain_counter; // deliberately unsynchronised: protected by the system lock only
    static std::atomic<long> atomic_total{0};
    // witness protocol (harness-level, only touched while somebody asks for a witness)
    static pthread_mutex_t wm = PTHREAD_MUTEX_INITIALIZER;
    static pthread_cond_t wc = PTHREAD_COND_INITIALIZER;
    static uint64_t entries;
    static int free_runners;
    static std::atomic<int> want_witness{0};

    struct Ctx
    {
        Thr *t;
        vf::Rng rng;
        int depth;  // nesting this thread performed since its last save (what syslock_counter must report)
        int budget; // remaining lock operations
        int me;
    };
    static void touch(Ctx &c)
    {
        int o = owner.load(std::memory_order_relaxed);
        if (o != c.me)
            TFAIL("lock:exclusion:inside", "thread %d is inside its critical section (depth %d) but owner mark is %d", c.me, c.depth, o);
        else
            c.t->ok[C_INSIDE]++;
        plain_counter = plain_counter + 1;
        atomic_total.fetch_add(1, std::memory_order_relaxed);
    }
    static void check_depth(Ctx &c, const char *where)
    {
        int n = syslock_counter();
        if (n != c.depth)
            TFAIL("lock:depth", "syslock_counter()=%d but the thread performed nesting %d (%s)", n, c.depth, where);
        else
            c.t->ok[C_DEPTH]++;
    }
    static void on_enter(Ctx &c)
    {
        c.depth++;
        if (c.depth == 1)
        {
            int prev = owner.exchange(c.me, std::memory_order_relaxed);
            if (prev != 0)
                TFAIL("lock:exclusion:entry", "thread %d acquired the system lock while thread %d owns it", c.me, prev);
            else
                c.t->ok[C_ENTRY_EXCL]++;
            if (want_witness.load(std::memory_order_relaxed) > 0)
            {
                pthread_mutex_lock(&wm);
                entries++;
                pthread_cond_broadcast(&wc);
                pthread_mutex_unlock(&wm);
            }
        }
        else
        {
            int o = owner.load(std::memory_order_relaxed);
            if (o != c.me)
                TFAIL("lock:reentry", "nested acquisition by %d at depth %d sees owner %d", c.me, c.depth, o);
            else
                c.t->ok[C_REENTRY]++;
        }
        check_depth(c, "after lock");
        g_progress.fetch_add(1, std::memory_order_relaxed);
    }
    static void on_exit(Ctx &c)
    {
        if (c.depth == 1)
        {
            int prev = owner.exchange(0, std::memory_order_relaxed);
            if (prev != c.me)
                TFAIL("lock:exclusion:exit", "thread %d leaves its outermost section but owner mark is %d", c.me, prev);
            else
                c.t->ok[C_EXIT]++;
        }
        c.depth--;
    }
    static void section(Ctx &c);
    static void witness_wait(Ctx &c)
    {
        c.t->phase.store(PH_WITNESS_WAIT);
        want_witness.fetch_add(1, std::memory_order_relaxed);
        pthread_mutex_lock(&wm);
        uint64_t e0 = entries;
        free_runners--;
        pthread_cond_broadcast(&wc);
        while (entries == e0 && free_runners > 0)
            pthread_cond_wait(&wc, &wm);
        bool seen = entries != e0;
        free_runners++;
        pthread_mutex_unlock(&wm);
        want_witness.fetch_sub(1, std::memory_order_relaxed);
        c.t->phase.store(PH_RUN);
        c.t->ok[seen ? C_SAVE_WITNESSED : C_SAVE_WITNESS_SKIPPED]++;
        g_progress.fetch_add(1, std::memory_order_relaxed);
    }
    static void save_block(Ctx &c)
    {
        int d = c.depth;
        int prev = owner.exchange(0, std::memory_order_relaxed);
        if (prev != c.me)
            TFAIL("lock:exclusion:inside", "before save: owner mark is %d, expected %d", prev, c.me);
        struct syslock_save_pair s = system_lock_save();
        c.depth = 0;
        int k = c.rng.range(0, 2);
        bool witnessed = false;
        for (int i = 0; i < k && !g_failed.load(std::memory_order_relaxed); i++)
        {
            switch (c.rng.below(3))
            {
            case 0:
                if (!witnessed)
                {
                    witness_wait(c);
                    witnessed = true;
                }
                break;
            case 1:
                if (c.budget > 0)
                {
                    section(c);
                    c.t->ok[C_SAVE_INNER_SECTION]++;
                }
                break;
            default:
                perturb(c.t, S_HARNESS);
            }
        }
        system_lock_restore(s);
        c.depth = d;
        prev = owner.exchange(c.me, std::memory_order_relaxed);
        if (prev != 0)
            TFAIL("lock:exclusion:restore", "system_lock_restore returned to %d while thread %d owns the lock", c.me, prev);
        else
            c.t->ok[C_RESTORE_EXCL]++;
        int n = syslock_counter();
        if (n != d)
            TFAIL("lock:restore-depth", "after restore syslock_counter()=%d, saved depth %d", n, d);
        else
            c.t->ok[C_RESTORE_DEPTH]++;
        touch(c);
        g_progress.fetch_add(1, std::memory_order_relaxed);
    }
    static void body(Ctx &c)
    {
        int n = c.rng.range(0, 3);
        for (int i = 0; i < n && !g_failed.load(std::memory_order_relaxed); i++)
        {
            switch (c.rng.below(7))
            {
            case 0:
            case 1:
                touch(c);
                break;
            case 2:
                perturb(c.t, S_IN_SECTION);
                touch(c);
                break;
            case 3:
            case 4:
                if (c.depth < 8 && c.budget > 0)
                {
                    section(c);
                    // one nested acquisition undone, depth still > 0: the lock must still be ours
                    perturb(c.t, S_IN_SECTION);
                    touch(c);
                    c.t->ok[C_HELD_AFTER_INNER]++;
                }
                break;
            case 5:
                if (c.budget > 0)
                    save_block(c);
                break;
            default:
                touch(c);
            }
        }
    }
    static void section(Ctx &c)
    {
        c.budget--;
        int style = (int)c.rng.below(8);
        if (style == 0)
        {
            igris::syslock_guard g;
            on_enter(c);
            body(c);
            on_exit(c);
            c.t->ok[C_GUARD_CLASS]++;
        }
        else if (style == 1)
        {
            igris::syslock l;
            l.lock();
            on_enter(c);
            body(c);
            on_exit(c);
            l.unlock();
            c.t->ok[C_GUARD_CLASS]++;
        }
        else
        {
            system_lock();
            on_enter(c);
            body(c);
            on_exit(c);
            system_unlock();
        }
    }
    static int g_budget;
    static void thread_fn(Thr *t)
    {
        Ctx c{t, vf::Rng(t->pkey, 0x10c4), 0, g_budget, t->id + 1};
        while (c.budget > 0 && !g_failed.load(std::memory_order_relaxed))
        {
            section(c);
            if (syslock_counter() != 0)
                TFAIL("lock:depth", "syslock_counter()=%d after the outermost unlock", syslock_counter());
            perturb(t, S_HARNESS);
        }
        pthread_mutex_lock(&wm);
        free_runners--;
        pthread_cond_broadcast(&wc);
        pthread_mutex_unlock(&wm);
    }
    static void diagnose()
    {
        int nw = 0, who = -1;
        for (int i = 0; i < g_watch.nthreads; i++)
            if (!g_thr[i].done.load() && g_thr[i].phase.load() == PH_WITNESS_WAIT)
            {
                nw++;
                who = i;
            }
        if (nw)
            vf::fail_nothrow("lock:save-not-released",
                             "deadlock: thread %d called system_lock_save and waits for another thread to enter, every other "
                             "unfinished thread is blocked (in system_lock); owner mark=%d",
                             who + 1, owner.load());
        else
            vf::fail_nothrow("deadlock:lock", "all unfinished threads of the lock case are blocked; owner mark=%d", owner.load());
    }
    static uint64_t count() { return vf::thorough() ? 12000 : 600; }
    static void run(uint64_t idx)
    {
        vf::cls("lock");
        vf::Rng r(vf::seed(), 0x10c0, idx);
        int nthreads = r.range(2, 8);
        int total = r.range(50, 500);
        CaseCfg c = make_cfg(r, 0x10c1, idx, nthreads);
        g_budget = std::max(2, total / nthreads);
        owner.store(0);
        plain_counter = 0;
        atomic_total.store(0);
        entries = 0;
        free_runners = nthreads;
        want_witness.store(0);
        if (vf::verbose())
            printf("lock case: threads=%d lock-ops/thread=%d perturb level=%d hot=0x%x\n", nthreads, g_budget, c.level, c.hot);
        case_begin("lock", c, diagnose);
        threads_start(nthreads, thread_fn);
        for (int i = 0; i < nthreads; i++)
            thread_join(i);
        case_end();
        if (!g_failed.load())
        {
            if (plain_counter != atomic_total.load())
                vf::fail_nothrow("lock:counter-total", "unsynchronised counter %ld != %ld increments made inside critical sections",
                                 (long)plain_counter, atomic_total.load());
            else
                VF_OK("lock: plain counter total equals increments");
            if (owner.load() != 0)
                vf::fail_nothrow("lock:exclusion:exit", "owner mark %d after all threads finished", owner.load());
        }
        merge_clauses(names, NCL, nthreads, false);
        vf::count_case(vf::mix(vf::mix(0x10c, nthreads), vf::mix(g_budget, vf::mix(c.key, c.level))), true);
    }
    VF_SUITE(lock, count, run)
}

#include "wq.h"
#include "sq.h"
#include "ev.h"

extern "C" void vf_setup()
{
    for (int i = 0; i < lk::NCL; i++)
        if (i != lk::C_SAVE_WITNESS_SKIPPED)
            vf::require(lk::names[i]);
    vf::require("lock: plain counter total equals increments");
    for (int i = 0; i < wq::NCL; i++)
        vf::require(wq::names[i]);
    for (int i = 0; i < sq::NCL; i++)
        vf::require(sq::names[i]);
    for (int i = 0; i < ev::NCL; i++)
        vf::require(ev::names[i]);
}
