// wq.h — suite 2: wait queues (wait_current_schedee / unwait_one / unwait_all). Included by sync.cpp.
#pragma once

namespace wq
{
    enum
    {
        C_WOKEN_BY_UNLINKER,
        C_TOKEN_UNLINK,
        C_ORDER_ONE,
        C_ORDER_ALL,
        C_ONE_AT_MOST_ONE,
        C_ALL_DRAINS,
        C_EMPTY_SEEN,
        C_PARK_PRIO,
        C_ALL_RETURNED,
        C_QUEUES_EMPTY,
        C_NESTED_WAKER,
        C_ORDER_DEEP,
        C_PRIO_JUMP,
        NCL
    };
    static const char *names[NCL] = {"wq: returned waiter carries the token of the unwait that unlinked it",
                                     "wq: unlink event carries the caller's token",
                                     "wq: unwait_one unlinked the model head (FIFO/priority)",
                                     "wq: unwait_all unlinked in model order",
                                     "wq: unwait_one woke at most one",
                                     "wq: unwait_all left the queue empty",
                                     "wq: unwait without unlink saw an empty model queue in its window",
                                     "wq: park position matches requested priority",
                                     "wq: every unlinked waiter returned (bounded progress)",
                                     "wq: queues empty at the end",
                                     "wq: unwait called with the system lock already held",
                                     "wq: head chosen among >= 2 queued waiters",
                                     "wq: prioritised waiter parked in front of a non-empty queue"};
    enum
    {
        PH_IDLE = 0,
        PH_WAITING = 1
    };
    struct Params
    {
        int nq, nwaiters, nwakers, rounds, wops, prio_pct, all_pct, lazy;
    };
    static Params P;
    static igris::dlist_base *heads;
    static std::atomic<int> waiters_left{0};

    static void scribble(Thr *t)
    {
        // reuse the stack area wait_current_schedee's frame just occupied
        volatile char buf[768];
        for (size_t i = 0; i < sizeof buf; i += 8)
            buf[i] = (char)(t->pn + i);
        (void)buf[16];
    }
    static void waiter_fn(Thr *t)
    {
        vf::Rng r(t->pkey, 0x2a17);
        for (int k = 0; k < P.rounds && !g_failed.load(std::memory_order_relaxed); k++)
        {
            int q = (int)r.below(P.nq);
            // the parameter is an int tested for truth: every non-zero value asks for the front of the queue, not only
            // the named constant (seeded C20-r5s2 tested `priority & WAIT_PRIORITY`: even values parked at the back)
            static const int prio_values[] = {WAIT_PRIORITY, WAIT_PRIORITY, 2, 3, 4, -1, -2, 0x100, INT_MIN, INT_MAX};
            int prio = (int)r.below(100) < P.prio_pct ? prio_values[r.below(sizeof prio_values / sizeof prio_values[0])] : 0;
            perturb(t, S_HARNESS);
            t->cur_q = q;
            t->cur_op = (uint32_t)k;
            void *fut = nullptr;
            logev(E_WCALL, t->id, q, prio != 0, t->cur_op, nullptr, 0);
            t->phase.store(PH_WAITING);
            int rc = wait_current_schedee(&heads[q], prio, &fut);
            t->phase.store(PH_IDLE);
            logev(E_WRET, t->id, q, rc, t->cur_op, nullptr, (intptr_t)fut);
            g_progress.fetch_add(1, std::memory_order_relaxed);
            perturb(t, S_AFTER_WAKE);
            scribble(t);
        }
        waiters_left.fetch_sub(1, std::memory_order_release);
    }
    static void do_unwait(Thr *t, int q, bool all, bool nested)
    {
        intptr_t token = ((intptr_t)(t->id + 1) << 24) | (intptr_t)(t->cur_op & 0xffffff);
        t->cur_q = q;
        if (nested)
            system_lock();
        logev(E_UCALL, t->id, q, all, t->cur_op, nullptr, token);
        if (all)
            unwait_all(&heads[q], token);
        else
            unwait_one(&heads[q], token);
        logev(E_URET, t->id, q, all, t->cur_op, nullptr, token);
        if (nested)
        {
            system_unlock();
            t->ok[C_NESTED_WAKER]++;
        }
        t->cur_op++;
    }
    static void waker_fn(Thr *t)
    {
        vf::Rng r(t->pkey, 0x2a18);
        t->cur_op = 1;
        for (int k = 0; k < P.wops && !g_failed.load(std::memory_order_relaxed); k++)
        {
            if (waiters_left.load(std::memory_order_acquire) == 0)
                break;
            perturb(t, S_HARNESS);
            if (P.lazy)
                usleep((useconds_t)r.range(20, 60 * P.lazy));
            do_unwait(t, (int)r.below(P.nq), (int)r.below(100) < P.all_pct, r.chance(1, 8));
            g_progress.fetch_add(1, std::memory_order_relaxed);
        }
    }
    static void thread_fn(Thr *t)
    {
        if (t->id < P.nwaiters)
            waiter_fn(t);
        else
            waker_fn(t);
    }

    // ---------------------------------------------------------------- offline replay against the sequential model
    struct WaitOp
    {
        bool open = false, parked = false, unlinked = false;
        int q = 0, prio = 0;
        const void *node = nullptr;
        intptr_t token_unlink = 0;
        uint32_t park_idx = 0, unlink_idx = 0;
    };
    struct WakeOp
    {
        bool open = false, all = false;
        int q = 0;
        intptr_t token = 0;
        int nunlinked = 0;
        size_t min_size = 0, residual = 0;
        uint32_t call_idx = 0;
    };
    struct Replay
    {
        std::deque<int> model[2];
        WaitOp w[MAXT + 1];
        WakeOp k[MAXT + 1];
        uint64_t ok[NCL] = {0};
        uint64_t order_hash = 0x20c;
        size_t max_depth = 0;
        uint64_t nunlinks = 0, nparks = 0;
        bool bad = false;
        // returns false on the first violation (already reported)
        bool fail(uint32_t i, const char *key, const char *fmt, ...) __attribute__((format(printf, 4, 5)))
        {
            char d[700];
            va_list ap;
            va_start(ap, fmt);
            vsnprintf(d, sizeof d, fmt, ap);
            va_end(ap);
            vf::fail_nothrow(key, "%s | at event %u; log: %s", d, i, log_tail(i, 14).c_str());
            bad = true;
            return false;
        }
        void touch_min(int q)
        {
            for (auto &o : k)
                if (o.open && o.q == q && model[q].size() < o.min_size)
                    o.min_size = model[q].size();
        }
        bool step(uint32_t i, const Ev &e)
        {
            int t = e.tid;
            switch (e.kind)
            {
            case E_WCALL:
                w[t] = WaitOp();
                w[t].open = true;
                w[t].q = e.q;
                w[t].prio = e.flag;
                break;
            case E_PARK:
            {
                order_hash = vf::mix(order_hash, e.kind * 16 + t);
                WaitOp &o = w[t];
                if (!o.open || o.parked)
                    return fail(i, "wq:model:park-outside-wait", "park hook of thread %d outside a wait call", t);
                if ((int)e.flag != o.prio)
                    return fail(i, "wq:park-priority", "thread %d asked priority %d, parked with %d", t, o.prio, e.flag);
                o.parked = true;
                o.node = e.node;
                o.park_idx = i;
                if (o.prio && !model[o.q].empty())
                    ok[C_PRIO_JUMP]++;
                if (o.prio)
                    model[o.q].push_front(t);
                else
                    model[o.q].push_back(t);
                ok[C_PARK_PRIO]++;
                nparks++;
                if (model[o.q].size() > max_depth)
                    max_depth = model[o.q].size();
                break;
            }
            case E_GAPW:
            case E_GAPN:
                order_hash = vf::mix(order_hash, e.kind * 16 + t);
                break;
            case E_UCALL:
            {
                WakeOp &o = k[t];
                o = WakeOp();
                o.open = true;
                o.all = e.flag;
                o.q = e.q;
                o.token = e.token;
                o.min_size = model[o.q].size();
                o.call_idx = i;
                break;
            }
            case E_UNLINK:
            {
                order_hash = vf::mix(order_hash, e.kind * 16 + t);
                WakeOp &o = k[t];
                if (!o.open)
                    return fail(i, "wq:model:unlink-outside-unwait", "unlink hook of thread %d outside an unwait call", t);
                if (e.token != o.token)
                    return fail(i, "wq:token:unlink", "unlink carries token %lx, caller passed %lx", (long)e.token, (long)o.token);
                ok[C_TOKEN_UNLINK]++;
                std::deque<int> &m = model[o.q];
                int who = -1;
                size_t pos = 0;
                for (size_t j = 0; j < m.size(); j++)
                    if (w[m[j]].node == e.node)
                    {
                        who = m[j];
                        pos = j;
                        break;
                    }
                if (who < 0)
                    return fail(i, "wq:unlink-not-queued",
                                "%s unlinked node %lx which is not queued on queue %d in the model (double wake / stale node)",
                                o.all ? "unwait_all" : "unwait_one", (long)((uintptr_t)e.node & 0xffffff), o.q);
                if (pos != 0)
                    return fail(i, o.all ? "wq:order:unwait_all" : "wq:order:unwait_one",
                                "unlinked waiter thread %d at model position %zu; model head is thread %d (queue %d, depth %zu)", who, pos,
                                m[0], o.q, m.size());
                ok[o.all ? C_ORDER_ALL : C_ORDER_ONE]++;
                if (m.size() >= 2)
                    ok[C_ORDER_DEEP]++;
                if (!o.all && o.nunlinked >= 1)
                    return fail(i, "wq:unwait_one:woke-more-than-one", "unwait_one unlinked a second waiter (thread %d)", who);
                m.pop_front();
                o.nunlinked++;
                o.residual = m.size();
                w[who].unlinked = true;
                w[who].token_unlink = e.token;
                w[who].unlink_idx = i;
                nunlinks++;
                touch_min(o.q);
                break;
            }
            case E_URET:
            {
                WakeOp &o = k[t];
                if (!o.open)
                    return fail(i, "wq:model:unlink-outside-unwait", "unwait return without call (thread %d)", t);
                if (o.nunlinked == 0)
                {
                    if (o.min_size > 0)
                        return fail(i, "wq:unwait:ignored-waiter",
                                    "%s on queue %d (called at event %u) unlinked nobody although at least %zu waiter(s) were queued "
                                    "during the whole call",
                                    o.all ? "unwait_all" : "unwait_one", o.q, o.call_idx, o.min_size);
                    ok[C_EMPTY_SEEN]++;
                }
                else if (o.all)
                {
                    if (o.residual != 0)
                        return fail(i, "wq:unwait_all:left-waiters", "unwait_all left %zu waiter(s) queued on queue %d", o.residual, o.q);
                    ok[C_ALL_DRAINS]++;
                }
                else
                    ok[C_ONE_AT_MOST_ONE]++;
                o.open = false;
                break;
            }
            case E_WRET:
            {
                WaitOp &o = w[t];
                if (!o.open || !o.parked)
                    return fail(i, "wq:return-without-park", "wait_current_schedee of thread %d returned without having parked", t);
                if (!o.unlinked)
                    return fail(i, "wq:spurious-wake",
                                "thread %d returned from wait_current_schedee (parked at event %u, queue %d) but no unwait had unlinked it",
                                t, o.park_idx, o.q);
                if (e.token != o.token_unlink)
                    return fail(i, "wq:token:return", "thread %d returned token %lx, it was unlinked (event %u) with token %lx", t,
                                (long)e.token, o.unlink_idx, (long)o.token_unlink);
                if (e.flag != 0)
                    return fail(i, "wq:return-code", "wait_current_schedee returned %d", e.flag);
                ok[C_WOKEN_BY_UNLINKER]++;
                ok[C_ALL_RETURNED]++;
                o.open = false;
                break;
            }
            }
            return true;
        }
    };

    static void diagnose()
    {
        // rebuild the park/unlink state of every waiter from the log
        uint32_t n = g_nlog.load();
        if (n > MAXEV)
            n = MAXEV;
        const void *node[MAXT] = {nullptr};
        int st[MAXT] = {0}; // 0 none, 1 called, 2 parked, 3 unlinked
        uint32_t pidx[MAXT] = {0}, uidx[MAXT] = {0};
        long utok[MAXT] = {0};
        for (uint32_t i = 0; i < n; i++)
        {
            Ev &e = g_log[i];
            if (!e.ready.load(std::memory_order_acquire))
                continue;
            if (e.kind == E_WCALL && e.tid < MAXT)
                st[e.tid] = 1;
            else if (e.kind == E_PARK && e.tid < MAXT)
            {
                st[e.tid] = 2;
                node[e.tid] = e.node;
                pidx[e.tid] = i;
            }
            else if (e.kind == E_UNLINK)
            {
                for (int t = 0; t < MAXT; t++)
                    if (st[t] == 2 && node[t] == e.node)
                    {
                        st[t] = 3;
                        uidx[t] = i;
                        utok[t] = (long)e.token;
                    }
            }
            else if (e.kind == E_WRET && e.tid < MAXT)
                st[e.tid] = 0;
        }
        bool reported = false;
        for (int t = 0; t < P.nwaiters; t++)
            if (!g_thr[t].done.load() && st[t] == 3)
            {
                vf::fail_nothrow("wq:lost-wakeup",
                                 "deadlock: waiter thread %d parked at event %u, was unlinked at event %u by an unwait with token %lx (so it "
                                 "is no longer in any list) but never returned from wait_current_schedee; log around the unlink: %s",
                                 t, pidx[t], uidx[t], utok[t], log_tail(uidx[t] + 4, 16).c_str());
                reported = true;
                break;
            }
        if (!reported)
        {
            int parked = 0;
            for (int t = 0; t < P.nwaiters; t++)
                if (!g_thr[t].done.load() && st[t] == 2)
                    parked++;
            vf::fail_nothrow("deadlock:wq", "all unfinished threads are blocked; %d waiter(s) still parked and never unlinked; log: %s", parked,
                             log_tail(n, 24).c_str());
        }
    }

    static uint64_t count() { return vf::thorough() ? 18000 : 900; }
    static void run(uint64_t idx)
    {
        vf::cls("wq");
        vf::Rng r(vf::seed(), 0x2a10, idx);
        P.nq = r.range(1, 2);
        P.nwaiters = r.range(1, 5);
        P.nwakers = r.range(1, 3);
        int total = r.range(50, 500);
        P.rounds = std::max(2, (total * 2 / 3) / P.nwaiters);
        P.wops = std::max(4, (total * 2) / P.nwakers); // wakers stop early when the waiters are finished
        P.prio_pct = r.pick((const int[]){0, 0, 20, 50});
        P.all_pct = r.pick((const int[]){0, 15, 15, 50});
        P.lazy = r.pick((const int[]){0, 0, 1, 3, 6});
        int nthreads = P.nwaiters + P.nwakers;
        CaseCfg c = make_cfg(r, 0x2a11, idx, nthreads);
        if (vf::verbose())
            printf("wq case: queues=%d waiters=%d (rounds %d) wakers=%d (ops<=%d) prio%%=%d all%%=%d lazy=%d level=%d hot=0x%x\n", P.nq,
                   P.nwaiters, P.rounds, P.nwakers, P.wops, P.prio_pct, P.all_pct, P.lazy, c.level, c.hot);
        heads = new igris::dlist_base[2];
        waiters_left.store(P.nwaiters);
        case_begin("wq", c, diagnose);
        threads_start(nthreads, thread_fn);
        for (int i = P.nwaiters; i < nthreads; i++)
            thread_join(i);
        // wakers have stopped: final unwait_all rounds until every waiter finished its rounds
        Thr *me = &g_thr[MAIN_ID];
        me->cur_op = 1;
        while (waiters_left.load(std::memory_order_acquire) > 0)
        {
            // only when the hook counters say somebody is parked (keeps the log short on a loaded machine)
            if (g_parked_now.load(std::memory_order_relaxed) > 0)
                for (int q = 0; q < P.nq; q++)
                    do_unwait(me, q, true, false);
            usleep(100);
        }
        for (int i = 0; i < P.nwaiters; i++)
            thread_join(i);
        case_end();

        uint32_t n = g_nlog.load();
        if (n > MAXEV)
        {
            vf::fail_nothrow("harness:wq:log-overflow", "%u events", n);
            n = MAXEV;
        }
        Replay *R = new Replay();
        if (!g_failed.load())
        {
            for (uint32_t i = 0; i < n; i++)
                if (!R->step(i, g_log[i]))
                    break;
            if (!R->bad)
            {
                bool clean = true;
                for (int q = 0; q < 2; q++)
                    if (!R->model[q].empty() || !heads[q].empty())
                    {
                        vf::fail_nothrow("wq:queue-not-empty-at-end", "queue %d: model holds %zu, list empty=%d after all waiters returned", q,
                                         R->model[q].size(), (int)heads[q].empty());
                        clean = false;
                    }
                for (int t = 0; t < P.nwaiters; t++)
                    if (R->w[t].open)
                    {
                        vf::fail_nothrow("wq:model:open-wait-at-end", "thread %d", t);
                        clean = false;
                    }
                if (clean)
                    R->ok[C_QUEUES_EMPTY]++;
            }
        }
        for (int cidx = 0; cidx < NCL; cidx++)
            g_thr[MAIN_ID].ok[cidx] += R->ok[cidx];
        merge_clauses(names, NCL, nthreads, true);
        if (!R->bad && !g_failed.load())
        {
            vf::state(R->order_hash);
            VF_MAX("wq: max model queue depth", R->max_depth);
            VF_OKN("wq: park events", R->nparks);
            VF_OKN("wq: unlink events", R->nunlinks);
        }
        vf::count_case(vf::mix(vf::mix(0x2a1, c.key), vf::mix(P.nwaiters * 100 + P.nwakers * 10 + P.nq, P.rounds)), R->nunlinks > 0);
        if (vf::want_sample())
            vf::sample("wq idx=%llu: %d waiters x %d rounds, %d wakers, %d queue(s), prio%%=%d all%%=%d: %llu parks, %llu unlinks, max depth %zu",
                       (unsigned long long)idx, P.nwaiters, P.rounds, P.nwakers, P.nq, P.prio_pct, P.all_pct, (unsigned long long)R->nparks,
                       (unsigned long long)R->nunlinks, R->max_depth);
        delete R;
        delete[] heads;
        heads = nullptr;
    }
    VF_SUITE(wq, count, run)
}
