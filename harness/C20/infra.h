// infra.h — C20 harness infrastructure: per-thread contexts, deterministic schedule perturbation,
// global event log (hook + client-boundary events), per-case watchdog with /proc based deadlock
// confirmation, ThreadSanitizer report capture.
#pragma once
#include <assert.h> // before vf.h: vf.h redefines __assert_fail
#include "vf.h"
#include <atomic>
#include <dirent.h>
#include <pthread.h>
#include <sched.h>
#include <semaphore.h>
#include <sys/syscall.h>

namespace h
{
    enum
    {
        MAXT = 8,       // worker threads per case
        MAIN_ID = MAXT, // logical id of the case's main thread
        MAXEV = 1 << 18
    };

    // ------------------------------------------------------------------ per-thread context
    enum Site
    {
        S_HARNESS = 0, // between client operations
        S_WAIT_GAP,    // hook: waiter between system_unlock and event.wait
        S_EVENT_GAP,   // hook: event::signal between unlock and notify
        S_IN_SECTION,  // inside a system-lock critical section
        S_AFTER_WAKE,  // waiter just returned
        NSITES
    };
    enum
    {
        MAXCL = 48
    };
    struct Thr
    {
        int id = 0;
        uint64_t pkey = 0;
        uint32_t pn = 0;
        int level = 0;    // perturbation intensity 0..3
        uint32_t hot = 0; // sites with a high delay probability
        std::atomic<int> ktid{0};
        std::atomic<int> phase{0}; // suite specific, read by the watchdog's diagnosis
        std::atomic<int> done{0};
        int cur_q = 0;
        uint32_t cur_op = 0;
        uint64_t ok[MAXCL] = {0}; // local clause counters, merged by the main thread after join
        void *arg = nullptr;
        void reset(int i)
        {
            id = i;
            pkey = 0;
            pn = 0;
            level = 0;
            hot = 0;
            ktid.store(0);
            phase.store(0);
            done.store(0);
            cur_q = 0;
            cur_op = 0;
            memset(ok, 0, sizeof ok);
            arg = nullptr;
        }
    };
    static Thr g_thr[MAXT + 1];
    static thread_local Thr *tctx = nullptr;
    static std::atomic<uint64_t> g_progress{0};
    static std::atomic<int> g_failed{0}; // a monitor fired: threads wind down quickly

    // schedule perturbation: a pure function of (case key, thread, site, per-thread call number)
    static inline void perturb(Thr *t, int site)
    {
        if (!t || t->level == 0)
            return;
        uint64_t hh = vf::mix(t->pkey, ((uint64_t)site << 40) ^ t->pn++);
        unsigned r = hh & 63;
        bool hot = (t->hot >> site) & 1;
        unsigned thresh = hot ? 52 : (t->level == 1 ? 6 : t->level == 2 ? 18 : 34);
        if (r >= thresh)
            return;
        unsigned k = (hh >> 8) & 7;
        if (k < 3)
            sched_yield();
        else if (k < 6)
            usleep((useconds_t)((hh >> 16) % 40));
        else
            usleep((useconds_t)((hh >> 16) % 201));
    }

    // ------------------------------------------------------------------ event log
    enum EvKind : uint8_t
    {
        E_NONE = 0,
        E_WCALL, // waiter calls wait_current_schedee (q, flag=prio)
        E_WRET,  // waiter returned (token)
        E_PARK,  // hook: waiter linked (node, flag=prio) – under the system lock
        E_GAPW,  // hook: waiter between unlock and event wait
        E_UNLINK, // hook: waker unlinked node (token) – under the system lock
        E_GAPN,  // hook: signaller between unlock and notify
        E_UCALL, // waker calls unwait_one/all (q, flag=all, token)
        E_URET
    };
    struct Ev
    {
        std::atomic<uint8_t> ready;
        uint8_t kind, tid, q, flag;
        uint32_t op;
        const void *node;
        intptr_t token;
    };
    static Ev *g_log = nullptr;
    static std::atomic<uint32_t> g_nlog{0};
    static inline uint32_t logev(uint8_t kind, int tid, int q, int flag, uint32_t op, const void *node, intptr_t token)
    {
        // relaxed: the index order is the order of the enclosing critical sections (PARK/UNLINK are
        // taken under the system lock); relaxed RMWs create no happens-before edges for TSan
        uint32_t i = g_nlog.fetch_add(1, std::memory_order_relaxed);
        if (i < MAXEV)
        {
            Ev &e = g_log[i];
            e.kind = kind;
            e.tid = (uint8_t)tid;
            e.q = (uint8_t)q;
            e.flag = (uint8_t)flag;
            e.op = op;
            e.node = node;
            e.token = token;
            e.ready.store(1, std::memory_order_release);
        }
        return i;
    }
    static inline void log_reset()
    {
        if (!g_log)
            g_log = (Ev *)calloc(MAXEV, sizeof(Ev));
        uint32_t n = g_nlog.load();
        if (n > MAXEV)
            n = MAXEV;
        for (uint32_t i = 0; i < n; i++)
            g_log[i].ready.store(0, std::memory_order_relaxed);
        g_nlog.store(0);
    }
    static const char *evname(uint8_t k)
    {
        static const char *n[] = {"-", "wait-call", "wait-ret", "PARK", "gap-wait", "UNLINK", "gap-notify", "unwait-call", "unwait-ret"};
        return k < 9 ? n[k] : "?";
    }
    static std::string log_tail(uint32_t upto, uint32_t maxn = 40)
    {
        std::string s;
        uint32_t n = g_nlog.load();
        if (n > MAXEV)
            n = MAXEV;
        if (upto + 1 < n)
            n = upto + 1;
        uint32_t from = n > maxn ? n - maxn : 0;
        char b[160];
        for (uint32_t i = from; i < n; i++)
        {
            Ev &e = g_log[i];
            if (!e.ready.load(std::memory_order_acquire))
                continue;
            snprintf(b, sizeof b, "[%u t%d %s q%d f%d tok=%lx n=%lx] ", i, e.tid, evname(e.kind), e.q, e.flag, (long)e.token,
                     (long)((uintptr_t)e.node & 0xffffff));
            s += b;
        }
        return s;
    }

    // ------------------------------------------------------------------ ThreadSanitizer report capture
    struct TsRec
    {
        char kind[48];
        char fa[120], fb[120]; // innermost repo function of both accesses
        char oa[120], ob[120]; // outermost repo function of both accesses
    };
    static TsRec g_ts[12];
    static std::atomic<int> g_nts{0};
    static std::atomic<int> g_ts_total{0};
    static void drain_tsan()
    {
        int n = g_nts.load();
        if (n > 12)
            n = 12;
        for (int i = 0; i < n; i++)
        {
            TsRec &r = g_ts[i];
            bool dup = false;
            for (int j = 0; j < i; j++)
                if (!strcmp(g_ts[j].kind, r.kind) && !strcmp(g_ts[j].oa, r.oa) && !strcmp(g_ts[j].ob, r.ob) &&
                    !strcmp(g_ts[j].fa, r.fa) && !strcmp(g_ts[j].fb, r.fb))
                    dup = true;
            if (dup)
                continue;
            char key[vf::KEY_LEN];
            const char *a = r.fa, *b = r.fb;
            if (b[0] && strcmp(a, b) > 0)
            {
                const char *t = a;
                a = b;
                b = t;
            }
            if (b[0] && strcmp(a, b))
                snprintf(key, sizeof key, "tsan:%s:%s/%s", r.kind, a[0] ? a : "harness", b);
            else
                snprintf(key, sizeof key, "tsan:%s:%s", r.kind, a[0] ? a : "harness");
            vf::fail_nothrow(key, "ThreadSanitizer %s; innermost repo functions %s | %s; outermost repo frames %s | %s "
                                  "(full report in the worker's san.<pid> log)",
                             r.kind, r.fa, r.fb, r.oa, r.ob);
        }
        g_nts.store(0);
    }

    // ------------------------------------------------------------------ watchdog
    struct Watch
    {
        pthread_t th;
        std::atomic<int> stop{0};
        int nthreads = 0;
        const char *suite = "";
        // called on a confirmed deadlock; records the failure(s); must not return control to the case
        void (*diagnose)(void) = nullptr;
        double stall_s = 2.0, abs_s = 100.0;
    };
    static bool thread_blocked(int ktid, unsigned long long *cpu)
    {
        char path[96], buf[600];
        snprintf(path, sizeof path, "/proc/self/task/%d/stat", ktid);
        int fd = open(path, O_RDONLY);
        if (fd < 0)
            return true; // thread gone
        ssize_t n = read(fd, buf, sizeof buf - 1);
        close(fd);
        if (n <= 0)
            return false;
        buf[n] = 0;
        char *p = strrchr(buf, ')');
        if (!p || !p[1] || !p[2])
            return false;
        char st = p[2];
        // fields after state: ppid pgrp session tty tpgid flags minflt cminflt majflt cmajflt utime stime
        unsigned long long ut = 0, stt = 0;
        int field = 0;
        for (char *q = p + 3; *q; q++)
            if (*q == ' ')
            {
                field++;
                if (field == 11)
                    ut = strtoull(q + 1, nullptr, 10);
                if (field == 12)
                    stt = strtoull(q + 1, nullptr, 10);
            }
        *cpu = ut + stt;
        return st == 'S';
    }
    static void *watch_main(void *a)
    {
        Watch *w = (Watch *)a;
        uint64_t t0 = vf::now_ns(), last_change = t0, lastp = g_progress.load(std::memory_order_relaxed);
        int confirm = 0;
        unsigned long long cpu_prev[MAXT] = {0};
        while (!w->stop.load(std::memory_order_acquire))
        {
            usleep(20000);
            uint64_t now = vf::now_ns();
            uint64_t p = g_progress.load(std::memory_order_relaxed);
            if (p != lastp)
            {
                lastp = p;
                last_change = now;
                confirm = 0;
            }
            if ((now - last_change) / 1e9 > w->stall_s)
            {
                // no progress: a deadlock only if every unfinished worker sleeps without consuming CPU
                bool all = true;
                int unfinished = 0;
                for (int i = 0; i < w->nthreads; i++)
                {
                    if (g_thr[i].done.load(std::memory_order_acquire))
                        continue;
                    unfinished++;
                    int kt = g_thr[i].ktid.load();
                    unsigned long long cpu = 0;
                    if (!kt || !thread_blocked(kt, &cpu) || (confirm && cpu != cpu_prev[i]))
                        all = false;
                    cpu_prev[i] = cpu;
                }
                if (all && unfinished)
                    confirm++;
                else
                    confirm = 0;
                if (confirm >= 25) // 25 consecutive samples = 0.5 s of sleeping threads without CPU time
                {
                    if (p != g_progress.load(std::memory_order_relaxed))
                    {
                        confirm = 0;
                        continue;
                    }
                    drain_tsan();
                    if (w->diagnose)
                        w->diagnose();
                    fflush(nullptr);
                    _exit(77); // recorded failure; the runner restarts the worker
                }
            }
            if ((now - t0) / 1e9 > w->abs_s)
            {
                // threads are still running but the case did not finish: not a verdict (machine load?) –
                // leave the case unaccounted so that the check reports the run as inconclusive
                fprintf(stderr, "C20 %s: case exceeded %.0fs without a confirmed deadlock: inconclusive\n", w->suite, w->abs_s);
                drain_tsan();
                fflush(nullptr);
                _exit(0);
            }
        }
        return nullptr;
    }
    static void watch_start(Watch &w)
    {
        w.stop.store(0);
        pthread_create(&w.th, nullptr, watch_main, &w);
    }
    static void watch_stop(Watch &w)
    {
        w.stop.store(1, std::memory_order_release);
        pthread_join(w.th, nullptr);
    }

    // ------------------------------------------------------------------ thread start helper
    struct Start
    {
        pthread_barrier_t bar;
        void (*fn)(Thr *);
    };
    static Start g_start;
    static void *thr_main(void *a)
    {
        Thr *t = (Thr *)a;
        tctx = t;
        t->ktid.store((int)syscall(SYS_gettid));
        pthread_barrier_wait(&g_start.bar);
        g_start.fn(t);
        t->done.store(1, std::memory_order_release);
        g_progress.fetch_add(1, std::memory_order_relaxed);
        tctx = nullptr;
        return nullptr;
    }

    // clause bookkeeping: threads count into Thr::ok[], main merges
    struct ClauseNames
    {
        const char *name[MAXCL];
    };
    static void merge_clauses(const char *const *names, int ncl, int nthreads, bool include_main)
    {
        for (int c = 0; c < ncl; c++)
        {
            uint64_t n = 0;
            for (int i = 0; i < nthreads; i++)
                n += g_thr[i].ok[c];
            if (include_main)
                n += g_thr[MAIN_ID].ok[c];
            if (n)
                vf::count(names[c], n);
        }
    }
} // namespace h

// ---------------------------------------------------------------------- TSan OnReport override
#ifdef __SANITIZE_THREAD__
// a worker that leaves through _exit (igris assert, confirmed deadlock) has unjoined threads by construction
extern "C" const char *__tsan_default_options() { return "report_thread_leaks=0"; }
extern "C"
{
    int __tsan_get_report_data(void *report, const char **description, int *count, int *stack_count, int *mop_count,
                               int *loc_count, int *mutex_count, int *thread_count, int *unique_tid_count, void **sleep_trace,
                               unsigned long trace_size);
    int __tsan_get_report_stack(void *report, unsigned long idx, void **trace, unsigned long trace_size);
    int __tsan_get_report_mop(void *report, unsigned long idx, int *tid, void **addr, int *size, int *write, int *atomic,
                              void **trace, unsigned long trace_size);
    void __sanitizer_symbolize_pc(void *pc, const char *fmt, char *out_buf, unsigned long out_buf_size);
}
#define H_NOTSAN __attribute__((no_sanitize("thread"), noinline))
namespace h
{
    H_NOTSAN static void ts_clean_fn(char *fn)
    {
        char *p = strchr(fn, '(');
        if (p)
            *p = 0;
        p = strchr(fn, '<');
        if (p)
        {
            char *e = strrchr(fn, '>');
            if (e && e > p)
                memmove(p + 1, e, strlen(e) + 1);
        }
    }
    // innermost and outermost frame of a trace whose file is a repo source (…/igris/…, not the harness)
    H_NOTSAN static void ts_frames(void **tr, int n, char *inner, char *outer, size_t len)
    {
        inner[0] = outer[0] = 0;
        for (int i = 0; i < n && tr[i]; i++)
        {
            char b[500];
            b[0] = 0;
            __sanitizer_symbolize_pc(tr[i], "%f|%s", b, sizeof b);
            char *bar = strrchr(b, '|');
            if (!bar)
                continue;
            *bar = 0;
            const char *file = bar + 1;
            if (!strstr(file, "/igris/") || strstr(file, "/verif/harness/"))
                continue;
            ts_clean_fn(b);
            if (!inner[0])
                snprintf(inner, len, "%s", b);
            snprintf(outer, len, "%s", b);
        }
    }
}
namespace __tsan
{
    struct ReportDesc;
    H_NOTSAN bool OnReport(const ReportDesc *rep, bool suppressed)
    {
        if (suppressed)
            return suppressed;
        h::g_ts_total.fetch_add(1);
        const char *desc = nullptr;
        int count = 0, sc = 0, mc = 0, lc = 0, mtc = 0, tc = 0, utc = 0;
        void *sleep[4];
        __tsan_get_report_data((void *)rep, &desc, &count, &sc, &mc, &lc, &mtc, &tc, &utc, sleep, 4);
        int slot = h::g_nts.fetch_add(1);
        if (slot >= 12)
            return suppressed;
        h::TsRec &r = h::g_ts[slot];
        memset(&r, 0, sizeof r);
        snprintf(r.kind, sizeof r.kind, "%s", desc ? desc : "report");
        void *tr[32];
        int tid, size, wr, at;
        void *addr;
        if (mc >= 1)
        {
            memset(tr, 0, sizeof tr);
            __tsan_get_report_mop((void *)rep, 0, &tid, &addr, &size, &wr, &at, tr, 32);
            h::ts_frames(tr, 32, r.fa, r.oa, sizeof r.fa);
        }
        if (mc >= 2)
        {
            memset(tr, 0, sizeof tr);
            __tsan_get_report_mop((void *)rep, 1, &tid, &addr, &size, &wr, &at, tr, 32);
            h::ts_frames(tr, 32, r.fb, r.ob, sizeof r.fb);
        }
        for (int s = 0; s < sc && s < 2; s++)
        {
            char *in = s == 0 ? r.fa : r.fb, *out = s == 0 ? r.oa : r.ob;
            if (in[0])
                continue;
            memset(tr, 0, sizeof tr);
            __tsan_get_report_stack((void *)rep, s, tr, 32);
            h::ts_frames(tr, 32, in, out, sizeof r.fa);
        }
        return suppressed;
    }
}
#endif
