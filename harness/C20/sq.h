// sq.h — suite 3: igris::safe_queue (exactly once, per-producer order). Included by sync.cpp.
#pragma once

namespace sq
{
    enum
    {
        C_EXACTLY_ONCE,
        C_ORDER,
        C_SIZE_AFTER_GATE,
        C_POLL_POP,
        C_FINAL_EMPTY,
        C_INIT_LIST,
        NCL
    };
    static const char *names[NCL] = {"sq: every pushed id popped exactly once",
                                     "sq: per-producer order preserved (pop pairs ordered in real time)",
                                     "sq: size() >= 1 after the gate admitted a consumer",
                                     "sq: polling consumer popped after size() > 0",
                                     "sq: size() == 0 after all items were popped",
                                     "sq: initializer-list items come out first, in order"};
    struct Pop
    {
        uint64_t call, ret, val;
    };
    struct Params
    {
        int nprod, ncons, per_prod, ninit;
        bool poll;
    };
    static Params P;
    static igris::safe_queue<uint64_t> *Q;
    static sem_t items;
    static std::atomic<uint64_t> stamp{0};
    static std::atomic<int> tickets{0};
    static std::atomic<int> producers_left{0};
    static std::vector<Pop> pops[MAXT];
    static int total_items;

    static void producer_fn(Thr *t, int p)
    {
        for (int s = 0; s < P.per_prod && !g_failed.load(std::memory_order_relaxed); s++)
        {
            perturb(t, S_HARNESS);
            Q->push(((uint64_t)(p + 1) << 32) | (uint32_t)s);
            if (!P.poll)
                sem_post(&items);
            g_progress.fetch_add(1, std::memory_order_relaxed);
        }
        if (g_failed.load(std::memory_order_relaxed) && !P.poll)
            for (int s = 0; s < P.per_prod; s++)
                sem_post(&items); // a monitor fired: let gated consumers run out instead of blocking
        producers_left.fetch_sub(1, std::memory_order_release);
    }
    static void consumer_fn(Thr *t, int c)
    {
        vf::Rng r(t->pkey, 0x5e01);
        std::vector<Pop> &out = pops[c];
        if (P.poll)
        {
            // single consumer polling size()
            int got = 0;
            while (got < total_items && !g_failed.load(std::memory_order_relaxed))
            {
                bool prod_done = producers_left.load(std::memory_order_acquire) == 0;
                size_t sz = Q->size();
                if (sz == 0)
                {
                    if (prod_done)
                    {
                        TFAIL("sq:lost-item", "all producers finished, %d of %d items popped, size()==0", got, total_items);
                        break;
                    }
                    perturb(t, S_HARNESS);
                    sched_yield();
                    continue;
                }
                Pop p;
                p.call = stamp.fetch_add(1, std::memory_order_relaxed);
                p.val = Q->pop();
                p.ret = stamp.fetch_add(1, std::memory_order_relaxed);
                out.push_back(p);
                got++;
                t->ok[C_POLL_POP]++;
                g_progress.fetch_add(1, std::memory_order_relaxed);
                perturb(t, S_AFTER_WAKE);
            }
            return;
        }
        while (!g_failed.load(std::memory_order_relaxed))
        {
            if (tickets.fetch_add(1, std::memory_order_relaxed) >= total_items)
                break;
            sem_wait(&items);
            if (g_failed.load(std::memory_order_relaxed))
                break;
            if (r.chance(1, 2))
            {
                size_t sz = Q->size();
                if (sz == 0)
                {
                    TFAIL("sq:lost-item", "gate admitted a consumer (a completed push per admitted pop) but size()==0");
                    break;
                }
                t->ok[C_SIZE_AFTER_GATE]++;
            }
            perturb(t, S_HARNESS);
            Pop p;
            p.call = stamp.fetch_add(1, std::memory_order_relaxed);
            p.val = Q->pop();
            p.ret = stamp.fetch_add(1, std::memory_order_relaxed);
            out.push_back(p);
            g_progress.fetch_add(1, std::memory_order_relaxed);
        }
    }
    static void thread_fn(Thr *t)
    {
        if (t->id < P.nprod)
            producer_fn(t, t->id);
        else
            consumer_fn(t, t->id - P.nprod);
    }
    static void diagnose()
    {
        int sv = 0;
        sem_getvalue(&items, &sv);
        vf::fail_nothrow("deadlock:sq", "all unfinished threads blocked; producers left=%d tickets=%d gate value=%d (a thread stuck inside "
                                        "safe_queue's semaphore, or an item was lost)",
                         producers_left.load(), tickets.load(), sv);
    }
    static uint64_t count() { return vf::thorough() ? 10000 : 500; }
    static void run(uint64_t idx)
    {
        vf::Rng r(vf::seed(), 0x5e00, idx);
        P.poll = r.chance(1, 3);
        P.nprod = r.range(1, 4);
        P.ncons = P.poll ? 1 : r.range(1, 4);
        int total = r.range(50, 500);
        P.per_prod = std::max(1, total / P.nprod);
        P.ninit = r.chance(1, 4) ? r.range(1, 5) : 0;
        vf::cls(P.poll ? "sq:poll" : "sq:gated");
        int nthreads = P.nprod + P.ncons;
        CaseCfg c = make_cfg(r, 0x5e02, idx, nthreads);
        total_items = P.nprod * P.per_prod + P.ninit;
        if (vf::verbose())
            printf("sq case: %s producers=%d x %d items, consumers=%d, initializer items=%d level=%d hot=0x%x\n", P.poll ? "poll" : "gated",
                   P.nprod, P.per_prod, P.ncons, P.ninit, c.level, c.hot);
        if (P.ninit)
        {
            // producer id 0 = the initializer list
            std::initializer_list<uint64_t> five = {0, 1, 2, 3, 4};
            switch (P.ninit)
            {
            case 1:
                Q = new igris::safe_queue<uint64_t>({0});
                break;
            case 2:
                Q = new igris::safe_queue<uint64_t>({0, 1});
                break;
            case 3:
                Q = new igris::safe_queue<uint64_t>({0, 1, 2});
                break;
            case 4:
                Q = new igris::safe_queue<uint64_t>({0, 1, 2, 3});
                break;
            default:
                Q = new igris::safe_queue<uint64_t>(five);
            }
        }
        else
            Q = new igris::safe_queue<uint64_t>();
        sem_init(&items, 0, (unsigned)P.ninit);
        stamp.store(0);
        tickets.store(0);
        producers_left.store(P.nprod);
        for (auto &v : pops)
            v.clear();
        case_begin("sq", c, diagnose);
        threads_start(nthreads, thread_fn);
        for (int i = 0; i < nthreads; i++)
            thread_join(i);
        case_end();

        if (!g_failed.load())
        {
            // exactly once
            std::vector<Pop> all;
            for (auto &v : pops)
                all.insert(all.end(), v.begin(), v.end());
            std::vector<uint64_t> vals;
            for (auto &p : all)
                vals.push_back(p.val);
            std::sort(vals.begin(), vals.end());
            std::vector<uint64_t> want;
            for (int i = 0; i < P.ninit; i++)
                want.push_back((uint64_t)i);
            for (int p = 0; p < P.nprod; p++)
                for (int s = 0; s < P.per_prod; s++)
                    want.push_back(((uint64_t)(p + 1) << 32) | (uint32_t)s);
            std::sort(want.begin(), want.end());
            bool okv = true;
            for (size_t i = 1; i < vals.size() && okv; i++)
                if (vals[i] == vals[i - 1])
                {
                    vf::fail_nothrow("sq:duplicate", "item producer=%llu seq=%llu popped twice", (unsigned long long)(vals[i] >> 32),
                                     (unsigned long long)(vals[i] & 0xffffffff));
                    okv = false;
                }
            if (okv && vals != want)
            {
                std::vector<uint64_t> missing, alien;
                std::set_difference(want.begin(), want.end(), vals.begin(), vals.end(), std::back_inserter(missing));
                std::set_difference(vals.begin(), vals.end(), want.begin(), want.end(), std::back_inserter(alien));
                if (!alien.empty())
                    vf::fail_nothrow("sq:alien-value", "popped value %llx was never pushed (%zu such)", (unsigned long long)alien[0], alien.size());
                else
                    vf::fail_nothrow("sq:lost-item", "%zu pushed item(s) never popped, first producer=%llu seq=%llu", missing.size(),
                                     (unsigned long long)(missing[0] >> 32), (unsigned long long)(missing[0] & 0xffffffff));
                okv = false;
            }
            if (okv)
                VF_OKN(names[C_EXACTLY_ONCE], vals.size());
            // per-producer order: pop A returned before pop B was called  =>  seq(A) < seq(B)
            if (okv)
            {
                std::map<uint64_t, std::vector<Pop>> byprod;
                for (auto &p : all)
                    byprod[p.val >> 32].push_back(p);
                uint64_t pairs = 0;
                for (auto &kv : byprod)
                {
                    std::vector<Pop> bycall = kv.second, byret = kv.second;
                    std::sort(bycall.begin(), bycall.end(), [](const Pop &a, const Pop &b) { return a.call < b.call; });
                    std::sort(byret.begin(), byret.end(), [](const Pop &a, const Pop &b) { return a.ret < b.ret; });
                    size_t j = 0;
                    bool have = false;
                    uint64_t maxseq = 0;
                    for (auto &b : bycall)
                    {
                        while (j < byret.size() && byret[j].ret < b.call)
                        {
                            uint64_t s = byret[j].val & 0xffffffff;
                            if (!have || s > maxseq)
                                maxseq = s;
                            have = true;
                            j++;
                        }
                        if (have)
                        {
                            pairs++;
                            if ((b.val & 0xffffffff) < maxseq)
                            {
                                vf::fail_nothrow("sq:reordered",
                                                 "producer %llu: item seq %llu was popped by a call that started after the pop of seq %llu "
                                                 "had already returned",
                                                 (unsigned long long)kv.first, (unsigned long long)(b.val & 0xffffffff),
                                                 (unsigned long long)maxseq);
                                okv = false;
                                break;
                            }
                        }
                    }
                    if (!okv)
                        break;
                }
                if (okv)
                    VF_OKN(names[C_ORDER], pairs + 1);
                // the initializer-list items were in the queue before any push: they precede in every consumer's view
                if (okv && P.ninit && P.ncons == 1)
                {
                    bool good = true;
                    for (int i = 0; i < P.ninit; i++)
                        if (pops[0].size() <= (size_t)i || pops[0][i].val != (uint64_t)i)
                            good = false;
                    if (!good)
                        vf::fail_nothrow("sq:reordered:init-list", "single consumer did not receive the %d initializer items first", P.ninit);
                    else
                        VF_OK("sq: initializer-list items come out first, in order");
                }
            }
            if (okv)
            {
                if (Q->size() != 0)
                    vf::fail_nothrow("sq:size-after-drain", "size()=%zu after every item was popped", Q->size());
                else
                    VF_OK("sq: size() == 0 after all items were popped");
            }
        }
        merge_clauses(names, NCL, nthreads, false);
        vf::count_case(vf::mix(vf::mix(0x5e0, c.key), vf::mix(P.nprod * 100 + P.ncons * 10 + P.poll, P.per_prod * 8 + P.ninit)),
                       nthreads >= 2);
        sem_destroy(&items);
        delete Q;
        Q = nullptr;
    }
    VF_SUITE(sq, count, run)
}
