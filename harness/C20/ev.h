// ev.h — suite 4: igris::event used directly: the waiter owns the event and destroys it as soon as wait()
// returns (what wait_current_schedee does with its stack waiter), the signaller must not touch it afterwards.
// Included by sync.cpp.
#pragma once

namespace ev
{
    enum
    {
        C_WAIT_RETURNED,
        C_LATCHED,
        C_TIMED_TRUE,
        C_TIMED_PRESIGNALLED,
        NCL
    };
    static const char *names[NCL] = {"ev: wait returned after signal, event destroyed by the waiter",
                                     "ev: signal completed before wait was called (latched flag path)",
                                     "ev: timed wait returned true after signal",
                                     "ev: timed wait on an already signalled event returned true"};
    enum
    {
        PH_IDLE = 0,
        PH_WAITING = 1
    };
    struct Pair
    {
        std::atomic<igris::event *> slot{nullptr};
        sem_t ready;              // waiter -> signaller: an event is published
        std::atomic<int> sig_done{0}; // round number whose signal() call has returned
    };
    static Pair pairs[MAXT / 2];
    static int npairs, rounds;

    static void waiter_fn(Thr *t, Pair &p)
    {
        vf::Rng r(t->pkey, 0xe701);
        for (int k = 1; k <= rounds && !g_failed.load(std::memory_order_relaxed); k++)
        {
            bool on_heap = r.chance(2, 3);
            bool timed = r.chance(1, 4);
            auto body = [&](igris::event *e) {
                p.slot.store(e, std::memory_order_release);
                sem_post(&p.ready);
                perturb(t, S_HARNESS);
                bool latched = p.sig_done.load(std::memory_order_acquire) == k;
                t->phase.store(PH_WAITING);
                if (timed)
                {
                    bool got = e->wait(std::chrono::seconds(60));
                    t->phase.store(PH_IDLE);
                    if (!got)
                        TFAIL("ev:lost-signal:timed", "wait(60s) timed out in round %d although the signaller was handed the event", k);
                    else
                        t->ok[latched ? C_TIMED_PRESIGNALLED : C_TIMED_TRUE]++;
                }
                else
                {
                    e->wait();
                    t->phase.store(PH_IDLE);
                }
                if (latched)
                    t->ok[C_LATCHED]++;
                t->ok[C_WAIT_RETURNED]++;
                perturb(t, S_AFTER_WAKE);
            };
            if (on_heap)
            {
                igris::event *e = new igris::event();
                body(e);
                delete e; // the waiter may destroy its event as soon as wait() has returned
            }
            else
            {
                igris::event e;
                body(&e);
            }
            g_progress.fetch_add(1, std::memory_order_relaxed);
        }
    }
    static void signaller_fn(Thr *t, Pair &p)
    {
        for (int k = 1; k <= rounds; k++)
        {
            sem_wait(&p.ready);
            igris::event *e = p.slot.exchange(nullptr, std::memory_order_acquire);
            if (!e)
                break; // the waiter stopped early (a monitor fired)
            perturb(t, S_HARNESS);
            e->signal();
            p.sig_done.store(k, std::memory_order_release);
            g_progress.fetch_add(1, std::memory_order_relaxed);
        }
    }
    static void thread_fn(Thr *t)
    {
        Pair &p = pairs[t->id / 2];
        if (t->id % 2 == 0)
        {
            waiter_fn(t, p);
            if (g_failed.load())
                sem_post(&p.ready); // release the signaller
        }
        else
            signaller_fn(t, p);
    }
    static void diagnose()
    {
        int stuck = -1;
        for (int i = 0; i < g_watch.nthreads; i += 2)
            if (!g_thr[i].done.load() && g_thr[i].phase.load() == PH_WAITING && pairs[i / 2].sig_done.load() > 0)
                stuck = i;
        if (stuck >= 0)
            vf::fail_nothrow("ev:lost-signal", "deadlock: waiter thread %d blocks in event::wait(); its signaller has completed signal() for round %d",
                             stuck, pairs[stuck / 2].sig_done.load());
        else
            vf::fail_nothrow("deadlock:ev", "all unfinished threads of the event case are blocked");
    }
    static uint64_t count() { return vf::thorough() ? 10000 : 500; }
    static void run(uint64_t idx)
    {
        vf::cls("ev");
        vf::Rng r(vf::seed(), 0xe700, idx);
        npairs = r.range(1, 4);
        int total = r.range(50, 500);
        rounds = std::max(5, total / (2 * npairs));
        CaseCfg c = make_cfg(r, 0xe702, idx, npairs * 2);
        if (vf::verbose())
            printf("ev case: pairs=%d rounds=%d level=%d hot=0x%x\n", npairs, rounds, c.level, c.hot);
        for (int i = 0; i < npairs; i++)
        {
            pairs[i].slot.store(nullptr);
            pairs[i].sig_done.store(0);
            sem_init(&pairs[i].ready, 0, 0);
        }
        case_begin("ev", c, diagnose);
        threads_start(npairs * 2, thread_fn);
        for (int i = 0; i < npairs * 2; i++)
            thread_join(i);
        case_end();
        for (int i = 0; i < npairs; i++)
            sem_destroy(&pairs[i].ready);
        merge_clauses(names, NCL, npairs * 2, false);
        uint64_t oh = 0xe7;
        uint32_t n = g_nlog.load();
        for (uint32_t i = 0; i < n && i < MAXEV; i++)
            oh = vf::mix(oh, g_log[i].tid);
        vf::state(oh);
        vf::count_case(vf::mix(vf::mix(0xe70, c.key), vf::mix(npairs, rounds)), true);
    }
    VF_SUITE(ev, count, run)
}
