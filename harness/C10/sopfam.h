// sopfam.h — element-type family for static_object_pool<T, N> (shared by alloc.cpp and the two table TUs,
// which are separate translation units only to compile the ~200 instantiations in parallel).
#pragma once
#include "vf.h"
#include <map>
#include <memory>
#include <igris/container/static_object_pool.h>

static inline uint8_t pat(uint32_t seed, size_t i) { return (uint8_t)(seed * 151u + (uint32_t)i * 13u + ((uint32_t)i >> 8) * 7u + 0x3Du); }

struct LifeReg
{
    std::map<const void *, int> live;
    long ctor = 0, dtor = 0, errors = 0;
    void reset()
    {
        live.clear();
        ctor = dtor = errors = 0;
    }
};
extern LifeReg g_life;
template <size_t S, size_t A> struct alignas(A) Pod
{
    unsigned char b[S];
};
template <size_t S, size_t A> struct alignas(A) Life
{
    unsigned char b[S];
    explicit Life(int id)
    {
        g_life.ctor++;
        if (!g_life.live.emplace(this, id).second)
        {
            g_life.errors++;
            vf::fail_nothrow("static_object_pool:construct-over-live", "object of %zu bytes constructed at %p over a live object", S, (void *)this);
        }
        for (size_t i = 0; i < S; i++)
            b[i] = pat((uint32_t)id, i);
    }
    ~Life()
    {
        g_life.dtor++;
        if (!g_life.live.erase(this))
        {
            g_life.errors++;
            vf::fail_nothrow("static_object_pool:destroy-nonlive", "destructor of an object at %p that is not live", (void *)this);
        }
    }
    Life(const Life &) = delete;
    Life &operator=(const Life &) = delete;
};
struct SopIface
{
    virtual ~SopIface() {}
    virtual void *create(int id) = 0;
    virtual void destroy(void *) = 0;
    virtual size_t avail() = 0;
    virtual char *storage() = 0;
    virtual size_t storage_bytes() = 0;
};
template <class T, size_t N, bool LIFE> struct SopImpl : SopIface
{
    using Pool = igris::static_object_pool<T, N>;
    std::unique_ptr<Pool> pool{new Pool()}; // own heap block: the storage array is its last member
    void *create(int id) override
    {
        if constexpr (LIFE)
            return pool->create(id);
        else
            return pool->create();
    }
    void destroy(void *p) override { pool->destroy((T *)p); }
    size_t avail() override { return pool->avail(); }
    char *storage() override { return (char *)pool->storage.data(); }
    size_t storage_bytes() override { return sizeof(pool->storage); }
};
struct SopEntry
{
    size_t S, A, N;
    bool life;
    SopIface *(*make)();
};
template <class T, size_t N, bool LIFE> SopIface *sop_make()
{
    return new SopImpl<T, N, LIFE>();
}
#define SOPF_N(K, LIFE, S, A, N) {S, A, N, LIFE, sop_make<K<S, A>, N, LIFE>},
#define SOPF(K, LIFE, S, A) SOPF_N(K, LIFE, S, A, 1) SOPF_N(K, LIFE, S, A, 2) SOPF_N(K, LIFE, S, A, 3) SOPF_N(K, LIFE, S, A, 6) SOPF_N(K, LIFE, S, A, 16)
// every (size, alignment) with size in {1,3,4,8,12,16,20,24,40} and alignment in {1,4,8,16} dividing the size
#define SOPF_ALL(K, LIFE)                                                                                                                             \
    SOPF(K, LIFE, 1, 1) SOPF(K, LIFE, 3, 1) SOPF(K, LIFE, 4, 1) SOPF(K, LIFE, 4, 4) SOPF(K, LIFE, 8, 1) SOPF(K, LIFE, 8, 4) SOPF(K, LIFE, 8, 8)       \
    SOPF(K, LIFE, 12, 1) SOPF(K, LIFE, 12, 4) SOPF(K, LIFE, 16, 1) SOPF(K, LIFE, 16, 4) SOPF(K, LIFE, 16, 8) SOPF(K, LIFE, 16, 16)                  \
    SOPF(K, LIFE, 20, 1) SOPF(K, LIFE, 20, 4) SOPF(K, LIFE, 24, 1) SOPF(K, LIFE, 24, 4) SOPF(K, LIFE, 24, 8) SOPF(K, LIFE, 40, 1)                   \
    SOPF(K, LIFE, 40, 4) SOPF(K, LIFE, 40, 8)
static_assert(sizeof(Pod<3, 1>) == 3 && sizeof(Pod<12, 4>) == 12 && sizeof(Life<20, 4>) == 20 && alignof(Life<16, 16>) == 16 && sizeof(Life<1, 1>) == 1, "element family");
extern const SopEntry SOPFAM_POD[], SOPFAM_LIFE[];
extern const size_t NSOPFAM_POD, NSOPFAM_LIFE;
