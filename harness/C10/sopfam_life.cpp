// table of static_object_pool<Life<S,A>,N> instantiations (lifetime-registered elements with payload)
#include "sopfam.h"
LifeReg g_life;
const SopEntry SOPFAM_LIFE[] = {SOPF_ALL(Life, true)};
const size_t NSOPFAM_LIFE = sizeof SOPFAM_LIFE / sizeof *SOPFAM_LIFE;
