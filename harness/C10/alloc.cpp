// C10 — allocators: fixed-block pools (pool_head, igris::pool, static_object_pool) and the bare-metal
// heap (compat/mem/lin_malloc.cpp, lin_realloc.cpp; malloc/free/realloc renamed to lin_*).
// Oracle: shadow interval map of live blocks with per-block fill patterns, arena/free-list walk after
// every operation, break back at the arena start whenever nothing is live.
#include <cassert> // before vf.h: <assert.h> declares __assert_fail noexcept, vf.h defines it (order matters to g++)
#define VF_MAIN
#include "vf.h"
#include "guard.h"
#include "tracked.h"
#include "sopfam.h"
#include <algorithm>
#include <map>
#include <memory>
#include <set>
#include <type_traits>
#include <vector>
#include <compat/mem/lin_malloc.h>
#include <igris/container/pool.h>
#include <igris/container/static_object_pool.h>
#include <igris/datastruct/pool.h>
#include <igris/sync/syslock.h>

// ============================================================================================
// heap
// ============================================================================================
extern "C" void *lin_malloc(size_t);
extern "C" void lin_free(void *);
extern "C" void *lin_realloc(void *, size_t);
extern char *__brkval;
extern struct __freelist *__flp;
extern int __allocation_counter;

enum : size_t
{
    ARENA = 1u << 20
};
alignas(64) char _heap_start[ARENA]; // the arena symbol lin_malloc.cpp refers to ("extern char _heap_start")
static char *const A0 = _heap_start;
static size_t g_high = 0; // high-water mark of the break since the last wipe (bytes)


struct Block
{
    char *p;
    size_t n;
    uint32_t seed;
};

struct Heap
{
    std::map<uintptr_t, Block> live;
    std::vector<uintptr_t> order; // creation order (slot i of the enumerated histories)
    uint32_t next_seed = 1;
    std::string trace;
    const char *opcls = "init";
    bool ever = false;

    static void reset_allocator()
    {
        if (g_high)
            memset(A0, 0xEE, g_high < ARENA ? g_high : ARENA);
        g_high = 0;
        __brkval = nullptr;
        __flp = nullptr;
        __allocation_counter = 0;
        syslock_reset();
    }
    Heap() { reset_allocator(); }

    void note(const char *fmt, ...) __attribute__((format(printf, 2, 3)))
    {
        char t[96];
        va_list ap;
        va_start(ap, fmt);
        vsnprintf(t, sizeof t, fmt, ap);
        va_end(ap);
        if (vf::verbose())
            printf("  %s\n", t);
        if (!trace.empty())
            trace += ' ';
        trace += t;
        if (trace.size() > 1100)
            trace.erase(0, trace.size() - 900);
    }
    [[noreturn]] void bad(const char *clause, const char *fmt, ...) __attribute__((format(printf, 3, 4)))
    {
        char key[160], det[900];
        snprintf(key, sizeof key, "heap:%s:%s", clause, opcls);
        va_list ap;
        va_start(ap, fmt);
        vsnprintf(det, sizeof det, fmt, ap);
        va_end(ap);
        vf::fail(key, "%s | live=%zu brk=+%ld | history: %s", det, live.size(), __brkval ? (long)(__brkval - A0) : -1L, trace.c_str());
    }
    static long off(const void *p) { return p ? (long)((const char *)p - A0) : -1; }

    // ---- clauses about one returned block
    void check_new_block(char *p, size_t n, const char *what)
    {
        if (!p)
            bad("returned-null", "%s(%zu) returned NULL inside a 1 MiB arena", what, n);
        if ((uintptr_t)p % alignof(void *) != 0)
            bad("misaligned", "%s(%zu) = arena+%ld is not aligned to %zu", what, n, off(p), alignof(void *));
        VF_OK("heap: returned block aligned for pointers");
        char *brk = __brkval;
        if (p < A0 + sizeof(size_t) || p + n > A0 + ARENA || !brk || p + n > brk || brk > A0 + ARENA)
            bad("outside-arena", "%s(%zu) = arena+%ld, break at +%ld", what, n, off(p), off(brk));
        VF_OK("heap: returned block inside [arena start, break)");
        // disjoint from every live block
        auto it = live.lower_bound((uintptr_t)p);
        if (it != live.end())
        {
            const Block &b = it->second;
            if (b.p == p)
                bad("overlap", "%s(%zu) = arena+%ld is the address of a live block of %zu bytes", what, n, off(p), b.n);
            if (p + n > b.p)
                bad("overlap", "%s(%zu) = arena+%ld overlaps the live block [+%ld,+%ld)", what, n, off(p), off(b.p), off(b.p + b.n));
        }
        if (it != live.begin())
        {
            const Block &b = std::prev(it)->second;
            if (b.p + b.n > p)
                bad("overlap", "%s(%zu) = arena+%ld lies inside the live block [+%ld,+%ld)", what, n, off(p), off(b.p), off(b.p + b.n));
        }
        VF_OK("heap: returned block overlaps no live block");
    }
    void fill(Block &b)
    {
        for (size_t i = 0; i < b.n; i++)
            b.p[i] = (char)pat(b.seed, i);
    }
    void verify_block(const Block &b, size_t upto, const char *when)
    {
        for (size_t i = 0; i < upto; i++)
            if ((uint8_t)b.p[i] != pat(b.seed, i))
                bad("contents-changed", "%s: byte %zu of the live block [+%ld,+%ld) is %02x, written %02x", when, i, off(b.p), off(b.p + b.n), (uint8_t)b.p[i],
                    pat(b.seed, i));
    }
    void verify_all(const char *when)
    {
        for (auto &kv : live)
            verify_block(kv.second, kv.second.n, when);
        VF_OK("heap: contents of every live block untouched");
    }

    // ---- arena and free-list walk at a quiescent point
    void check_structure()
    {
        char *brk = __brkval;
        if (!brk)
        {
            if (ever || __flp)
                bad("walk:break-null", "break is NULL after allocations");
            return;
        }
        if (brk < A0 || brk > A0 + ARENA)
            bad("walk:break-outside-arena", "break=%p arena=%p", (void *)brk, (void *)A0);
        if ((size_t)(brk - A0) > g_high)
            g_high = brk - A0;
        VF_MAX("heap: highest break (bytes)", brk - A0);
        // free list: inside [start, break), address-ordered, coalesced, not touching the break
        std::set<char *> freeset;
        char *prev_end = nullptr;
        size_t steps = 0;
        for (struct __freelist *f = __flp; f; f = f->nx)
        {
            char *a = (char *)f;
            if (++steps > 100000)
                bad("walk:freelist-cycle", "free list does not end");
            if (a < A0 || a + sizeof(struct __freelist) > brk || (uintptr_t)a % alignof(size_t))
                bad("walk:freelist-outside", "free-list node at arena+%ld, break at +%ld", off(a), off(brk));
            char *end = a + sizeof(size_t) + f->sz;
            if (f->sz < sizeof(struct __freelist) - sizeof(size_t) || end > brk || end < a)
                bad("walk:freelist-size", "free chunk at +%ld has size %zu, break at +%ld", off(a), f->sz, off(brk));
            if (prev_end && a < prev_end)
                bad("walk:freelist-order", "free chunk at +%ld follows a chunk ending at +%ld", off(a), off(prev_end));
            if (prev_end && a == prev_end)
                bad("walk:freelist-not-coalesced", "adjacent free chunks meet at +%ld", off(a));
            if (end == brk)
                bad("walk:free-chunk-at-break", "topmost free chunk [+%ld,+%ld) was not given back to the break", off(a), off(end));
            prev_end = end;
            freeset.insert(a);
        }
        VF_OK("heap: free list inside arena, address-ordered, coalesced");
        // tiling: the arena below the break is a sequence of chunks, each either live or on the free list
        size_t seen_live = 0, seen_free = 0;
        char *a = A0;
        while (a < brk)
        {
            if (a + sizeof(size_t) > brk)
                bad("walk:tiling", "chunk header at +%ld crosses the break +%ld", off(a), off(brk));
            size_t sz = *(size_t *)a;
            char *pl = a + sizeof(size_t);
            if (sz > (size_t)(brk - pl))
                bad("walk:tiling", "chunk at +%ld has size %zu, runs past the break +%ld", off(a), sz, off(brk));
            auto it = live.find((uintptr_t)pl);
            if (it != live.end())
            {
                if (sz < it->second.n)
                    bad("walk:chunk-smaller-than-request", "live block at +%ld: %zu bytes requested, chunk holds %zu", off(pl), it->second.n, sz);
                if (freeset.count(a))
                    bad("walk:live-block-on-freelist", "live block at +%ld is on the free list", off(pl));
                seen_live++;
            }
            else if (freeset.count(a))
                seen_free++;
            else
                bad("walk:chunk-neither-live-nor-free", "chunk at +%ld (size %zu) is neither a live block nor on the free list: memory lost", off(a), sz);
            a = pl + sz;
        }
        if (a != brk)
            bad("walk:tiling", "chunks end at +%ld, break at +%ld", off(a), off(brk));
        if (seen_live != live.size())
            bad("walk:live-block-not-a-chunk", "%zu live blocks, %zu found as chunks", live.size(), seen_live);
        if (seen_free != freeset.size())
            bad("walk:free-node-not-a-chunk", "%zu free-list nodes, %zu found as chunks", freeset.size(), seen_free);
        VF_OK("heap: arena below the break is tiled by live and free chunks");
        if (live.empty())
        {
            if (brk != A0 || __flp)
                bad("not-returned-to-initial-break", "nothing is live but the break is at +%ld and the free list is %s", off(brk), __flp ? "not empty" : "empty");
            VF_OK("heap: all blocks freed -> break back at arena start, free list empty");
        }
    }
    void after_op(const char *when)
    {
        verify_all(when);
        check_structure();
    }

    // (number of free-list nodes, total free bytes) – used only to report which allocator path ran
    struct FL
    {
        size_t nodes = 0, bytes = 0;
        char *brk = nullptr;
    };
    static FL fl()
    {
        FL r;
        r.brk = __brkval;
        for (struct __freelist *f = __flp; f && r.nodes < 100000; f = f->nx)
            r.nodes++, r.bytes += f->sz;
        return r;
    }
    void malloc_path(const FL &a)
    {
        FL b = fl();
        if (b.brk != a.brk)
            VF_OK("heap path: malloc extends the break");
        else if (b.nodes < a.nodes)
            VF_OK("heap path: malloc takes a whole free chunk (exact or near fit)");
        else
            VF_OK("heap path: malloc splits a free chunk");
        vf::state(vf::mix(live.size() + 1, b.nodes));
    }

    // ---- operations
    void do_malloc(size_t n)
    {
        opcls = n ? "malloc" : "malloc(0)";
        vf::cls(opcls);
        note("m(%zu)", n);
        FL before = fl();
        char *p = (char *)lin_malloc(n);
        ever = true;
        malloc_path(before);
        check_new_block(p, n, "malloc");
        Block b{p, n, next_seed++};
        fill(b);
        live[(uintptr_t)p] = b;
        order.push_back((uintptr_t)p);
        note("=+%ld", off(p));
        after_op("after malloc");
    }
    void do_free(size_t slot)
    {
        opcls = "free";
        vf::cls(opcls);
        uintptr_t key = order[slot];
        Block b = live[key];
        note("f(#%zu +%ld/%zu)", slot, off(b.p), b.n);
        verify_block(b, b.n, "before free");
        VF_OK("heap: fill pattern intact before free");
        live.erase(key);
        order.erase(order.begin() + slot);
        FL before = fl();
        lin_free(b.p);
        FL after = fl();
        if (after.brk != before.brk)
            VF_OK("heap path: free lowers the break");
        else if (after.nodes > before.nodes)
            VF_OK("heap path: free adds a free-list node");
        else if (after.nodes == before.nodes)
            VF_OK("heap path: free coalesces with one neighbour");
        else
            VF_OK("heap path: free coalesces with both neighbours");
        vf::state(vf::mix(live.size(), after.nodes));
        after_op("after free");
    }
    void do_free_null()
    {
        opcls = "free(NULL)";
        vf::cls(opcls);
        note("f(NULL)");
        char *brk = __brkval;
        struct __freelist *fl = __flp;
        lin_free(nullptr);
        if (brk != __brkval || fl != __flp)
            bad("free-null-changed-state", "free(NULL) moved the break or the free list");
        after_op("after free(NULL)");
    }
    void do_realloc(size_t slot, size_t n)
    {
        uintptr_t key = order[slot];
        Block b = live[key];
        opcls = n == 0 ? "realloc-to-0" : n > b.n ? "realloc-grow" : n < b.n ? "realloc-shrink" : "realloc-same";
        vf::cls(opcls);
        note("r(#%zu +%ld/%zu -> %zu)", slot, off(b.p), b.n, n);
        verify_block(b, b.n, "before realloc");
        live.erase(key); // the old block may legitimately be reused / moved
        FL before = fl();
        char *q = (char *)lin_realloc(b.p, n);
        FL after = fl();
        if (q != b.p)
            VF_OK("heap path: realloc moves (malloc+copy+free)");
        else if (after.brk > before.brk)
            VF_OK("heap path: realloc extends the topmost block");
        else if (n > b.n && after.bytes < before.bytes)
            VF_OK("heap path: realloc grows into the free neighbour");
        else if (after.brk < before.brk || after.bytes > before.bytes)
            VF_OK("heap path: realloc shrinks and releases the tail");
        else
            VF_OK("heap path: realloc leaves the chunk as it is");
        check_new_block(q, n, "realloc");
        Block nb{q, n, b.seed};
        verify_block(nb, b.n < n ? b.n : n, "realloc common prefix");
        VF_OK("heap: realloc preserves the common prefix");
        if (q == b.p)
            VF_OK("heap: realloc in place");
        else
            VF_OK("heap: realloc moved the block");
        nb.seed = next_seed++;
        fill(nb);
        live[(uintptr_t)q] = nb;
        order[slot] = (uintptr_t)q;
        note("=+%ld", off(q));
        after_op("after realloc");
    }
    void do_realloc_null(size_t n)
    {
        opcls = "realloc(NULL)";
        vf::cls(opcls);
        note("r(NULL,%zu)", n);
        FL before = fl();
        char *p = (char *)lin_realloc(nullptr, n);
        ever = true;
        malloc_path(before);
        check_new_block(p, n, "realloc(NULL)");
        Block b{p, n, next_seed++};
        fill(b);
        live[(uintptr_t)p] = b;
        order.push_back((uintptr_t)p);
        note("=+%ld", off(p));
        after_op("after realloc(NULL)");
    }
    // free everything in the given order flavour; the structure check demands the initial break at the end
    void drain(int flavour, vf::Rng *rg)
    {
        while (!order.empty())
        {
            size_t slot = flavour == 0 ? order.size() - 1 : flavour == 1 ? 0 : rg ? rg->below(order.size()) : order.size() / 2;
            do_free(slot);
        }
    }
};

// ---- snapshot of allocator + model, for the exhaustive short histories
struct HeapSnap
{
    std::vector<char> mem;
    char *brk;
    struct __freelist *flp;
    int ctr;
    std::map<uintptr_t, Block> live;
    std::vector<uintptr_t> order;
    uint32_t next_seed;
    std::string trace;
    bool ever;
    size_t high;
    void take(const Heap &h)
    {
        size_t used = __brkval ? (size_t)(__brkval - A0) : 0;
        if (used < g_high)
            used = g_high; // keep everything that was ever touched since the wipe
        mem.assign(A0, A0 + used);
        brk = __brkval;
        flp = __flp;
        ctr = __allocation_counter;
        live = h.live;
        order = h.order;
        next_seed = h.next_seed;
        trace = h.trace;
        ever = h.ever;
        high = g_high;
    }
    void put(Heap &h) const
    {
        if (g_high > mem.size())
            memset(A0 + mem.size(), 0xEE, g_high - mem.size());
        if (!mem.empty())
            memcpy(A0, mem.data(), mem.size());
        g_high = high;
        __brkval = brk;
        __flp = flp;
        __allocation_counter = ctr;
        syslock_reset();
        h.live = live;
        h.order = order;
        h.next_seed = next_seed;
        h.trace = trace;
        h.ever = ever;
    }
};

static const size_t ESIZES[4] = {0, 8, 64, 100};
// op code at a node with L live blocks: [0,4) malloc(ESIZES[c]); [4,4+L) free(slot); then realloc(slot,size)
static int nops(size_t L) { return 4 + (int)L + 4 * (int)L; }
static void apply_code(Heap &h, int c)
{
    size_t L = h.order.size();
    if (c < 4)
        h.do_malloc(ESIZES[c]);
    else if (c < 4 + (int)L)
        h.do_free(c - 4);
    else
        h.do_realloc((c - 4 - L) / 4, ESIZES[(c - 4 - L) % 4]);
}
static size_t live_after(size_t L, int c) { return c < 4 ? L + 1 : c < 4 + (int)L ? L - 1 : L; }

// top-level cases = all operation prefixes of length 3 (quick) / 4 (thorough); the live count after each
// operation is known without running it, so the list is a pure function of the tier
static int prefix_len() { return vf::thorough() ? 4 : 3; }
struct Prefix
{
    int c[4];
};
static void gen_prefixes(std::vector<Prefix> &v, Prefix cur, int depth, size_t L)
{
    if (depth == prefix_len())
    {
        v.push_back(cur);
        return;
    }
    for (int c = 0; c < nops(L); c++)
    {
        cur.c[depth] = c;
        gen_prefixes(v, cur, depth + 1, live_after(L, c));
    }
}
static std::vector<Prefix> &prefixes()
{
    static std::vector<Prefix> v;
    if (v.empty())
        gen_prefixes(v, Prefix{{0, 0, 0, 0}}, 0, 0);
    return v;
}
static int enum_depth() { return vf::thorough() ? 7 : 6; }
static uint64_t g_nodes;
static void dfs(Heap &h, int depth_left, uint64_t parity)
{
    g_nodes++;
    HeapSnap s;
    s.take(h);
    // (a) from here, free everything (LIFO / FIFO / middle-out) -> must end at the initial break
    if (!h.order.empty())
    {
        h.drain((int)(parity % 3), nullptr);
        s.put(h);
    }
    if (depth_left == 0)
        return;
    int n = nops(h.order.size());
    for (int c = 0; c < n; c++)
    {
        apply_code(h, c);
        dfs(h, depth_left - 1, parity * 31 + c + 1);
        s.put(h);
    }
}
static uint64_t enum_count() { return prefixes().size(); }
static void enum_run(uint64_t idx)
{
    const Prefix &p = prefixes()[idx];
    Heap h;
    for (int i = 0; i < prefix_len(); i++)
        apply_code(h, p.c[i]);
    g_nodes = 0;
    dfs(h, enum_depth() - prefix_len(), idx + 1);
    vf::count_bulk(g_nodes, g_nodes);
    VF_OK("heap: every history of the enumerated length, drained from every node");
    if (idx == 200)
        vf::sample("heap enumeration: prefix #200 = [%s], all continuations to length %d over malloc/free/realloc x sizes {0,8,64,100}: %llu histories", h.trace.c_str(),
                   enum_depth(), (unsigned long long)g_nodes);
}
VF_SUITE(heap_enum, enum_count, enum_run)

// the levels above the prefixes (histories shorter than a prefix): run them once, checked
static uint64_t enum_short_count() { return 1; }
static void enum_short_run(uint64_t)
{
    Heap h;
    g_nodes = 0;
    dfs(h, prefix_len() - 1, 7);
    vf::count_bulk(g_nodes, g_nodes - 1);
}
VF_SUITE(heap_enum_short, enum_short_count, enum_short_run)

// ---- random histories
static const size_t RSIZES[] = {0, 1, 7, 8, 9, 15, 16, 17, 56, 63, 64, 65, 128, 200, 1000};
static uint64_t hrand_count() { return vf::thorough() ? 200000 : 2000; }
static void hrand_run(uint64_t idx)
{
    vf::Rng rg(vf::seed(), 0xC10, idx);
    Heap h;
    int free_order = (int)(idx % 4); // 0 LIFO, 1 FIFO, 2 random, 3 mixed
    static const size_t MAXLIVE[] = {3, 8, 20, 50, 90, 90};
    static const int BIAS[] = {25, 45, 60, 80};
    size_t max_live = rg.pick(MAXLIVE);
    uint64_t hh = vf::mix(free_order, max_live);
    int bias = 60;
    for (int step = 0; step < 400; step++)
    {
        if (step % 40 == 0)
            bias = rg.pick(BIAS);
        size_t L = h.order.size();
        int r = (int)rg.below(100);
        size_t sz = RSIZES[rg.below(sizeof RSIZES / sizeof *RSIZES)];
        if (rg.chance(1, 10))
            sz = (size_t)rg.below(300);
        auto pick_slot = [&]() -> size_t {
            int fo = free_order == 3 ? (int)rg.below(3) : free_order;
            return fo == 0 ? L - 1 : fo == 1 ? 0 : rg.below(L);
        };
        int code;
        if (r < 2)
            h.do_free_null(), code = 1;
        else if (r < 27 && L)
        {
            size_t s = rg.below(L);
            h.do_realloc(s, sz);
            code = 2;
            hh = vf::mix(hh, s);
        }
        else if ((r < 27 + bias * 73 / 100 && L < max_live) || L == 0)
        {
            if (rg.chance(1, 12))
                h.do_realloc_null(sz), code = 3;
            else
                h.do_malloc(sz), code = 4;
        }
        else
        {
            size_t s = pick_slot();
            h.do_free(s);
            code = 5;
            hh = vf::mix(hh, s);
        }
        hh = vf::mix(hh, (uint64_t)code << 32 | sz);
        VF_MAX("heap: most live blocks in a history", h.order.size());
    }
    vf::Rng dr(vf::seed(), 0xD10, idx);
    h.drain(free_order == 3 ? 2 : free_order, &dr);
    vf::count_case(hh, true);
    if (vf::want_sample() && idx % 97 == 5)
        vf::sample("heap random: 400 ops, max_live=%zu, free order %d, tail: %s", max_live, free_order, h.trace.substr(h.trace.size() > 240 ? h.trace.size() - 240 : 0).c_str());
}
VF_SUITE(heap_random, hrand_count, hrand_run)

// ============================================================================================
// heap configuration in a FRESH process (re-executed binary): the allocator's globals are exactly as the loader
// left them, no harness reset has touched them. lin_malloc.cpp documents one knob: __malloc_heap_start "may be
// changed by the user only before the first malloc() call" (__malloc_heap_end / __malloc_margin are commented out in
// this port). (a) defaults: blocks in the _heap_start arena; (b) __malloc_heap_start pointed at a custom arena before
// the first allocator call: every block inside THAT arena and the break returns to its start.
// ============================================================================================
extern char *__malloc_heap_start;
enum : size_t
{
    CUSTOM_ARENA = 1u << 16
};
alignas(64) static char g_custom_arena[CUSTOM_ARENA];

// runs in the re-executed process; reports through exit status 0 / 65 and a one-line message on fd `out`
static void fresh_child(const char *spec)
{
    int mode = 0, first = 0, out = 1;
    sscanf(spec, "%d,%d,%d", &mode, &first, &out);
    auto die = [&](const char *clause, const char *fmt, auto... a) {
        char msg[600];
        int n = snprintf(msg, sizeof msg, "%s|", clause);
        snprintf(msg + n, sizeof msg - n, fmt, a...);
        ssize_t w = write(out, msg, strlen(msg));
        (void)w;
        _exit(65);
    };
    char *base = _heap_start;
    size_t bytes = ARENA;
    if (mode == 1)
    {
        base = g_custom_arena;
        bytes = CUSTOM_ARENA;
        __malloc_heap_start = g_custom_arena; // the documented configuration step, before any allocator call
    }
    static const size_t SZ[] = {64, 0, 8, 100, 1000, 17, 200};
    struct B
    {
        char *p;
        size_t n;
        uint32_t seed;
    };
    std::vector<B> live;
    auto check_block = [&](char *p, size_t n, const char *what) {
        if (!p)
            die("returned-null", "%s(%zu) returned NULL", what, n);
        if ((uintptr_t)p % alignof(void *))
            die("misaligned", "%s(%zu) misaligned", what, n);
        if (p < base + sizeof(size_t) || p + n > base + bytes)
            die("outside-configured-arena", "%s(%zu), the %s allocator call of the process, returned a block %s; configured arena = %s", what, n, live.empty() ? "first" : "a later",
                (p >= _heap_start && p < _heap_start + ARENA) ? "inside the DEFAULT _heap_start arena" : "outside every arena",
                mode == 1 ? "custom (__malloc_heap_start set before the first call)" : "default");
        if (!__brkval || p + n > __brkval || __brkval > base + bytes)
            die("break-outside-configured-arena", "after %s(%zu) the break is not inside the configured arena", what, n);
        for (auto &b : live)
            if (p < b.p + b.n && b.p < p + n)
                die("overlap", "%s(%zu) overlaps a live block", what, n);
            else if (p == b.p)
                die("overlap", "%s(%zu) returned the address of a live block", what, n);
    };
    uint32_t seed = 1;
    auto add = [&](char *p, size_t n) {
        B b{p, n, seed++};
        for (size_t i = 0; i < n; i++)
            p[i] = (char)pat(b.seed, i);
        live.push_back(b);
    };
    auto verify = [&](const char *when) {
        for (auto &b : live)
            for (size_t i = 0; i < b.n; i++)
                if ((uint8_t)b.p[i] != pat(b.seed, i))
                    die("contents-changed", "%s: a live block changed", when);
    };
    // the first allocator call of the process
    if (first == 1)
    {
        char *p = (char *)lin_realloc(nullptr, 40);
        check_block(p, 40, "realloc(NULL)");
        add(p, 40);
    }
    else if (first == 2)
        lin_free(nullptr);
    for (size_t n : SZ)
    {
        char *p = (char *)lin_malloc(n);
        check_block(p, n, "malloc");
        add(p, n);
        verify("after malloc");
    }
    { // grow one block (moves), shrink another
        B b = live[2];
        live.erase(live.begin() + 2);
        char *q = (char *)lin_realloc(b.p, 300);
        check_block(q, 300, "realloc");
        for (size_t i = 0; i < b.n; i++)
            if ((uint8_t)q[i] != pat(b.seed, i))
                die("contents-changed", "realloc lost the prefix");
        add(q, 300);
        verify("after realloc");
    }
    while (!live.empty())
    {
        size_t i = (live.size() * 7 + first) % live.size();
        lin_free(live[i].p);
        live.erase(live.begin() + i);
        verify("after free");
    }
    if (__brkval != base || __flp)
        die("not-returned-to-initial-break", "everything freed: break at %+ld relative to the configured arena start, free list %s", (long)(__brkval - base), __flp ? "not empty" : "empty");
    _exit(0);
}
static uint64_t fresh_count() { return 2 * 3; }
static void fresh_run(uint64_t idx)
{
    int mode = idx % 2, first = (idx / 2) % 3;
    static const char *FN[3] = {"malloc", "realloc(NULL)", "free(NULL)"};
    char cls[80];
    snprintf(cls, sizeof cls, "fresh-process:%s-arena:first-call=%s", mode ? "custom" : "default", FN[first]);
    vf::cls(cls);
    if (vf::verbose())
        printf("  %s\n", cls);
    fflush(nullptr);
    int po[2];
    if (pipe(po) != 0)
        vf::fail("heap:config:harness-pipe", "pipe failed");
    pid_t pid = fork();
    if (pid == 0)
    {
        close(po[0]);
        char env[64];
        snprintf(env, sizeof env, "%d,%d,%d", mode, first, po[1]);
        setenv("C10_FRESH_CHILD", env, 1);
        char *argv[] = {(char *)"harness-fresh-heap", nullptr};
        execv("/proc/self/exe", argv);
        _exit(93);
    }
    close(po[1]);
    char msg[700];
    ssize_t got = read(po[0], msg, sizeof msg - 1);
    msg[got > 0 ? got : 0] = 0;
    close(po[0]);
    int st = 0;
    waitpid(pid, &st, 0);
    if (WIFEXITED(st) && WEXITSTATUS(st) == 65)
    {
        char *bar = strchr(msg, '|');
        if (bar)
            *bar = 0;
        char key[160];
        snprintf(key, sizeof key, "heap:config:%s:%s-arena", msg, mode ? "custom" : "default");
        vf::fail(key, "fresh process, first allocator call %s: %s", FN[first], bar ? bar + 1 : "");
    }
    if (!(WIFEXITED(st) && WEXITSTATUS(st) == 0))
    {
        char key[160];
        snprintf(key, sizeof key, "heap:config:child-died:%s-arena", mode ? "custom" : "default");
        vf::fail(key, "fresh process (first call %s) ended with status %#x (a sanitizer report, if any, is in the worker log)", FN[first], st);
    }
    VF_OK(mode ? "heap fresh process: __malloc_heap_start set before the first call -> every block in that arena, break returns to its start"
               : "heap fresh process: defaults -> every block in the _heap_start arena, break returns to its start");
    vf::count_case(vf::mix(0xF5, idx), true);
}
VF_SUITE(heap_fresh_process, fresh_count, fresh_run)

// ============================================================================================
// pools
// ============================================================================================
// Raw pools (pool_head, igris::pool) take the cell size as a parameter. The pool keeps its free-list link
// (one pointer) inside every free cell, so a cell must be able to hold a pointer and cells must stay
// pointer-aligned: cell size >= sizeof(void*) and a multiple of alignof(void*). That is the contract the typed
// wrapper static_object_pool establishes for any T (elsize()/elalign()); element types smaller than a pointer
// or with odd sizes are therefore driven through static_object_pool (sop_family below), and the raw pools
// through the cell sizes such types round up to: (cell size, zone alignment) pairs.
struct PGrid
{
    size_t cell, align;
};
static const PGrid PGRID[] = {{8, 8}, {16, 8}, {16, 16}, {24, 8}, {32, 16}, {40, 8}, {48, 16}, {56, 8}, {64, 8}, {72, 8}};
enum
{
    NPGRID = sizeof PGRID / sizeof *PGRID
};
// heap block of exactly `size` bytes aligned to `align` (size is a multiple of align): red zone right behind
struct AlignedZone
{
    char *p;
    AlignedZone(size_t align, size_t size) : p((char *)aligned_alloc(align, size)) { memset(p, 0xA5, size); }
    ~AlignedZone() { free(p); }
    AlignedZone(const AlignedZone &) = delete;
};

// common driver over an abstract pool: alloc() / free(p) / avail()
struct PoolModel
{
    char *zone;
    size_t elemsz, cap;
    const char *api;
    size_t zalign;                   // alignment of the zone; elemsz is a multiple of it, so every block must have it too
    std::map<char *, uint32_t> live; // cell -> pattern seed
    std::vector<char *> order;       // allocation order
    uint32_t next_seed = 1;
    std::string trace;

    [[noreturn]] void bad(const char *clause, const char *fmt, ...) __attribute__((format(printf, 3, 4)))
    {
        char key[160], det[600];
        snprintf(key, sizeof key, "pool:%s:%s", api, clause);
        va_list ap;
        va_start(ap, fmt);
        vsnprintf(det, sizeof det, fmt, ap);
        va_end(ap);
        vf::fail(key, "%s | elemsz=%zu capacity=%zu live=%zu | history: %s", det, elemsz, cap, live.size(), trace.c_str());
    }
    void note(const char *s, long v)
    {
        char t[40];
        snprintf(t, sizeof t, "%s%s(%ld)", trace.empty() ? "" : " ", s, v);
        trace += t;
        if (trace.size() > 600)
            trace.erase(0, trace.size() - 450);
        if (vf::verbose())
            printf("  %s\n", t);
    }
    void on_alloc(void *pv)
    {
        char *p = (char *)pv;
        if (live.size() == cap)
        {
            if (p)
                bad("more-than-capacity", "block #%zu handed out by a pool of %zu cells (cell %ld)", live.size() + 1, cap, (long)(p - zone) / (long)elemsz);
            VF_OK("pool: exhausted pool answers null");
            return;
        }
        if (!p)
            bad("null-before-capacity", "null after %zu of %zu blocks", live.size(), cap);
        if (p < zone || p + elemsz > zone + elemsz * cap)
            bad("outside-zone", "block at zone%+ld", (long)(p - zone));
        if ((size_t)(p - zone) % elemsz)
            bad("not-cell-aligned", "block at zone+%ld, cell size %zu", (long)(p - zone), elemsz);
        if ((uintptr_t)p % alignof(void *))
            bad("misaligned-for-link", "block at zone+%ld cannot hold the free-list link", (long)(p - zone));
        if ((uintptr_t)p % zalign)
            bad("misaligned", "block at zone+%ld is not aligned to %zu (zone and cell size are)", (long)(p - zone), zalign);
        if (live.count(p))
            bad("overlap", "cell %ld handed out while live", (long)(p - zone) / (long)elemsz);
        VF_OK("pool: block inside zone, cell-aligned, not live");
        uint32_t s = next_seed++;
        for (size_t i = 0; i < elemsz; i++)
            p[i] = (char)pat(s, i);
        live[p] = s;
        order.push_back(p);
    }
    void verify_all(const char *when)
    {
        for (auto &kv : live)
            for (size_t i = 0; i < elemsz; i++)
                if ((uint8_t)kv.first[i] != pat(kv.second, i))
                    bad("contents-changed", "%s: byte %zu of live cell %ld changed", when, i, (long)(kv.first - zone) / (long)elemsz);
        VF_OK("pool: contents of every live cell untouched");
    }
    // choose the block to free next: 0 LIFO, 1 FIFO, 2 random
    char *take(int flavour, vf::Rng &rg)
    {
        size_t i = flavour == 0 ? order.size() - 1 : flavour == 1 ? 0 : rg.below(order.size());
        char *p = order[i];
        order.erase(order.begin() + i);
        live.erase(p);
        return p;
    }
};

// bounded walk of a pool's free list: a list that does not come back to its head within `bound` links is reported
// by the monitor instead of hanging inside pool_avail()/slist_size()
static bool freelist_ends(const pool_head *h, size_t bound)
{
    const slist_head *head = &h->free_blocks;
    size_t n = 0;
    for (const slist_head *it = head->next; it != head; it = it->next)
        if (!it || ++n > bound)
            return false;
    return true;
}
// adapters
struct CPool
{
    pool_head head;
    const pool_head *raw() { return &head; }
    void init(void *zone, size_t size, size_t elemsz)
    {
        pool_init(&head);
        pool_engage(&head, zone, size, elemsz);
    }
    void *get() { return pool_alloc(&head); }
    void put(void *p) { pool_free(&head, p); }
    size_t avail() { return pool_avail(&head); }
    void extra(PoolModel &) {}
    static const char *name() { return "pool_head"; }
};
static_assert(std::is_standard_layout<igris::pool>::value, "igris::pool: first member (the pool_head) is at offset 0");
struct CxxPool
{
    igris::pool pl;
    const pool_head *raw() { return reinterpret_cast<const pool_head *>(&pl); } // first member of a standard-layout class
    void init(void *zone, size_t size, size_t elemsz) { pl.init(zone, size, elemsz); }
    void *get() { return pl.get(); }
    void put(void *p) { pl.put(p); }
    size_t avail() { return pl.avail(); }
    static const char *name() { return "igris::pool"; }
    void extra(PoolModel &m)
    {
        size_t want = m.cap - m.live.size();
        if (pl.room() != want)
            m.bad("room", "room()=%zu, capacity-live=%zu", pl.room(), want);
        VF_OK("igris::pool: room() == capacity - live (also after a null get)");
        if (pl.size() != m.cap || pl.element_size() != m.elemsz)
            m.bad("size", "size()=%zu element_size()=%zu", pl.size(), pl.element_size());
        for (int i = -1; i <= (int)m.cap; i++)
        {
            bool want_alloc = i >= 0 && i < (int)m.cap && m.live.count(m.zone + (size_t)i * m.elemsz);
            if (pl.cell_is_allocated(i) != want_alloc)
                m.bad("cell_is_allocated", "cell_is_allocated(%d)=%d, reference %d", i, (int)pl.cell_is_allocated(i), (int)want_alloc);
        }
        auto it = pl.begin();
        for (auto &kv : m.live) // std::map is address-ordered == cell order
        {
            if (!(it != pl.end()) || *it != (void *)kv.first)
                m.bad("iterator", "iteration over allocated cells does not yield cell %ld next", (long)(kv.first - m.zone) / (long)m.elemsz);
            ++it;
        }
        if (it != pl.end())
            m.bad("iterator", "iteration yields more cells than are live");
        VF_OK("igris::pool: cell_is_allocated / iteration == reference live set");
    }
};

template <class P> static void pool_case(size_t elemsz, size_t zalign, size_t cap, int flavour, uint64_t idx)
{
    char cls[80];
    snprintf(cls, sizeof cls, "%s:elemsz=%zu", P::name(), elemsz);
    vf::cls(cls);
    vf::Rng rg(vf::seed(), 0x9001, idx);
    AlignedZone zone(zalign, elemsz * cap); // exact: one byte past the last cell is red zone
    P pool;
    pool.init(zone.p, elemsz * cap, elemsz);
    PoolModel m{(char *)zone.p, elemsz, cap, P::name(), zalign};
    auto counts = [&](const char *when) {
        if (!freelist_ends(pool.raw(), cap + 64))
            m.bad("free-list-does-not-end", "%s: more than %zu links without returning to the list head", when, cap + 64);
        size_t a = pool.avail();
        if (a != cap - m.live.size())
            m.bad("free-count", "%s: avail()=%zu, capacity-live=%zu", when, a, cap - m.live.size());
        VF_OK("pool: free count == capacity - live");
        pool.extra(m);
        m.verify_all(when);
    };
    counts("after engage");
    auto alloc = [&]() {
        bool full = m.live.size() == cap;
        m.note("a", (long)m.live.size());
        void *p = pool.get();
        m.on_alloc(p);
        counts(full ? "after a null alloc" : "after alloc");
        if (full)
            VF_OK("pool: null answer leaves the counters unchanged");
    };
    auto release = [&]() {
        char *p = m.take(flavour, rg);
        m.note("f", (long)(p - m.zone) / (long)elemsz);
        pool.put(p);
        counts("after free");
    };
    // round 1: exactly capacity blocks, then null twice
    for (size_t i = 0; i < cap + 2; i++)
        alloc();
    VF_OK("pool: hands out exactly capacity blocks, then null");
    // rounds: free k, re-allocate until null again
    for (int round = 0; round < 4; round++)
    {
        size_t k = m.live.empty() ? 0 : 1 + rg.below(m.live.size());
        for (size_t i = 0; i < k; i++)
            release();
        size_t back = rg.chance(1, 2) ? k + 1 : rg.below(k + 1);
        for (size_t i = 0; i < back; i++)
            alloc();
        if (back > k)
            VF_OK("pool: freed blocks become allocatable again, then null");
    }
    // random tail
    for (int i = 0; i < 40; i++)
        if (m.live.empty() || (rg.chance(1, 2)))
            alloc();
        else
            release();
    while (!m.live.empty())
        release();
    // everything is free again: the very same capacity cells come back
    for (size_t i = 0; i < cap + 1; i++)
        alloc();
    VF_OK("pool: after freeing all, capacity blocks are available again");
    vf::count_case(vf::mix(vf::mix(elemsz, cap), vf::mix(flavour * 2 + (P::name()[0] == 'i'), vf::hash_bytes(m.trace.data(), m.trace.size()))), cap > 1);
    if (vf::want_sample() && cap == 5 && elemsz == 24)
        vf::sample("%s elemsz=24 capacity=5 order=%d: %s", P::name(), flavour, m.trace.c_str());
}
static unsigned pool_max_cap() { return vf::thorough() ? 32 : 16; }
static uint64_t pool_reps() { return vf::thorough() ? 20 : 1; }
static uint64_t pool_count() { return (uint64_t)NPGRID * pool_max_cap() * 3 * 2 * pool_reps(); }
static void pool_run(uint64_t idx)
{
    uint64_t i = idx;
    int api = i % 2;
    i /= 2;
    int flavour = i % 3;
    i /= 3;
    const PGrid &g = PGRID[i % NPGRID];
    i /= NPGRID;
    size_t cap = 1 + i % pool_max_cap();
    if (api == 0)
        pool_case<CPool>(g.cell, g.align, cap, flavour, idx);
    else
        pool_case<CxxPool>(g.cell, g.align, cap, flavour, idx);
}
VF_SUITE(pools, pool_count, pool_run)

// ---- histories in which re-initialisation is an ordinary operation: igris::pool::init / pool_init+pool_engage on a
// pool that has already been used (same zone, another zone, another cell size / capacity), followed by continued use.
// Reference: all blocks of the previous life become invalid; the pool then owns exactly the new zone.
// (static_object_pool has no reset/clear member and the heap has no public re-init entry point: nothing to drive there.)
struct RGeom
{
    size_t cell, align, cap;
};
static const RGeom RGEOM[3] = {{8, 8, 1}, {16, 16, 3}, {40, 8, 2}};
enum
{
    RH_GET,
    RH_PUT_NEWEST,
    RH_PUT_OLDEST,
    RH_INIT_SAME_ZONE,
    RH_INIT_OTHER_ZONE,
    RH_INIT_GEOM0,
    RH_INIT_GEOM1,
    RH_INIT_GEOM2,
    RH_N
};
static const char *RHNAME[RH_N] = {"get", "put(newest)", "put(oldest)", "init(same zone)", "init(other zone)", "init(8x1)", "init(16x3)", "init(40x2)"};
template <class P> struct PoolHist
{
    P pool;
    std::unique_ptr<AlignedZone> zone;
    std::vector<std::unique_ptr<AlignedZone>> old_zones; // keep_old: previous zones stay allocated, so a stale block is
    bool keep_old;                                       // reported by the model (outside-zone / more-than-capacity), not by ASan
    PoolModel m;
    vf::Rng rg;
    explicit PoolHist(const RGeom &g, uint64_t salt, bool keep_old_ = false) : keep_old(keep_old_), m{nullptr, g.cell, g.cap, P::name(), g.align}, rg(vf::seed(), 0x9004, salt)
    {
        zone.reset(new AlignedZone(g.align, g.cell * g.cap));
        m.zone = zone->p;
        pool.init(zone->p, g.cell * g.cap, g.cell);
        m.trace = "init(" + std::to_string(g.cell) + "x" + std::to_string(g.cap) + ")";
        counts("after init");
    }
    void counts(const char *when)
    {
        if (!freelist_ends(pool.raw(), m.cap + 256))
            m.bad("free-list-does-not-end", "%s: more than %zu links without returning to the list head", when, m.cap + 256);
        size_t a = pool.avail();
        if (a != m.cap - m.live.size())
            m.bad("free-count", "%s: avail()=%zu, capacity-live=%zu", when, a, m.cap - m.live.size());
        VF_OK("pool: free count == capacity - live");
        pool.extra(m);
        m.verify_all(when);
    }
    void get()
    {
        m.note("a", (long)m.live.size());
        m.on_alloc(pool.get());
        counts("after get");
    }
    void put(int flavour)
    {
        if (m.live.empty())
            return;
        char *p = m.take(flavour, rg);
        m.note("f", (long)(p - m.zone) / (long)m.elemsz);
        pool.put(p);
        counts("after put");
    }
    // re-initialise the used pool; other_zone: the previous zone is released first (a stale link into it is a
    // use-after-free for ASan), same zone: the cells are carved again in place
    void reinit(const RGeom &g, bool other_zone)
    {
        m.trace += std::string(" init(") + std::to_string(g.cell) + "x" + std::to_string(g.cap) + (other_zone ? ",new zone)" : ",same zone)");
        if (vf::verbose())
            printf("  re-init %zux%zu %s\n", g.cell, g.cap, other_zone ? "new zone" : "same zone");
        if (other_zone)
        {
            if (keep_old)
                old_zones.push_back(std::move(zone));
            zone.reset();
            zone.reset(new AlignedZone(g.align, g.cell * g.cap));
        }
        m.live.clear();
        m.order.clear();
        m.zone = zone->p;
        m.elemsz = g.cell;
        m.cap = g.cap;
        m.zalign = g.align;
        pool.init(zone->p, g.cell * g.cap, g.cell);
        counts("after re-init");
        VF_OK("pool: re-init of a used pool -> exactly the new zone's cells are free");
    }
    void op(int o)
    {
        switch (o)
        {
        case RH_GET:
            get();
            break;
        case RH_PUT_NEWEST:
            put(0);
            break;
        case RH_PUT_OLDEST:
            put(1);
            break;
        case RH_INIT_SAME_ZONE:
            reinit(RGeom{m.elemsz, m.zalign, m.cap}, false);
            break;
        case RH_INIT_OTHER_ZONE:
            reinit(RGeom{m.elemsz, m.zalign, m.cap}, true);
            break;
        default:
            reinit(RGEOM[o - RH_INIT_GEOM0], true);
        }
    }
    // continued use: exactly capacity blocks, then null; give everything back
    void finish()
    {
        while (m.live.size() < m.cap)
            get();
        get();
        get();
        VF_OK("pool: after re-init exactly capacity blocks of the new zone, then null");
        while (!m.live.empty())
            put(2);
    }
};
static int rhist_len() { return vf::thorough() ? 7 : 6; }
template <class P> static uint64_t rhist_case(int start, int a, int b, uint64_t idx)
{
    char cls[80];
    snprintf(cls, sizeof cls, "%s:reinit-history", P::name());
    vf::cls(cls);
    int rest = rhist_len() - 2;
    uint64_t total = 1;
    for (int i = 0; i < rest; i++)
        total *= RH_N;
    for (uint64_t h = 0; h < total; h++)
    {
        PoolHist<P> t(RGEOM[start], idx, (a + b) & 1);
        t.op(a);
        t.op(b);
        uint64_t x = h;
        for (int i = 0; i < rest; i++, x /= RH_N)
            t.op((int)(x % RH_N));
        t.finish();
        if (h == 1234 && idx == 77 && vf::want_sample())
            vf::sample("%s re-init history: %s", P::name(), t.m.trace.c_str());
    }
    return total;
}
static uint64_t rhist_count() { return 2ull * 3 * RH_N * RH_N; }
static void rhist_run(uint64_t idx)
{
    int api = idx % 2, start = (idx / 2) % 3, a = (idx / 6) % RH_N, b = (idx / 6 / RH_N) % RH_N;
    uint64_t n = api == 0 ? rhist_case<CPool>(start, a, b, idx) : rhist_case<CxxPool>(start, a, b, idx);
    vf::count_bulk(n, n);
    VF_OK("pool: every short history over get/put/re-init (same zone, other zone, other geometry), then fill and drain");
}
VF_SUITE(pool_reinit_history, rhist_count, rhist_run)

// random long histories with re-init to any geometry of the grid
template <class P> static void rrand_case(uint64_t idx)
{
    char cls[80];
    snprintf(cls, sizeof cls, "%s:reinit-random", P::name());
    vf::cls(cls);
    vf::Rng rg(vf::seed(), 0x9005, idx);
    PoolHist<P> t(RGEOM[idx % 3], idx, (idx >> 1) & 1);
    uint64_t h = idx % 3;
    for (int step = 0; step < 300; step++)
    {
        int r = (int)rg.below(100);
        if (r < 45)
            t.get();
        else if (r < 85)
            t.put((int)rg.below(3));
        else if (r < 90)
            t.op(RH_INIT_SAME_ZONE);
        else
        {
            const PGrid &g = PGRID[rg.below(NPGRID)];
            t.reinit(RGeom{g.cell, g.align, 1 + (size_t)rg.below(8)}, true);
        }
        h = vf::mix(h, r);
        if (t.m.trace.size() > 600)
            t.m.trace.erase(0, t.m.trace.size() - 450);
    }
    t.finish();
    vf::count_case(vf::mix(h, P::name()[0]), true);
}
static uint64_t rrand_count() { return vf::thorough() ? 20000 : 300; }
static void rrand_run(uint64_t idx)
{
    if (idx & 1)
        rrand_case<CxxPool>(idx);
    else
        rrand_case<CPool>(idx);
}
VF_SUITE(pool_reinit_random, rrand_count, rrand_run)

// ---- multi-zone growth of the C pool: pool_engage of a second / third / fourth zone on a pool that is empty, partly
// used or still holding free blocks. Reference: capacity = sum of the engaged zones' cells, every block lies in one of
// the engaged zones on a cell boundary of that zone, the free list is exactly {all cells} - {live cells}.
enum
{
    MZ_GET,
    MZ_PUT_NEWEST,
    MZ_PUT_OLDEST,
    MZ_ENGAGE1,
    MZ_ENGAGE2,
    MZ_ENGAGE3,
    MZ_N
};
static const char *MZNAME[MZ_N] = {"get", "put(newest)", "put(oldest)", "engage(1 cell)", "engage(2 cells)", "engage(3 cells)"};
struct MultiZone
{
    pool_head head;
    size_t elemsz;
    std::vector<std::unique_ptr<AlignedZone>> zones;
    std::vector<size_t> zcells;
    std::map<char *, uint32_t> live;
    std::vector<char *> order;
    uint32_t next_seed = 1;
    size_t cap = 0;
    std::string trace;
    explicit MultiZone(size_t es) : elemsz(es)
    {
        pool_init(&head);
        trace = "pool_init elemsz=" + std::to_string(es);
        check("pool_init");
    }
    [[noreturn]] void bad(const char *clause, const char *fmt, ...) __attribute__((format(printf, 3, 4)))
    {
        char key[160], det[500];
        snprintf(key, sizeof key, "pool:multizone:%s", clause);
        va_list ap;
        va_start(ap, fmt);
        vsnprintf(det, sizeof det, fmt, ap);
        va_end(ap);
        vf::fail(key, "%s | elemsz=%zu zones=%zu capacity=%zu live=%zu | history: %s", det, elemsz, zones.size(), cap, live.size(), trace.c_str());
    }
    // which engaged zone holds p as a whole cell on a cell boundary? (-1: none)
    int zone_of(const char *p) const
    {
        for (size_t z = 0; z < zones.size(); z++)
        {
            const char *b = zones[z]->p;
            if (p >= b && p + elemsz <= b + zcells[z] * elemsz && (size_t)(p - b) % elemsz == 0)
                return (int)z;
        }
        return -1;
    }
    void check(const char *when)
    {
        if (!freelist_ends(&head, cap + 64))
            bad("free-list-does-not-end", "%s: more than %zu links without returning to the list head", when, cap + 64);
        // the free list is exactly the set of cells that are not live
        std::set<const char *> freecells;
        for (const slist_head *it = head.free_blocks.next; it != &head.free_blocks; it = it->next)
        {
            const char *c = (const char *)it;
            if (zone_of(c) < 0)
                bad("free-node-outside-zones", "%s: free-list node %p is not a cell of an engaged zone", when, (const void *)c);
            if (live.count((char *)c))
                bad("live-block-on-freelist", "%s: a live block is on the free list", when);
            if (!freecells.insert(c).second)
                bad("free-node-twice", "%s: a cell is on the free list twice", when);
        }
        if (freecells.size() != cap - live.size())
            bad("free-count", "%s: %zu cells on the free list, capacity-live=%zu (free blocks lost or invented)", when, freecells.size(), cap - live.size());
        size_t a = pool_avail(&head);
        if (a != cap - live.size())
            bad("free-count", "%s: pool_avail()=%zu, capacity-live=%zu", when, a, cap - live.size());
        VF_OK("pool multi-zone: free list == all engaged cells minus live ones, avail == sum of zones - live");
        for (auto &kv : live)
            for (size_t i = 0; i < elemsz; i++)
                if ((uint8_t)kv.first[i] != pat(kv.second, i))
                    bad("contents-changed", "%s: byte %zu of a live block changed", when, i);
    }
    void note(const char *w)
    {
        trace += ' ';
        trace += w;
        if (vf::verbose())
            printf("  %s\n", w);
    }
    void get()
    {
        note("get");
        char *p = (char *)pool_alloc(&head);
        if (live.size() == cap)
        {
            if (p)
                bad("more-than-capacity", "block #%zu handed out, the engaged zones hold %zu cells", live.size() + 1, cap);
            VF_OK("pool multi-zone: exhausted pool answers null");
        }
        else
        {
            if (!p)
                bad("null-before-capacity", "null after %zu of %zu blocks", live.size(), cap);
            if (zone_of(p) < 0)
                bad("outside-zones", "block %p is not a cell of any engaged zone", (void *)p);
            if ((uintptr_t)p % alignof(void *))
                bad("misaligned-for-link", "block %p", (void *)p);
            if (live.count(p))
                bad("overlap", "block handed out while live");
            uint32_t sd = next_seed++;
            for (size_t i = 0; i < elemsz; i++)
                p[i] = (char)pat(sd, i);
            live[p] = sd;
            order.push_back(p);
            VF_OK("pool multi-zone: block is a cell of one of the engaged zones, not live");
        }
        check("after get");
    }
    void put(bool newest)
    {
        if (order.empty())
            return;
        note(newest ? "put(newest)" : "put(oldest)");
        size_t i = newest ? order.size() - 1 : 0;
        char *p = order[i];
        order.erase(order.begin() + i);
        live.erase(p);
        pool_free(&head, p);
        check("after put");
    }
    void engage(size_t cells)
    {
        if (zones.size() >= 5)
            return;
        note(cells == 1 ? "engage(1)" : cells == 2 ? "engage(2)" : "engage(3)");
        bool had_free = cap > live.size(), had_live = !live.empty();
        zones.emplace_back(new AlignedZone(8, cells * elemsz));
        zcells.push_back(cells);
        cap += cells;
        pool_engage(&head, zones.back()->p, cells * elemsz, elemsz);
        check("after pool_engage of a further zone");
        if (zones.size() > 1 && had_free)
            VF_OK("pool multi-zone: engage while free blocks remain keeps them");
        if (zones.size() > 1 && !had_free && had_live)
            VF_OK("pool multi-zone: engage on an exhausted, partly used pool");
        if (zones.size() > 1 && !had_live)
            VF_OK("pool multi-zone: engage on a pool with no live block");
    }
    void op(int o)
    {
        if (o == MZ_GET)
            get();
        else if (o == MZ_PUT_NEWEST)
            put(true);
        else if (o == MZ_PUT_OLDEST)
            put(false);
        else
            engage(1 + (o - MZ_ENGAGE1));
    }
    void finish()
    {
        while (live.size() < cap)
            get();
        get();
        while (!order.empty())
            put(order.size() & 1);
        if (pool_avail(&head) != cap)
            bad("free-count", "after freeing all: pool_avail()=%zu, capacity %zu", pool_avail(&head), cap);
        VF_OK("pool multi-zone: exactly sum-of-zones blocks then null; after freeing all every cell is free");
    }
};
static int mz_len() { return vf::thorough() ? 7 : 6; }
static uint64_t mz_count() { return 3ull * MZ_N * MZ_N; }
static void mz_run(uint64_t idx)
{
    static const size_t ES[3] = {8, 24, 40};
    size_t es = ES[idx % 3];
    int a = (idx / 3) % MZ_N, b = (idx / 3 / MZ_N) % MZ_N;
    vf::cls("pool_head:multizone");
    int rest = mz_len() - 2;
    uint64_t total = 1;
    for (int i = 0; i < rest; i++)
        total *= MZ_N;
    for (uint64_t h = 0; h < total; h++)
    {
        MultiZone t(es);
        t.op(a);
        t.op(b);
        uint64_t x = h;
        for (int i = 0; i < rest; i++, x /= MZ_N)
            t.op((int)(x % MZ_N));
        t.finish();
        if (h == 4321 && idx == 40 && vf::want_sample())
            vf::sample("pool multi-zone history: %s, then fill to capacity, null, free all", t.trace.c_str());
    }
    vf::count_bulk(total, total);
    VF_OK("pool multi-zone: every short history over get/put/engage(1|2|3 cells), then fill and drain");
    // one random long history per case
    vf::Rng rg(vf::seed(), 0x9006, idx);
    MultiZone t(es);
    for (int step = 0; step < 200; step++)
    {
        int r = (int)rg.below(100);
        t.op(r < 45 ? MZ_GET : r < 65 ? MZ_PUT_NEWEST : r < 85 ? MZ_PUT_OLDEST : MZ_ENGAGE1 + (int)rg.below(3));
        if (t.trace.size() > 600)
            t.trace.erase(0, t.trace.size() - 450);
    }
    t.finish();
}
VF_SUITE(pool_multizone, mz_count, mz_run)

// ---- static_object_pool<T, N> with lifetime-tracking elements
struct Small // sizeof == sizeof(slist_head)
{
    vf::Tracked t;
    Small(int id) : t(id) {}
    int id() const { return t.id(); }
};
struct Big // 48 bytes
{
    uint64_t front;
    vf::Tracked t;
    char pad[24];
    uint64_t back;
    Big(int id) : front(0x1111111111111111ull * (id & 7)), t(id), back(~front) { memset(pad, id & 0xff, sizeof pad); }
    int id() const { return front == 0x1111111111111111ull * (t.id() & 7) && back == ~front && pad[0] == (char)(t.id() & 0xff) && pad[23] == pad[0] ? t.id() : -99; }
};
struct alignas(32) Aligned
{
    vf::Tracked t;
    uint32_t tag;
    Aligned(int id) : t(id), tag(id * 3u) {}
    int id() const { return tag == t.id() * 3u ? t.id() : -99; }
};

template <class T, size_t N> static void sop_case(int flavour, uint64_t idx, const char *tname)
{
    char cls[80];
    snprintf(cls, sizeof cls, "static_object_pool<%s,%zu>", tname, N);
    vf::cls(cls);
    vf::Tracked::reset(tname);
    vf::Rng rg(vf::seed(), 0x50b, idx);
    using Pool = igris::static_object_pool<T, N>;
    {
        std::unique_ptr<Pool> pool(new Pool());
        char *zone = (char *)pool->storage.data();
        size_t cell = sizeof(typename Pool::storage_type);
        std::map<T *, int> live;
        std::vector<T *> order;
        int next_id = 100;
        std::string trace;
        auto bad = [&](const char *clause, const char *fmt, auto... a) {
            char key[160], det[400];
            snprintf(key, sizeof key, "static_object_pool:%s", clause);
            snprintf(det, sizeof det, fmt, a...);
            vf::fail(key, "%s | T=%s N=%zu live=%zu | history: %s", det, tname, N, live.size(), trace.c_str());
        };
        auto counts = [&](const char *when) {
            if (pool->avail() != N - live.size())
                bad("free-count", "%s: avail()=%zu, capacity-live=%zu", when, pool->avail(), N - live.size());
            if (vf::Tracked::live_count() != live.size())
                bad("object-count", "%s: %zu objects alive, %zu blocks live", when, vf::Tracked::live_count(), live.size());
            for (auto &kv : live)
                if (kv.first->id() != kv.second)
                    bad("contents-changed", "%s: object in cell %ld reads id %d, constructed with %d", when, (long)((char *)kv.first - zone) / (long)cell,
                        kv.first->id(), kv.second);
            vf::Tracked::check();
            VF_OK("static_object_pool: avail == capacity - live, live objects intact");
        };
        auto create = [&]() {
            bool full = live.size() == N;
            int id = next_id++;
            trace += " c";
            vf::Tracked::at("create");
            T *p = pool->create(id);
            if (full)
            {
                if (p)
                    bad("more-than-capacity", "object #%zu created in a pool of %zu", live.size() + 1, N);
                VF_OK("static_object_pool: exhausted pool answers null without constructing");
            }
            else
            {
                if (!p)
                    bad("null-before-capacity", "null after %zu of %zu objects", live.size(), N);
                char *c = (char *)p;
                if (c < zone || c + sizeof(T) > zone + cell * N || (size_t)(c - zone) % cell || (uintptr_t)c % alignof(T))
                    bad("bad-address", "object at storage%+ld (cell %zu bytes, alignof %zu)", (long)(c - zone), cell, alignof(T));
                if (live.count(p))
                    bad("overlap", "cell %ld handed out while live", (long)(c - zone) / (long)cell);
                live[p] = id;
                order.push_back(p);
                VF_OK("static_object_pool: object inside storage, aligned, cell not live");
            }
            counts("after create");
        };
        auto destroy = [&]() {
            size_t i = flavour == 0 ? order.size() - 1 : flavour == 1 ? 0 : rg.below(order.size());
            T *p = order[i];
            order.erase(order.begin() + i);
            live.erase(p);
            trace += " d";
            vf::Tracked::at("destroy");
            pool->destroy(p);
            counts("after destroy");
        };
        counts("after construction");
        for (size_t i = 0; i < N + 2; i++)
            create();
        VF_OK("static_object_pool: creates exactly capacity objects, then null");
        for (int round = 0; round < 3; round++)
        {
            size_t k = live.empty() ? 0 : 1 + rg.below(live.size());
            for (size_t i = 0; i < k; i++)
                destroy();
            for (size_t i = 0; i < k + 1; i++)
                create();
        }
        for (int i = 0; i < 30; i++)
            if (live.empty() || rg.chance(1, 2))
                create();
            else
                destroy();
        while (!live.empty())
            destroy();
        vf::count_case(vf::mix(vf::mix(N, sizeof(T)), vf::mix(flavour, vf::hash_bytes(trace.data(), trace.size()))), N > 1);
    }
    vf::Tracked::at("end of case");
    vf::Tracked::check_all_destroyed();
    VF_OK("static_object_pool: every created object destroyed exactly once");
}
static uint64_t sop_count() { return 3ull * 3 * 6 * (vf::thorough() ? 30 : 2); }
static void sop_run(uint64_t idx)
{
    int flavour = idx % 3;
    int type = (idx / 3) % 3;
    int n = (idx / 9) % 6;
#define SOP(T, N)                         \
    case N:                               \
        sop_case<T, N>(flavour, idx, #T); \
        break;
#define SOPS(T)                                       \
    switch (n == 0 ? 1 : n == 1 ? 2 : n == 2 ? 3 : n == 3 ? 5 : n == 4 ? 8 : 16) \
    {                                                 \
        SOP(T, 1) SOP(T, 2) SOP(T, 3) SOP(T, 5) SOP(T, 8) SOP(T, 16) \
    }
    if (type == 0)
        SOPS(Small)
    else if (type == 1)
        SOPS(Big)
    else
        SOPS(Aligned)
}
VF_SUITE(static_object_pool, sop_count, sop_run)

// ---- static_object_pool<T, N> over a family of element types: every (size, alignment) with size in
// {1,3,4,8,12,16,20,24,40}, alignment in {1,4,8,16} dividing the size; trivially constructible (Pod) and
// lifetime-registered with a payload filling the whole object (Life); capacities {1,2,3,6,16}.
static void sopfam_case(const SopEntry &e, int flavour, uint64_t idx)
{
    const size_t S = e.S, A = e.A, N = e.N;
    char cls[96];
    snprintf(cls, sizeof cls, "static_object_pool<%s<%zu,%zu>,%zu>", e.life ? "Life" : "Pod", S, A, N);
    vf::cls(cls);
    if (vf::verbose())
        printf("%s free order %d\n", cls, flavour);
    g_life.reset();
    vf::Rng rg(vf::seed(), 0x50f, idx);
    std::string trace;
    std::map<char *, int> live; // block -> id (pattern seed)
    std::vector<char *> order;
    long creates_ok = 0, destroys = 0;
    int next_id = 500;
    {
        std::unique_ptr<SopIface> pool(e.make());
        char *zone = pool->storage();
        size_t zbytes = pool->storage_bytes();
        auto bad = [&](const char *clause, const char *fmt, auto... a) {
            char key[160], det[400];
            snprintf(key, sizeof key, "static_object_pool:%s", clause);
            snprintf(det, sizeof det, fmt, a...);
            vf::fail(key, "%s | sizeof(T)=%zu alignof(T)=%zu %s N=%zu live=%zu storage=%zu bytes | history:%s", det, S, A, e.life ? "non-trivial" : "trivial", N,
                     live.size(), zbytes, trace.c_str());
        };
        auto counts = [&](const char *when) {
            size_t av = pool->avail();
            if (av != N - live.size())
                bad("free-count", "%s: avail()=%zu, capacity-live=%zu", when, av, N - live.size());
            VF_OK("static_object_pool family: avail == capacity - live after every op");
            for (auto &kv : live)
                for (size_t i = 0; i < S; i++)
                    if ((uint8_t)kv.first[i] != pat((uint32_t)kv.second, i))
                        bad("contents-changed", "%s: byte %zu of the live object at storage+%ld changed", when, i, (long)(kv.first - zone));
            VF_OK("static_object_pool family: every live object keeps its fill pattern over its full size");
            if (e.life)
            {
                if (g_life.errors)
                    throw vf::CaseFailed();
                if (g_life.ctor != creates_ok || g_life.dtor != destroys || g_life.live.size() != live.size())
                    bad("object-count", "%s: %ld constructor / %ld destructor calls for %ld successful create / %ld destroy; %zu objects alive, %zu blocks live", when,
                        g_life.ctor, g_life.dtor, creates_ok, destroys, g_life.live.size(), live.size());
                VF_OK("static_object_pool family: one constructor call per create, one destructor call per destroy");
            }
        };
        auto create = [&]() {
            bool full = live.size() == N;
            int id = next_id++;
            trace += " c";
            if (vf::verbose())
                printf("  create (live=%zu)\n", live.size());
            char *p = (char *)pool->create(id);
            if (full)
            {
                if (p)
                    bad("more-than-capacity", "object #%zu created in a pool of %zu at storage+%ld", live.size() + 1, N, (long)(p - zone));
                VF_OK("static_object_pool family: exhausted pool answers null");
            }
            else
            {
                if (!p)
                    bad("null-before-capacity", "null after %zu of %zu objects", live.size(), N);
                creates_ok++;
                if (p < zone || p + S > zone + zbytes)
                    bad("outside-storage", "object [%+ld,%+ld) relative to the storage of %zu bytes", (long)(p - zone), (long)(p - zone + S), zbytes);
                if ((uintptr_t)p % A)
                    bad("misaligned", "object at storage+%ld (address %p) is not aligned to alignof(T)=%zu", (long)(p - zone), (void *)p, A);
                if ((uintptr_t)p % alignof(void *))
                    bad("misaligned-for-link", "block at storage+%ld (address %p) cannot hold the pool's free-list link when freed", (long)(p - zone), (void *)p);
                auto it = live.lower_bound(p);
                if (it != live.end() && (it->first == p || p + S > it->first))
                    bad("overlap", "object [%+ld,%+ld) overlaps the live object at storage+%ld", (long)(p - zone), (long)(p - zone + S), (long)(it->first - zone));
                if (it != live.begin() && std::prev(it)->first + S > p)
                    bad("overlap", "object [%+ld,%+ld) overlaps the live object at storage+%ld", (long)(p - zone), (long)(p - zone + S),
                        (long)(std::prev(it)->first - zone));
                VF_OK("static_object_pool family: object inside storage, aligned for T and for the link, disjoint over sizeof(T)");
                if (!e.life)
                    for (size_t i = 0; i < S; i++)
                        p[i] = (char)pat((uint32_t)id, i);
                live[p] = id;
                order.push_back(p);
            }
            counts(full ? "after a null create" : "after create");
        };
        auto destroy = [&]() {
            size_t i = flavour == 0 ? order.size() - 1 : flavour == 1 ? 0 : rg.below(order.size());
            char *p = order[i];
            order.erase(order.begin() + i);
            live.erase(p);
            destroys++;
            trace += " d";
            if (vf::verbose())
                printf("  destroy storage+%ld\n", (long)(p - zone));
            pool->destroy(p);
            counts("after destroy");
        };
        counts("after construction");
        for (size_t i = 0; i < N + 2; i++)
            create();
        VF_OK("static_object_pool family: exactly capacity objects, then null");
        for (int round = 0; round < 3; round++)
        {
            size_t k = live.empty() ? 0 : 1 + rg.below(live.size());
            for (size_t i = 0; i < k; i++)
                destroy();
            for (size_t i = 0; i < k + 1; i++)
                create();
        }
        for (int i = 0; i < 24; i++)
            if (live.empty() || rg.chance(1, 2))
                create();
            else
                destroy();
        while (!live.empty())
            destroy();
        for (size_t i = 0; i < N + 1; i++) // everything free again: capacity objects once more, then null
            create();
        while (!live.empty())
            destroy();
        VF_OK("static_object_pool family: after destroying all, capacity objects can be created again");
    }
    if (e.life && (!g_life.live.empty() || g_life.ctor != g_life.dtor))
        vf::fail("static_object_pool:object-count", "end of case: %zu objects never destroyed (%ld constructed, %ld destroyed) sizeof(T)=%zu N=%zu", g_life.live.size(),
                 g_life.ctor, g_life.dtor, S, N);
    VF_MAX("static_object_pool family: element types x capacities", NSOPFAM_POD + NSOPFAM_LIFE);
    vf::count_case(vf::mix(vf::mix(S * 64 + A, N * 2 + e.life), vf::mix(flavour, vf::hash_bytes(trace.data(), trace.size()))), N > 1);
    if (vf::want_sample() && S == 12 && A == 4 && N == 3 && e.life)
        vf::sample("static_object_pool<Life<12,4>,3> order=%d:%s", flavour, trace.c_str());
}
static uint64_t sopfam_count() { return (uint64_t)(NSOPFAM_POD + NSOPFAM_LIFE) * 3 * (vf::thorough() ? 20 : 1); }
static void sopfam_run(uint64_t idx)
{
    size_t k = (idx / 3) % (NSOPFAM_POD + NSOPFAM_LIFE);
    sopfam_case(k < NSOPFAM_POD ? SOPFAM_POD[k] : SOPFAM_LIFE[k - NSOPFAM_POD], (int)(idx % 3), idx);
}
VF_SUITE(sop_family, sopfam_count, sopfam_run)

extern "C" void vf_setup()
{
    if (const char *fc = getenv("C10_FRESH_CHILD"))
        fresh_child(fc); // re-executed process: never returns

    for (const char *c :
         {"heap: returned block aligned for pointers", "heap: returned block inside [arena start, break)", "heap: returned block overlaps no live block",
          "heap: contents of every live block untouched", "heap: free list inside arena, address-ordered, coalesced",
          "heap: arena below the break is tiled by live and free chunks", "heap: all blocks freed -> break back at arena start, free list empty",
          "heap: fill pattern intact before free", "heap: realloc preserves the common prefix", "heap: realloc in place", "heap: realloc moved the block",
          "heap: every history of the enumerated length, drained from every node", "heap path: malloc extends the break",
          "heap path: malloc takes a whole free chunk (exact or near fit)", "heap path: malloc splits a free chunk", "heap path: free lowers the break",
          "heap path: free adds a free-list node", "heap path: free coalesces with one neighbour", "heap path: free coalesces with both neighbours",
          "heap path: realloc moves (malloc+copy+free)", "heap path: realloc extends the topmost block", "heap path: realloc grows into the free neighbour",
          "heap path: realloc shrinks and releases the tail", "heap path: realloc leaves the chunk as it is", "pool: exhausted pool answers null", "pool: block inside zone, cell-aligned, not live",
          "pool: contents of every live cell untouched", "pool: free count == capacity - live", "pool: null answer leaves the counters unchanged",
          "pool: hands out exactly capacity blocks, then null", "pool: freed blocks become allocatable again, then null",
          "pool: after freeing all, capacity blocks are available again", "igris::pool: room() == capacity - live (also after a null get)",
          "igris::pool: cell_is_allocated / iteration == reference live set", "static_object_pool: avail == capacity - live, live objects intact",
          "static_object_pool: exhausted pool answers null without constructing", "static_object_pool: object inside storage, aligned, cell not live",
          "static_object_pool: creates exactly capacity objects, then null", "static_object_pool: every created object destroyed exactly once",
          "static_object_pool family: avail == capacity - live after every op", "static_object_pool family: every live object keeps its fill pattern over its full size",
          "static_object_pool family: one constructor call per create, one destructor call per destroy", "static_object_pool family: exhausted pool answers null",
          "static_object_pool family: object inside storage, aligned for T and for the link, disjoint over sizeof(T)",
          "static_object_pool family: exactly capacity objects, then null", "static_object_pool family: after destroying all, capacity objects can be created again",
          "pool: re-init of a used pool -> exactly the new zone's cells are free", "pool: after re-init exactly capacity blocks of the new zone, then null",
          "pool: every short history over get/put/re-init (same zone, other zone, other geometry), then fill and drain",
          "pool multi-zone: free list == all engaged cells minus live ones, avail == sum of zones - live", "pool multi-zone: exhausted pool answers null",
          "pool multi-zone: block is a cell of one of the engaged zones, not live", "pool multi-zone: engage while free blocks remain keeps them",
          "pool multi-zone: engage on an exhausted, partly used pool", "pool multi-zone: engage on a pool with no live block",
          "pool multi-zone: exactly sum-of-zones blocks then null; after freeing all every cell is free",
          "pool multi-zone: every short history over get/put/engage(1|2|3 cells), then fill and drain",
          "heap fresh process: __malloc_heap_start set before the first call -> every block in that arena, break returns to its start",
          "heap fresh process: defaults -> every block in the _heap_start arena, break returns to its start"})
        vf::require(c);
}
