// table of static_object_pool<Pod<S,A>,N> instantiations (trivially constructible elements)
#include "sopfam.h"
const SopEntry SOPFAM_POD[] = {SOPF_ALL(Pod, false)};
const size_t NSOPFAM_POD = sizeof SOPFAM_POD / sizeof *SOPFAM_POD;
