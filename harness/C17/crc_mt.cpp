// C17 (second unit, TSan): the CRC routines are pure functions of their arguments; a user calls them from
// several threads / from an ISR without any lock. Each case forks a FRESH process (so that any lazily
// initialised state inside the routines is in its first-use state), releases 2..4 threads together and has
// every thread compute every routine on its own message and compare with the bit-serial reference.
// A wrong value is reported by the monitor; an unsynchronised access inside igris is reported by TSan.
#define VF_MAIN
#include "vf.h"
#include <igris/util/crc.h>
#include <pthread.h>
#include <sys/wait.h>

static uint32_t ref_lsb(uint32_t rpoly, uint32_t crc, const uint8_t *d, size_t n)
{
    for (size_t i = 0; i < n; i++)
    {
        crc ^= d[i];
        for (int b = 0; b < 8; b++)
            crc = (crc & 1) ? (crc >> 1) ^ rpoly : crc >> 1;
    }
    return crc;
}
static uint32_t ref_msb(unsigned W, uint32_t poly, uint32_t crc, const uint8_t *d, size_t n)
{
    uint32_t top = 1u << (W - 1), mask = W == 32 ? 0xffffffffu : ((1u << W) - 1);
    for (size_t i = 0; i < n; i++)
    {
        crc ^= (uint32_t)d[i] << (W - 8);
        for (int b = 0; b < 8; b++)
            crc = (crc & top) ? ((crc << 1) ^ poly) & mask : (crc << 1) & mask;
    }
    return crc;
}
static uint8_t ref_crc7(const uint8_t *d, size_t n)
{
    uint8_t crc = 0;
    for (size_t i = 0; i < n; i++)
        for (int b = 7; b >= 0; b--)
        {
            unsigned in = (d[i] >> b) & 1, top = (crc >> 6) & 1;
            crc = (crc << 1) & 0x7f;
            if (in ^ top)
                crc ^= 0x09;
        }
    return crc;
}
static uint32_t ref_crc32w(uint32_t crc, const uint8_t *d, size_t n)
{
    for (size_t i = 0; i < n; i += 4)
    {
        uint32_t w = 0;
        for (size_t k = 0; k < 4 && i + k < n; k++)
            w |= (uint32_t)d[i + k] << (8 * k);
        crc ^= w;
        for (int b = 0; b < 32; b++)
            crc = (crc & 0x80000000u) ? (crc << 1) ^ 0x04C11DB7u : crc << 1;
    }
    return crc;
}

struct Job
{
    pthread_barrier_t *bar;
    uint8_t msg[64];
    size_t n;
    uint32_t seed;
    int order; // which routine goes first in this thread
    int bad;   // bit mask of routines that disagreed with the reference
};
static void *worker(void *p)
{
    Job *j = (Job *)p;
    pthread_barrier_wait(j->bar);
    for (int k = 0; k < 6; k++)
    {
        int which = (k + j->order) % 6;
        uint8_t s8 = (uint8_t)j->seed;
        switch (which)
        {
        case 0:
            if (igris_mmc_crc7(j->msg, (uint8_t)j->n) != ref_crc7(j->msg, j->n))
                j->bad |= 1;
            break;
        case 1:
            if (igris_crc8(j->msg, (uint8_t)j->n, s8) != (uint8_t)ref_lsb(0x8C, s8, j->msg, j->n))
                j->bad |= 2;
            break;
        case 2:
            if (igris_crc8_table(j->msg, (uint8_t)j->n, s8) != (uint8_t)ref_lsb(0x8C, s8, j->msg, j->n))
                j->bad |= 4;
            break;
        case 3:
            if (igris_crc16(j->msg, (uint16_t)j->n, (uint16_t)j->seed) != (uint16_t)ref_msb(16, 0x1021, (uint16_t)j->seed, j->msg, j->n))
                j->bad |= 8;
            break;
        case 4:
            if (igris_crc32(j->msg, (uint32_t)j->n, j->seed) != ref_crc32w(j->seed, j->msg, j->n))
                j->bad |= 16;
            break;
        case 5:
        {
            uint8_t c = s8;
            for (size_t i = 0; i < j->n; i++)
                igris_strmcrc8(&c, (char)j->msg[i]);
            if (c != (uint8_t)ref_msb(8, 0x31, s8, j->msg, j->n))
                j->bad |= 32;
            break;
        }
        }
    }
    return nullptr;
}

static uint64_t mt_count() { return vf::thorough() ? 4000 : 240; }
static void mt_run(uint64_t idx)
{
    vf::Rng r(vf::seed(), 0xC17E, idx);
    int nthreads = r.range(2, 4);
    vf::cls("first-use-concurrent");
    if (vf::verbose())
        printf("  fresh process, %d threads released together, every routine in every thread\n", nthreads);
    fflush(nullptr);
    pid_t pid = fork();
    if (pid == 0)
    {
        pthread_barrier_t bar;
        pthread_barrier_init(&bar, nullptr, nthreads);
        Job jobs[4];
        pthread_t th[4];
        for (int t = 0; t < nthreads; t++)
        {
            jobs[t].bar = &bar;
            jobs[t].n = 1 + r.below(63);
            for (size_t i = 0; i < jobs[t].n; i++)
                jobs[t].msg[i] = (uint8_t)r.next();
            jobs[t].seed = (uint32_t)r.next();
            jobs[t].order = (int)r.below(6);
            jobs[t].bad = 0;
        }
        for (int t = 0; t < nthreads; t++)
            pthread_create(&th[t], nullptr, worker, &jobs[t]);
        int bad = 0;
        for (int t = 0; t < nthreads; t++)
        {
            pthread_join(th[t], nullptr);
            bad |= jobs[t].bad;
        }
        fflush(nullptr);
        _exit(bad ? 64 + (bad & 63) % 64 : 0); // 0 = all agree; otherwise mask of routines (mod 64) + 64
    }
    int st = 0;
    waitpid(pid, &st, 0);
    if (WIFEXITED(st) && WEXITSTATUS(st) >= 64)
    {
        int bad = WEXITSTATUS(st) - 64;
        static const char *names[6] = {"mmc_crc7", "crc8", "crc8_table", "crc16", "crc32", "strmcrc8"};
        for (int b = 0; b < 6; b++)
            if (bad & (1 << b))
            {
                char key[100];
                snprintf(key, sizeof key, "concurrent-first-use:%s:!=reference", names[b]);
                vf::fail(key, "%d threads in a fresh process: %s disagreed with the bit-serial reference (mask %#x)", nthreads, names[b], bad);
            }
        vf::fail("concurrent-first-use:mask0", "child reported a mismatch with an empty mask");
    }
    if (!(WIFEXITED(st) && WEXITSTATUS(st) == 0))
        vf::fail("concurrent-first-use:child-died", "child status %#x", st);
    VF_OK("every routine called concurrently from 2..4 threads in a fresh process == reference (TSan watching)");
    vf::count_case(vf::mix(idx, vf::seed()), true);
    if (vf::want_sample())
        vf::sample("first-use: fresh process, %d threads, all six routines per thread in rotated order", nthreads);
}
VF_SUITE(firstuse, mt_count, mt_run)

extern "C" void vf_setup() { vf::require("every routine called concurrently from 2..4 threads in a fresh process == reference (TSan watching)"); }
