// C17 — CRC routines vs. bit-serial references; exact, misaligned heap buffers under ASan+UBSan.
#define VF_MAIN
#include "vf.h"
#include "guard.h"
#include <igris/util/crc.h>
#include <vector>

// ---------------------------------------------------------------- references (from the definitions)
// generic MSB-first CRC of width W (W <= 32), polynomial without the top bit
static uint32_t ref_msb(unsigned W, uint32_t poly, uint32_t crc, const uint8_t *d, size_t n)
{
    uint32_t top = 1u << (W - 1), mask = W == 32 ? 0xffffffffu : ((1u << W) - 1);
    for (size_t i = 0; i < n; i++)
    {
        crc ^= (uint32_t)d[i] << (W - 8);
        for (int b = 0; b < 8; b++)
            crc = (crc & top) ? ((crc << 1) ^ poly) & mask : (crc << 1) & mask;
    }
    return crc;
}
// generic LSB-first (reflected) CRC, reflected polynomial
static uint32_t ref_lsb(uint32_t rpoly, uint32_t crc, const uint8_t *d, size_t n)
{
    for (size_t i = 0; i < n; i++)
    {
        crc ^= d[i];
        for (int b = 0; b < 8; b++)
            crc = (crc & 1) ? (crc >> 1) ^ rpoly : crc >> 1;
    }
    return crc;
}
static uint8_t ref_strm8(uint8_t crc, const uint8_t *d, size_t n) { return (uint8_t)ref_msb(8, 0x31, crc, d, n); }
static uint8_t ref_dallas(uint8_t crc, const uint8_t *d, size_t n) { return (uint8_t)ref_lsb(0x8C, crc, d, n); }
static uint16_t ref_ccitt(uint16_t crc, const uint8_t *d, size_t n) { return (uint16_t)ref_msb(16, 0x1021, crc, d, n); }
// MMC CRC-7: polynomial x^7+x^3+1 (0x09), MSB first, init 0, result in the low 7 bits
static uint8_t ref_crc7(const uint8_t *d, size_t n)
{
    uint8_t crc = 0; // 7-bit register
    for (size_t i = 0; i < n; i++)
        for (int b = 7; b >= 0; b--)
        {
            unsigned in = (d[i] >> b) & 1;
            unsigned top = (crc >> 6) & 1;
            crc = (crc << 1) & 0x7f;
            if (in ^ top)
                crc ^= 0x09;
        }
    return crc;
}
// word-oriented CRC-32 (poly 0x04C11DB7, MSB first over little-endian 32-bit words, tail zero-extended)
static uint32_t ref_crc32w(uint32_t crc, const uint8_t *d, size_t n)
{
    for (size_t i = 0; i < n; i += 4)
    {
        uint32_t w = 0;
        for (size_t k = 0; k < 4 && i + k < n; k++)
            w |= (uint32_t)d[i + k] << (8 * k);
        crc ^= w;
        for (int b = 0; b < 32; b++)
            crc = (crc & 0x80000000u) ? (crc << 1) ^ 0x04C11DB7u : crc << 1;
    }
    return crc;
}
static uint8_t strm8(uint8_t crc, const uint8_t *d, size_t n)
{
    for (size_t i = 0; i < n; i++)
        igris_strmcrc8(&crc, (char)d[i]);
    return crc;
}

// ---------------------------------------------------------------- one message through every routine
static void check_message(const uint8_t *msg, size_t n, uint32_t seed32, unsigned misalign, bool splits, bool mirror = false)
{
    // mirror: the block starts exactly at the message (red zone right in front of msg[0]) to catch under-reads
    vf::Exact e(msg, n, mirror ? 5 : misalign, mirror);
    const uint8_t *p = e.p;
    uint8_t s8 = (uint8_t)seed32;
    uint16_t s16 = (uint16_t)seed32;
    std::string w = vf::hex(msg, n, 40);

    vf::cls("crc8");
    if (n <= 255)
    {
        uint8_t a = igris_crc8(p, (uint8_t)n, s8), b = igris_crc8_table(p, (uint8_t)n, s8), r = ref_dallas(s8, msg, n);
        if (a != b)
            vf::fail("crc8:table!=bitserial", "seed=%02x msg=%s bitserial=%02x table=%02x", s8, w.c_str(), a, b);
        VF_OK("crc8 table == bit-serial");
        if (a != r)
            vf::fail("crc8:!=reference", "seed=%02x msg=%s got=%02x ref=%02x", s8, w.c_str(), a, r);
        VF_OK("crc8 == Dallas reference");
        vf::cls("mmc_crc7");
        uint8_t c7 = igris_mmc_crc7(p, (uint8_t)n), r7 = ref_crc7(msg, n);
        if (c7 != r7)
            vf::fail("crc7:!=reference", "msg=%s got=%02x ref=%02x", w.c_str(), c7, r7);
        VF_OK("mmc_crc7 == reference");
    }
    vf::cls("strmcrc8");
    uint8_t st = strm8(s8, p, n), rst = ref_strm8(s8, msg, n);
    if (st != rst)
        vf::fail("strmcrc8:!=reference", "seed=%02x msg=%s got=%02x ref=%02x", s8, w.c_str(), st, rst);
    VF_OK("strmcrc8 == reference");
    {
        uint8_t c = st;
        igris_strmcrc8(&c, (char)st);
        if (c != 0)
            vf::fail("strmcrc8:residue", "seed=%02x msg=%s crc=%02x residue=%02x", s8, w.c_str(), st, c);
        VF_OK("strmcrc8(m ++ crc(m)) == 0");
    }
    vf::cls("crc16");
    uint16_t c16 = igris_crc16(p, (uint16_t)n, s16), r16 = ref_ccitt(s16, msg, n);
    if (c16 != r16)
        vf::fail("crc16:!=reference", "seed=%04x msg=%s got=%04x ref=%04x", s16, w.c_str(), c16, r16);
    VF_OK("crc16 == CCITT reference");
    vf::cls("crc32");
    uint32_t c32 = igris_crc32(p, (uint32_t)n, seed32), r32 = ref_crc32w(seed32, msg, n);
    if (c32 != r32)
        vf::fail("crc32:!=reference", "seed=%08x n=%zu misalign=%u msg=%s got=%08x ref=%08x", seed32, n, misalign, w.c_str(), c32, r32);
    VF_OK("crc32 == word-oriented reference");

    if (splits)
        for (size_t k = 0; k <= n; k++)
        {
            // both pieces again as exact blocks so that chaining cannot hide an over-read
            vf::Exact a(msg, k, (unsigned)(k % 3)), b(msg + k, n - k, misalign);
            if (n <= 255)
            {
                vf::cls("crc8-chain");
                if (igris_crc8(b.p, (uint8_t)(n - k), igris_crc8(a.p, (uint8_t)k, s8)) != ref_dallas(s8, msg, n))
                    vf::fail("crc8:chain", "seed=%02x msg=%s split=%zu", s8, w.c_str(), k);
                if (igris_crc8_table(b.p, (uint8_t)(n - k), igris_crc8_table(a.p, (uint8_t)k, s8)) != ref_dallas(s8, msg, n))
                    vf::fail("crc8_table:chain", "seed=%02x msg=%s split=%zu", s8, w.c_str(), k);
            }
            vf::cls("crc16-chain");
            if (igris_crc16(b.p, (uint16_t)(n - k), igris_crc16(a.p, (uint16_t)k, s16)) != r16)
                vf::fail("crc16:chain", "seed=%04x msg=%s split=%zu", s16, w.c_str(), k);
            if (strm8(strm8(s8, a.p, k), b.p, n - k) != rst)
                vf::fail("strmcrc8:chain", "seed=%02x msg=%s split=%zu", s8, w.c_str(), k);
            if (k % 4 == 0)
            {
                vf::cls("crc32-chain");
                if (igris_crc32(b.p, (uint32_t)(n - k), igris_crc32(a.p, (uint32_t)k, seed32)) != r32)
                    vf::fail("crc32:chain", "seed=%08x msg=%s split=%zu", seed32, w.c_str(), k);
                VF_OK("crc32 chained at word boundary == one-shot");
            }
            VF_OK("chained == one-shot (crc8, table, crc16, strmcrc8)");
        }
    if (mirror)
        VF_OK("mirrored placement (red zone in front of the message)");
    uint64_t h = vf::hash_bytes(msg, n, vf::mix(seed32, misalign * 4 + splits * 2 + mirror));
    vf::count_case(h, n >= 1);
    if (vf::verbose())
        printf("  message n=%zu misalign=%u seed=%08x bytes=%s\n", n, misalign, seed32, w.c_str());
}

// ---------------------------------------------------------------- suites
// (a) all (seed, byte) pairs: case idx = seed
static uint64_t pairs_count() { return 256; }
static void pairs_run(uint64_t seedv)
{
    for (unsigned b = 0; b < 256; b++)
    {
        uint8_t m = (uint8_t)b;
        check_message(&m, 1, (uint32_t)seedv * 0x01010101u, 0, false);
    }
    VF_OK("all 256 bytes for one seed");
    if (seedv == 0)
    {
        // calibration vector of the compiled suite
        uint32_t r = igris_crc32("HelloWorld", 10, 0);
        if (r != 1114288986u || ref_crc32w(0, (const uint8_t *)"HelloWorld", 10) != 1114288986u)
            vf::fail("crc32:calibration", "HelloWorld -> %u", r);
        VF_OK("crc32 HelloWorld calibration vector");
        vf::sample("pairs: seed=0x00, bytes 0x00..0xff, every routine");
    }
}
VF_SUITE(pairs, pairs_count, pairs_run)

// (b) all short messages over a reduced alphabet
static const uint8_t ALPHA[4] = {0x00, 0x01, 0x80, 0xFF};
static int short_maxlen() { return vf::thorough() ? 8 : 4; }
static uint64_t short_count()
{
    uint64_t t = 0, p = 1;
    for (int l = 0; l <= short_maxlen(); l++, p *= 4)
        t += p;
    return t;
}
static void short_run(uint64_t idx)
{
    uint64_t p = 1;
    int len = 0;
    while (idx >= p)
    {
        idx -= p;
        p *= 4;
        len++;
    }
    uint8_t m[12];
    for (int i = 0; i < len; i++, idx /= 4)
        m[i] = ALPHA[idx % 4];
    static const uint32_t seeds[3] = {0, 0xFFFFFFFFu, 0x5A5A5A5Au};
    for (uint32_t s : seeds)
        check_message(m, len, s, (unsigned)(len % 8), true);
    if (len == 3 && vf::want_sample())
        vf::sample("short: msg=%s seeds {0,ffffffff,5a5a5a5a} all split points", vf::hex(m, len).c_str());
}
VF_SUITE(shortmsgs, short_count, short_run)

// (c) random messages of every length at every misalignment
static uint64_t rand_count() { return vf::thorough() ? 256ull * 8 * 1500 : 256ull * 8 * 6; }
static void rand_run(uint64_t idx)
{
    vf::Rng r(vf::seed(), 0xC17, idx);
    size_t len = idx % 256;
    unsigned mis = (idx / 256) % 8;
    uint8_t m[256];
    int mode = r.below(4);
    for (size_t i = 0; i < len; i++)
        m[i] = mode == 0 ? (uint8_t)r.next() : mode == 1 ? ALPHA[r.below(4)] : mode == 2 ? (uint8_t)(0xF0 | r.below(16)) : (uint8_t)(r.chance(1, 8) ? r.next() : 0);
    bool splits = len <= 40 || r.chance(1, 16);
    check_message(m, len, (uint32_t)r.next(), mis, splits, mis == 0 && (idx / 2048) % 2 == 1);
    if (vf::want_sample() && len > 8)
        vf::sample("random: len=%zu misalign=%u msg=%s", len, mis, vf::hex(m, len, 24).c_str());
}
VF_SUITE(randmsgs, rand_count, rand_run)


// (d) long messages: the length parameters are 16 / 32 bit wide, the streaming CRC has no length at all
static const uint32_t LONGLEN[] = {256, 257, 511, 512, 1000, 1023, 1024, 1025, 2047, 2048, 4095, 4096, 4097, 8191, 16384,
                                   32767, 32768, 65534, 65535, 65536, 65537, 100003, 262145};
static uint64_t long_count() { return (sizeof LONGLEN / sizeof LONGLEN[0]) * (vf::thorough() ? 24 : 3); }
static void long_run(uint64_t idx)
{
    size_t nl = sizeof LONGLEN / sizeof LONGLEN[0];
    uint32_t n = LONGLEN[idx % nl];
    vf::Rng r(vf::seed(), 0xC17D, idx);
    unsigned mis = (unsigned)r.below(8);
    std::vector<uint8_t> m(n);
    int mode = (int)((idx / nl) % 3);
    for (auto &b : m)
        b = mode == 0 ? (uint8_t)r.next() : mode == 1 ? ALPHA[r.below(4)] : (uint8_t)(r.chance(1, 16) ? r.next() : 0xFF);
    uint32_t seed32 = (uint32_t)r.next();
    uint16_t s16 = (uint16_t)seed32;
    uint8_t s8 = (uint8_t)seed32;
    if (vf::verbose())
        printf("  long message n=%u misalign=%u seed=%08x mode=%d head=%s\n", n, mis, seed32, mode, vf::hex(m.data(), 16).c_str());
    vf::Exact e(m.data(), n, mis);
    const size_t splits[] = {0, 1, 255, 256, 1024, n / 2, n - 1, n};
    vf::cls("strmcrc8-long");
    uint8_t rst = ref_strm8(s8, m.data(), n);
    if (strm8(s8, e.p, n) != rst)
        vf::fail("strmcrc8:!=reference:long", "n=%u seed=%02x", n, s8);
    if (n <= 65535)
    {
        vf::cls("crc16-long");
        uint16_t r16 = ref_ccitt(s16, m.data(), n), c16 = igris_crc16(e.p, (uint16_t)n, s16);
        if (c16 != r16)
            vf::fail("crc16:!=reference:long", "n=%u misalign=%u seed=%04x got=%04x ref=%04x", n, mis, s16, c16, r16);
        for (size_t k : splits)
            if (k <= n && igris_crc16(e.p + k, (uint16_t)(n - k), igris_crc16(e.p, (uint16_t)k, s16)) != r16)
                vf::fail("crc16:chain:long", "n=%u split=%zu seed=%04x", n, k, s16);
        VF_OK("crc16 on long messages (256..65535 bytes) == reference, chained == one-shot");
    }
    vf::cls("crc32-long");
    uint32_t r32 = ref_crc32w(seed32, m.data(), n), c32 = igris_crc32(e.p, n, seed32);
    if (c32 != r32)
        vf::fail("crc32:!=reference:long", "n=%u misalign=%u seed=%08x got=%08x ref=%08x", n, mis, seed32, c32, r32);
    for (size_t k : splits)
        if (k <= n && k % 4 == 0 && igris_crc32(e.p + k, (uint32_t)(n - k), igris_crc32(e.p, (uint32_t)k, seed32)) != r32)
            vf::fail("crc32:chain:long", "n=%u split=%zu seed=%08x", n, k, seed32);
    VF_OK("crc32 / strmcrc8 on long messages (up to 262145 bytes) == reference");
    // the 8-bit-length routines fed piecewise over the long message (255 bytes at a time) == bit-serial reference
    vf::cls("crc8-long-piecewise");
    uint8_t a = s8, b = s8;
    for (size_t off = 0; off < n; off += 255)
    {
        uint8_t len = (uint8_t)(n - off < 255 ? n - off : 255);
        a = igris_crc8(e.p + off, len, a);
        b = igris_crc8_table(e.p + off, len, b);
    }
    if (a != (uint8_t)ref_dallas(s8, m.data(), n) || a != b)
        vf::fail("crc8:piecewise:long", "n=%u seed=%02x bitserial=%02x table=%02x", n, s8, a, b);
    VF_OK("crc8 / crc8_table fed 255 bytes at a time over a long message == reference");
    vf::count_case(vf::hash_bytes(m.data(), n, vf::mix(seed32, mis)), true);
    if (vf::want_sample())
        vf::sample("long: n=%u misalign=%u mode=%d", n, mis, mode);
}
VF_SUITE(longmsgs, long_count, long_run)

extern "C" void vf_setup()
{
    for (const char *c : {"crc8 table == bit-serial", "crc8 == Dallas reference", "mmc_crc7 == reference", "strmcrc8 == reference",
                          "strmcrc8(m ++ crc(m)) == 0", "crc16 == CCITT reference", "crc32 == word-oriented reference",
                          "crc32 chained at word boundary == one-shot", "chained == one-shot (crc8, table, crc16, strmcrc8)",
                          "crc32 HelloWorld calibration vector", "mirrored placement (red zone in front of the message)",
                          "crc16 on long messages (256..65535 bytes) == reference, chained == one-shot",
                          "crc32 / strmcrc8 on long messages (up to 262145 bytes) == reference",
                          "crc8 / crc8_table fed 255 bytes at a time over a long message == reference"})
        vf::require(c);
}
