// C13 — igris printf engine, conversions f F e E g G.
//
// Observe : every int handed to the output callback, the return value, ASan/UBSan on the engine's stack buffers,
//           per-case watchdog (a hang is a violation: "formatting terminates").
// Oracle  : (1) every double (±0, denormals, huge, ±inf, NaN): terminates, bounded output, return == characters emitted;
//           (2) finite x: the ISO C shape of the directive (sign/space/plus, padding side and fill, exactly P fraction
//               digits for f/e, exponent e[+-]dd+, for g: <= P significant digits, no trailing zeros without '#',
//               exponent style iff X < -4 or X >= P; X is read off a glibc %e rendering, both the exponent before and
//               after rounding to P digits are accepted at a power-of-ten carry);
//           (3) finite x: strtold(text) lies within half a unit of the last printed digit of x, plus 4 ulp(x).
//           glibc is used only to obtain the decimal exponent X and to parse the text back.
#define VF_MAIN
#include "vf.h"
#include "../C06/igpf.h"
#include "../C06/pf_nest.h"
#include <cfloat>
#include <climits>
#include <cmath>
#include <vector>
#include <sys/prctl.h>
#include <sys/resource.h>
#include <sys/wait.h>

using pf::Arg;

enum
{
    F_MINUS = 1,
    F_PLUS = 2,
    F_SPACE = 4,
    F_HASH = 8,
    F_ZERO = 16
};
static const char FLAGCH[5] = {'-', '+', ' ', '#', '0'};
enum
{
    W_NONE,
    W_LIT,
    W_STAR
};
enum
{
    P_NONE,
    P_LIT,
    P_STAR,
    P_DOT
};
struct FDir
{
    unsigned flags = 0, order = 0;
    int wk = W_NONE, width = 0;
    int pk = P_NONE, prec = 0;
    bool lmod = false; // "%lf": ISO C99 defines l to have no effect on f e g
    char conv = 'f';
    double x = 0;
};

static std::string dir_text(const FDir &d)
{
    std::string t = "%";
    int idx[5] = {0, 1, 2, 3, 4};
    unsigned o = d.order;
    for (int i = 4; i > 0; i--)
    {
        int j = o % (i + 1);
        o /= (i + 1);
        std::swap(idx[i], idx[j]);
    }
    for (int i = 0; i < 5; i++)
        if (d.flags & (1u << idx[i]))
            t += FLAGCH[idx[i]];
    char b[32];
    if (d.wk == W_LIT)
    {
        snprintf(b, sizeof b, "%d", d.width);
        t += b;
    }
    else if (d.wk == W_STAR)
        t += '*';
    if (d.pk == P_LIT)
    {
        snprintf(b, sizeof b, ".%d", d.prec);
        t += b;
    }
    else if (d.pk == P_STAR)
        t += ".*";
    else if (d.pk == P_DOT)
        t += '.';
    if (d.lmod)
        t += 'l';
    t += d.conv;
    return t;
}

// value class used in keys and crash/hang classes
static const char *val_class(double x)
{
    if (std::isnan(x))
        return "nan";
    if (std::isinf(x))
        return "inf";
    double a = fabs(x);
    if (a == 0)
        return "zero";
    if (a < DBL_MIN)
        return "denormal";
    if (a < 1e-4)
        return "abs<1e-4";
    if (a < 1)
        return "abs<1";
    if (a < 1e9)
        return "abs<1e9";
    if (a < 1e15)
        return "abs<1e15";
    if (a < 18446744073709551616.0)
        return "abs<2^64";
    return "huge";
}
static char lower(char c) { return (char)(c | 0x20); }

static unsigned long g_feat[48];
static const char CONVS[] = "fFeEgG";

struct Parsed
{
    std::string ip, fp, ex; // integer digits, fraction digits, exponent digits
    bool point = false, has_exp = false, exp_neg = false;
    char exp_letter = 0;
    std::string text; // sign + number without padding, for strtold
};

// decimal exponent of |x| rendered with nd significant digits (glibc), x finite and nonzero
static int dec_exponent(double ax, int nd)
{
    std::vector<char> b((size_t)nd + 40);
    snprintf(b.data(), b.size(), "%.*e", nd - 1, ax);
    const char *e = strchr(b.data(), 'e');
    return atoi(e + 1);
}

#define SHAPE_FAIL(rule, ...)                                                                                    \
    do                                                                                                           \
    {                                                                                                            \
        snprintf(why, 256, __VA_ARGS__);                                                                         \
        return rule;                                                                                             \
    } while (0)

// returns nullptr if the text has the ISO shape, else the name of the violated rule
static const char *check_shape(const FDir &d, const std::string &out, Parsed &P, char *why)
{
    bool left = (d.flags & F_MINUS) || (d.wk == W_STAR && d.width < 0);
    bool zero = (d.flags & F_ZERO) && !left;
    size_t W = d.wk == W_NONE ? 0 : (size_t)(d.width < 0 ? -(long)d.width : d.width);
    bool prec_given = d.pk == P_LIT || d.pk == P_DOT || (d.pk == P_STAR && d.prec >= 0);
    int prec = !prec_given ? 6 : d.pk == P_DOT ? 0 : d.prec;
    char c = lower(d.conv);
    bool upper = d.conv != c;
    bool alt = d.flags & F_HASH;

    size_t b = 0, e = out.size();
    if (left)
    {
        while (e > b && out[e - 1] == ' ')
            e--;
    }
    else
        while (b < e && out[b] == ' ')
            b++;
    char es = std::signbit(d.x) ? '-' : (d.flags & F_PLUS) ? '+' : (d.flags & F_SPACE) ? ' ' : 0;
    size_t lead_spaces = b;
    if (es == ' ' && !left)
    {
        // the blank of the space flag is indistinguishable from padding: it must be there, directly before the number
        if (lead_spaces == 0)
            SHAPE_FAIL("sign", "space flag: no blank before a non-negative number");
        b--;
    }
    std::string core = out.substr(b, e - b);
    if (out.size() != std::max(W, core.size()))
        SHAPE_FAIL("width", "length %zu, expected max(width %zu, unpadded %zu)", out.size(), W, core.size());
    if (left && b != 0)
        SHAPE_FAIL("width", "left-justified but padded on the left");
    if (zero && (b != 0 || e != out.size()))
        SHAPE_FAIL("width", "0 flag: padded with blanks");
    size_t k = 0;
    if (es)
    {
        if (core.empty() || core[0] != es)
            SHAPE_FAIL("sign", "expected sign character '%c'", es);
        k = 1;
    }
    else if (!core.empty() && (core[0] == '-' || core[0] == '+'))
        SHAPE_FAIL("sign", "unexpected sign character '%c'", core[0]);
    std::string body = core.substr(k);
    // zero padding sits between sign and digits
    size_t nz = 0;
    while (nz + 1 < body.size() && body[nz] == '0' && body[nz + 1] >= '0' && body[nz + 1] <= '9')
        nz++;
    if (nz)
    {
        if (!zero)
            SHAPE_FAIL("leading-digit", "%zu superfluous leading zero(s) without the 0 flag", nz);
        if (out.size() != W)
            SHAPE_FAIL("width", "zero padding beyond the field width");
        body = body.substr(nz);
    }
    // digits [. digits] [e|E sign digits]
    size_t i = 0;
    while (i < body.size() && body[i] >= '0' && body[i] <= '9')
        P.ip += body[i++];
    if (i < body.size() && body[i] == '.')
    {
        P.point = true;
        i++;
        while (i < body.size() && body[i] >= '0' && body[i] <= '9')
            P.fp += body[i++];
    }
    if (i < body.size() && (body[i] == 'e' || body[i] == 'E'))
    {
        P.has_exp = true;
        P.exp_letter = body[i++];
        if (i < body.size() && (body[i] == '+' || body[i] == '-'))
            P.exp_neg = body[i++] == '-';
        else
            SHAPE_FAIL("exponent", "exponent without a sign");
        while (i < body.size() && body[i] >= '0' && body[i] <= '9')
            P.ex += body[i++];
    }
    if (i != body.size())
        SHAPE_FAIL("syntax", "unexpected character 0x%02x at offset %zu of the number", (unsigned char)body[i], i);
    if (P.ip.empty())
        SHAPE_FAIL("syntax", "no digit before the decimal point");
    P.text = (std::signbit(d.x) ? "-" : "") + body;

    if (P.has_exp)
    {
        if (c == 'f')
            SHAPE_FAIL("syntax", "%%f printed an exponent");
        if (P.exp_letter != (upper ? 'E' : 'e'))
            SHAPE_FAIL("exponent", "exponent letter '%c' for conversion %c", P.exp_letter, d.conv);
        if (P.ex.size() < 2)
            SHAPE_FAIL("exponent", "exponent has %zu digit(s), at least two required", P.ex.size());
        if (P.ex.size() > 2 && P.ex[0] == '0')
            SHAPE_FAIL("exponent", "exponent has more digits than necessary");
        if (P.ip.size() != 1)
            SHAPE_FAIL("leading-digit", "%zu digits before the decimal point in exponent style", P.ip.size());
        if (d.x != 0 && P.ip[0] == '0')
            SHAPE_FAIL("leading-digit", "mantissa starts with 0 for a nonzero value");
    }
    else if (c == 'e')
        SHAPE_FAIL("exponent", "%%e printed no exponent");

    if (c == 'f' || c == 'e')
    {
        if ((int)P.fp.size() != prec)
            SHAPE_FAIL("fraction-digits", "%zu fraction digits, precision %d", P.fp.size(), prec);
        if (P.point != (prec > 0 || alt))
            SHAPE_FAIL("point", "decimal point %s", P.point ? "present although precision 0 and no #" : "missing");
        return nullptr;
    }
    // ---- g
    int Pg = prec == 0 ? 1 : prec;
    // X = decimal exponent of the value.  At a power of ten it is not unique within the conceded error: the
    // exponent before rounding to P digits (of |x| - 4 ulp) and after it (of |x| + 4 ulp) are both accepted.
    int Xlo = 0, Xhi = 0;
    if (d.x != 0)
    {
        double ax = fabs(d.x);
        double u4 = 4 * (nextafter(ax, INFINITY) - ax);
        double lo = ax - u4 > 0 ? ax - u4 : ax, hi = std::isfinite(ax + u4) ? ax + u4 : ax;
        Xlo = dec_exponent(lo, 21);
        Xhi = dec_exponent(hi, Pg);
    }
    bool style_lo = Xlo < -4 || Xlo >= Pg, style_hi = Xhi < -4 || Xhi >= Pg;
    if (P.has_exp != style_lo && P.has_exp != style_hi)
        SHAPE_FAIL("g-style", "%s style, but X=%d P=%d asks for %s style", P.has_exp ? "exponent" : "fixed", Xhi, Pg,
                   style_hi ? "exponent" : "fixed");
    std::string digs = P.ip + P.fp;
    size_t first = digs.find_first_not_of('0');
    if (!alt)
    {
        if (P.point && P.fp.empty())
            SHAPE_FAIL("point", "decimal point without a fraction and without #");
        if (!P.fp.empty() && P.fp.back() == '0')
            SHAPE_FAIL("g-trailing-zeros", "trailing zero in the fraction without #");
        if (first != std::string::npos)
        {
            size_t last = digs.find_last_not_of('0');
            if ((int)(last - first + 1) > Pg)
                SHAPE_FAIL("g-digits", "%zu significant digits, precision %d", last - first + 1, Pg);
        }
    }
    else
    {
        if (!P.point)
            SHAPE_FAIL("point", "# given but no decimal point");
        int n;
        if (first == std::string::npos) // zero: "0.00000"
            n = (int)P.fp.size() + 1;
        else
            n = (int)(digs.size() - first);
        bool carry = Xlo != Xhi;
        if (!(n == Pg || (carry && (n == Pg + 1))))
            SHAPE_FAIL("g-digits", "%d significant digits with #, precision %d", n, Pg);
    }
    return nullptr;
}

static std::string cls_text(const FDir &d)
{
    std::string c = "%";
    c += lower(d.conv);
    c += ':';
    c += val_class(d.x);
    if ((d.pk == P_LIT || d.pk == P_STAR) && d.prec > 17)
        c += ":P>17";
    return c;
}

static void fmt_args(const FDir &d, std::string &fmt, std::vector<Arg> &args)
{
    fmt = dir_text(d);
    if (d.wk == W_STAR)
        args.push_back(Arg::mk_i((uint32_t)d.width));
    if (d.pk == P_STAR)
        args.push_back(Arg::mk_i((uint32_t)d.prec));
    args.push_back(Arg::mk_d(d.x));
}

static long double g_max_err_units = 0; // largest observed error in units of the allowance (per worker; reported via VF_MAX)

static void check_one(const FDir &d, const std::string &prefix, const std::string &suffix, pf::Result *capture = nullptr)
{
    if (pf::skip_after_hangs())
    {
        VF_OK("skipped: the run already recorded repeated hangs");
        return;
    }
    std::string fmt;
    std::vector<Arg> args;
    fmt_args(d, fmt, args);
    fmt = prefix + fmt + suffix;
    std::string cls = cls_text(d);
    uint64_t bits;
    memcpy(&bits, &d.x, 8);
    if (vf::verbose())
        printf("  format=\"%s\" args=[%s] cls=%s\n", vf::esc(fmt.data(), fmt.size()).c_str(), pf::args_text(args.data(), (int)args.size()).c_str(),
               cls.c_str());
    g_feat[(int)(strchr(CONVS, d.conv) - CONVS)]++;
    {
        // directive/value state coverage: (conversion, flag set, width form, precision, value class)
        bool pg = d.pk == P_LIT || d.pk == P_DOT || (d.pk == P_STAR && d.prec >= 0);
        uint64_t st = (uint64_t)(unsigned char)d.conv | ((uint64_t)d.flags << 8) | ((uint64_t)(d.wk == W_NONE ? 0 : d.width < 0 ? 2 : 1) << 16) |
                      ((uint64_t)(pg ? (d.pk == P_DOT ? 0 : d.prec) + 1 : 0) << 20);
        vf::state(vf::hash_bytes(val_class(d.x), strlen(val_class(d.x)), st));
    }
    for (int i = 0; i < 5; i++)
        if (d.flags & (1u << i))
            g_feat[8 + i]++;
    vf::cls(cls.c_str());
    pf::Result r = pf::run_igris(fmt.c_str(), args.data(), (int)args.size());
    if (capture)
        *capture = r;
    // precisions beyond the 0..17 of the main grid get their own keys (":P>17")
    bool pgiven = d.pk == P_LIT || d.pk == P_DOT || (d.pk == P_STAR && d.prec >= 0);
    const char *ptag = pgiven && d.pk != P_DOT && d.prec > 17 ? ":P>17" : "";
    uint64_t h = vf::hash_bytes(fmt.data(), fmt.size(), bits);
    h = vf::mix(h, ((uint64_t)(uint32_t)d.width << 32) | (uint32_t)d.prec);
    vf::count_case(h, true);
    char key[vf::KEY_LEN];
    std::string a = pf::args_text(args.data(), (int)args.size());
    std::string shown = vf::esc(r.bytes.data(), r.bytes.size(), 120);
    const char *vc = val_class(d.x);
    char lc = lower(d.conv);
    if (r.runaway)
    {
        snprintf(key, sizeof key, "runaway-output:%%%c:%s%s", lc, vc, ptag);
        vf::fail_nothrow(key, "format=\"%s\" args=[%s]: more than %d characters emitted; starts \"%s\"", fmt.c_str(), a.c_str(), pf::CAP_LIMIT,
                         shown.c_str());
        return;
    }
    if (r.bad_char)
    {
        snprintf(key, sizeof key, "callback-char:%%%c:%s%s", lc, vc, ptag);
        vf::fail_nothrow(key, "format=\"%s\" args=[%s]: callback received a value outside the char range; output \"%s\"", fmt.c_str(), a.c_str(),
                         shown.c_str());
        return;
    }
    if (r.ret != (int)r.bytes.size())
    {
        snprintf(key, sizeof key, "return:%%%c:%s%s", lc, vc, ptag);
        vf::fail_nothrow(key, "format=\"%s\" args=[%s]: returned %d, emitted %zu characters \"%s\"", fmt.c_str(), a.c_str(), r.ret, r.bytes.size(),
                         shown.c_str());
        return;
    }
    VF_OK("terminates with bounded output, return == characters emitted (every class of double)");
    vf::count((std::string("class seen: ") + vc).c_str());
    if (!std::isfinite(d.x))
    {
        VF_OK("non-finite argument: terminates, no sanitizer report, return == emitted");
        return;
    }
    // literal text around the directive must come through unchanged
    if (r.bytes.size() < prefix.size() + suffix.size() || r.bytes.compare(0, prefix.size(), prefix) != 0 ||
        r.bytes.compare(r.bytes.size() - suffix.size(), suffix.size(), suffix) != 0)
    {
        snprintf(key, sizeof key, "shape:%%%c:literal-text:%s%s", lc, vc, ptag);
        vf::fail_nothrow(key, "format=\"%s\" args=[%s]: literal text around the directive not reproduced: \"%s\"", fmt.c_str(), a.c_str(), shown.c_str());
        return;
    }
    std::string out = r.bytes.substr(prefix.size(), r.bytes.size() - prefix.size() - suffix.size());
    Parsed P;
    char why[256];
    const char *rule = check_shape(d, out, P, why);
    if (rule)
    {
        snprintf(key, sizeof key, "shape:%%%c:%s:%s%s", lc, rule, vc, ptag);
        char ref[512];
        {
            // the host rendering is shown in the witness for orientation only; it is not the oracle
            auto call = [&](auto... xs) { return snprintf(ref, sizeof ref, fmt.c_str(), xs...); };
            pf::dispatch(call, args.data(), (int)args.size());
        }
        vf::fail_nothrow(key, "format=\"%s\" args=[%s] igris=\"%s\": %s (host libc prints \"%s\")", fmt.c_str(), a.c_str(), shown.c_str(), why,
                         vf::esc(ref, strlen(ref), 120).c_str());
        return;
    }
    VF_OK("finite: ISO C shape of the directive (sign, padding, point, digit counts, exponent, g style)");
    // (3) parse back
    char *endp = nullptr;
    long double v = strtold(P.text.c_str(), &endp);
    if (*endp)
    {
        fprintf(stderr, "C13: harness cannot parse back \"%s\"\n", P.text.c_str());
        abort();
    }
    int unit_exp = -(int)P.fp.size();
    if (P.has_exp)
        unit_exp += (P.exp_neg ? -1 : 1) * atoi(P.ex.c_str());
    if (lc == 'g' && d.x != 0)
    {
        // %g is the P-significant-digit rendering with trailing zeros removed: the removed zeros are digits of the
        // result, so "the last printed digit" is the P-th significant one (exponent taken after rounding: the larger)
        bool pg = d.pk == P_LIT || d.pk == P_DOT || (d.pk == P_STAR && d.prec >= 0);
        int Pg = !pg ? 6 : (d.pk == P_DOT || d.prec == 0) ? 1 : d.prec;
        double ax = fabs(d.x);
        double hi = ax + 4 * (nextafter(ax, INFINITY) - ax);
        unit_exp = dec_exponent(std::isfinite(hi) ? hi : ax, Pg) - Pg + 1;
    }
    long double unit = powl(10.0L, (long double)unit_exp);
    double ax = fabs(d.x);
    long double ulp = ax == 0 ? (long double)DBL_TRUE_MIN : (long double)(nextafter(ax, INFINITY) - ax);
    if (ax == DBL_MAX)
        ulp = (long double)(ax - nextafter(ax, 0));
    long double allow = unit / 2 + 4 * ulp;
    long double err = fabsl(v - (long double)d.x);
    if (!(err <= allow))
    {
        // Two kinds of violation get different keys: a wrong digit (the error exceeds the half unit by more than
        // 64 ulp(x): wrong rounding direction, lost or garbled digit) and arithmetic noise of the digit generation
        // (more than the 4 ulp the statement concedes, but below 64 ulp).  Both are violations.
        bool noise = err <= unit / 2 + 64 * ulp;
        snprintf(key, sizeof key, "%s:%%%c:%s%s", noise ? "accuracy-ulps" : "accuracy", lc, vc, noise ? "" : ptag); // the noise finding is per (conversion, class)
        vf::fail_nothrow(key, "format=\"%s\" args=[%s] igris=\"%s\": parsed back it is off by %.3Lg = half a unit of the last digit (%.3Lg) + %.2Lf ulp; allowed: half a unit + 4 ulp (ulp = %.3Lg)",
                         fmt.c_str(), a.c_str(), shown.c_str(), err, unit / 2, (err - unit / 2) / ulp, ulp);
        return;
    }
    VF_OK("finite: text parses back within half a unit of the last printed digit + 4 ulp");
    long double rel = allow > 0 ? err / allow : 0;
    if (rel > g_max_err_units)
        g_max_err_units = rel;
}

static void flush_features()
{
    char name[64];
    for (int i = 0; i < 6; i++)
        if (g_feat[i])
        {
            snprintf(name, sizeof name, "seen conversion %%%c", CONVS[i]);
            vf::count(name, g_feat[i]);
            g_feat[i] = 0;
        }
    for (int i = 0; i < 5; i++)
        if (g_feat[8 + i])
        {
            snprintf(name, sizeof name, "seen flag '%c'", FLAGCH[i]);
            vf::count(name, g_feat[8 + i]);
            g_feat[8 + i] = 0;
        }
    VF_MAX("largest parse-back error seen, percent of the allowance", (uint64_t)(g_max_err_units * 100));
}

// ---------------------------------------------------------------- values
static double from_bits(uint64_t b)
{
    double d;
    memcpy(&d, &b, 8);
    return d;
}
// every value class is represented here, so that a defect of a class shows in every run
static const std::vector<double> &fixed_values()
{
    static std::vector<double> V;
    if (!V.empty())
        return V;
    const double base[] = {0.0, 4.9406564584124654e-324, 1e-310, 2.2250738585072009e-308, DBL_MIN, 1e-300, 1.5e-100, 1e-10, 1.2345e-7,
                           9.999999e-5, 1e-5, 0.0001, 0.00012345, 0.001, 0.05, 0.1, 0.125, 0.3, 0.5, 0.999, 0.9999995, 0.99999999999, 1.0, 1.5, 2.5,
                           3.14159265358979, 9.5, 9.9999999, 10.0, 42.25, 99.5, 100.0, 123456.0, 999999.5, 1e6, 1234567.891, 1e9, 2147483648.0,
                           4294967296.0, 1e10, 123456789012.345, 999999999999999.0, 1e15, 9007199254740992.0, 9007199254740994.0, 1e17, 1e18,
                           9223372036854775808.0, 1.8e19, 18446744073709551616.0, 1e20, 1e22, 1e23, 1e50, 1e100, 1e300, DBL_MAX};
    for (double b : base)
        V.push_back(b);
    V.push_back(INFINITY);
    V.push_back(NAN);
    return V;
}
static double random_value(vf::Rng &r)
{
    switch (r.below(10))
    {
    case 0: // any bit pattern
        return from_bits(r.next());
    case 1: // boundary-biased exponent field, random mantissa
    {
        static const int E[] = {0, 1, 2, 1022, 1023, 1024, 1075, 1076, 1086, 1087, 2045, 2046, 2047, 1000, 1013, 1019};
        uint64_t m = r.chance(1, 3) ? 0 : r.chance(1, 2) ? (1ull << 52) - 1 : r.next() & ((1ull << 52) - 1);
        return from_bits(((uint64_t)r.below(2) << 63) | ((uint64_t)E[r.below(sizeof E / sizeof E[0])] << 52) | m);
    }
    case 2: // power of ten +- 1 ulp
    {
        double p = pow(10.0, (double)r.range(-320, 308));
        int k = r.range(-1, 1);
        return k < 0 ? nextafter(p, 0) : k > 0 ? nextafter(p, INFINITY) : p;
    }
    case 3: // power of two +- 1 ulp
    {
        double p = ldexp(1.0, r.range(-1074, 1023));
        int k = r.range(-1, 1);
        return k < 0 ? nextafter(p, 0) : k > 0 ? nextafter(p, INFINITY) : p;
    }
    case 4: // exact binary ties at a decimal digit: odd multiples of 2^-j scaled by 10^-k where exact
    {
        double v = (double)(2 * r.below(2000) + 1) / (double)(1 << r.range(1, 6));
        return v * pow(10.0, (double)r.range(-3, 6));
    }
    case 5: // few decimal digits times a power of ten (nearest doubles to decimal ties and to short decimals)
    {
        char b[64];
        snprintf(b, sizeof b, "%llu%se%d", (unsigned long long)r.below(100000), r.chance(1, 2) ? "5" : "", r.range(-30, 30));
        return strtod(b, nullptr);
    }
    case 6: // integers
        return (double)(int64_t)(r.next() >> r.below(64));
    case 7: // moderate magnitudes, the everyday range
        return ((double)(r.next() >> 11) / 9007199254740992.0) * pow(10.0, (double)r.range(-6, 16));
    case 8: // all nines: rounding carries into a new digit
    {
        int n = r.range(1, 17);
        char b[64];
        int k = 0;
        for (int i = 0; i < n; i++)
            b[k++] = '9';
        snprintf(b + k, sizeof b - k, "e%d", r.range(-25, 25));
        return strtod(b, nullptr);
    }
    default: // log-uniform over the whole range
        return pow(10.0, (double)r.range(-3070, 3080) / 10.0);
    }
}

static const char *only_suite() { return getenv("C13_ONLY"); }
static bool enabled(const char *suite)
{
    const char *o = only_suite();
    return !o || !*o || strcmp(o, suite) == 0;
}

// ---------------------------------------------------------------- suite 1: smoke — one call per case, one per value class and conversion
static uint64_t smoke_count() { return enabled("smoke") ? 3 * fixed_values().size() : 0; }
static void smoke_run(uint64_t idx)
{
    const std::vector<double> &V = fixed_values();
    FDir d;
    d.conv = "feg"[idx / V.size()];
    d.x = V[idx % V.size()];
    check_one(d, "", "");
    flush_features();
}
VF_SUITE(smoke, smoke_count, smoke_run)

// ---------------------------------------------------------------- suite 2: grid — conversion x flag subset x precision, all fixed values + random ones
static const int NPREC = 19; // none, 0..17
static uint64_t grid_count() { return enabled("grid") ? 6ull * 32 * NPREC : 0; }
static void grid_run(uint64_t idx)
{
    vf::Rng r(vf::seed(), 0xC13, idx);
    int psel = (int)(idx % NPREC);
    unsigned flags = (unsigned)((idx / NPREC) % 32);
    char conv = CONVS[idx / NPREC / 32];
    const std::vector<double> &V = fixed_values();
    static const int WSEL[] = {0, 12, 30};
    int nrand = vf::thorough() ? 400 : 24;
    int nw = vf::thorough() ? 3 : 1;
    for (int wi = 0; wi < nw; wi++)
        for (size_t vi = 0; vi < V.size() + (size_t)nrand; vi++)
        {
            FDir d;
            d.conv = conv;
            d.flags = flags;
            d.order = (unsigned)r.below(120);
            d.x = vi < V.size() ? V[vi] : random_value(r);
            if (r.chance(1, 2))
                d.x = -d.x;
            int w = vf::thorough() ? WSEL[wi] : WSEL[(idx + vi) % 3];
            if (w)
            {
                int form = (int)r.below(6);
                if (form == 0)
                    d.wk = W_STAR, d.width = w;
                else if (form == 1)
                    d.wk = W_STAR, d.width = -w;
                else
                    d.wk = W_LIT, d.width = w;
            }
            if (psel > 0)
            {
                int p = psel - 1;
                int form = (int)r.below(6);
                if (form == 0)
                    d.pk = P_STAR, d.prec = p;
                else if (form == 1 && p == 0)
                    d.pk = P_DOT;
                else
                    d.pk = P_LIT, d.prec = p;
            }
            else if (r.chance(1, 8))
                d.pk = P_STAR, d.prec = -(int)r.range(1, 9); // negative precision argument: as if omitted
            d.lmod = r.chance(1, 8);
            if (r.chance(1, 10))
                check_one(d, "x=", " units\n");
            else
                check_one(d, "", "");
        }
    flush_features();
    if (vf::want_sample() && idx % 97 == 5)
    {
        FDir d;
        d.conv = conv;
        d.flags = flags;
        d.x = 3.14159265358979;
        if (psel)
            d.pk = P_LIT, d.prec = psel - 1;
        std::string f;
        std::vector<Arg> a;
        fmt_args(d, f, a);
        pf::Result rr = pf::run_igris(f.c_str(), a.data(), (int)a.size());
        vf::sample("format=\"%s\" x=3.14159265358979 -> \"%s\"", f.c_str(), vf::esc(rr.bytes.data(), rr.bytes.size()).c_str());
    }
}
VF_SUITE(grid, grid_count, grid_run)

// ---------------------------------------------------------------- suite 0: witnesses of the open accuracy finding
// The digit generation of print_f works in double arithmetic (repeated *10 and /10); its error exceeds the 4 ulp the
// statement concedes only for rare arguments.  One witness per (conversion, value class) is replayed in every run
// so that the open finding is re-observed deterministically instead of depending on the seed.
struct Witness
{
    char conv;
    int prec;
    uint64_t bits;
};
static const Witness WITNESS[] = {
    {'e', 16, 0xbf29ff3505072237ull}, // accuracy-ulps:%e:abs<1  %.16e of -0.0001983406277885778
    {'e', 16, 0x2056c7757792daa1ull}, // accuracy-ulps:%e:abs<1e-4  %.16e of 6.7957823603944425e-153
    {'e', 17, 0xc28c120ac445f994ull}, // accuracy-ulps:%e:abs<1e15  %.17e of -3857976953023.1973
    {'e', 17, 0xc13adf7dcff3a2a0ull}, // accuracy-ulps:%e:abs<1e9  %.17e of -1761149.8123113289
    {'E', 16, 0xc3df7e17207a1356ull}, // accuracy-ulps:%e:abs<2^64  %.16E of -9.0771067619831542e+18
    {'e', 16, 0x8006d8f2e8e84ec5ull}, // accuracy-ulps:%e:denormal  %.16e of -9.522560297594262e-309
    {'e', 17, 0xfa4326ad8acc377cull}, // accuracy-ulps:%e:huge  %.17e of -8.6907922420910751e+280
    {'F', 17, 0xbfdf0637ed66924dull}, // accuracy-ulps:%f:abs<1  %.17F of -0.48475454505595367
    {'f', 16, 0xc3bfd26c1d277f2bull}, // accuracy-ulps:%f:abs<2^64  %.16f of -2.2930140327575007e+18
    {'f', 16, 0xf398c95d89ffdf94ull}, // accuracy-ulps:%f:huge  %.16f of -6.9322322709896365e+248
    {'g', 16, 0xbfb8a2ded686f088ull}, // accuracy-ulps:%g:abs<1  %.16g of -0.096235206007749707
    {'g', 16, 0xa68fd22cfcd1dd1dull}, // accuracy-ulps:%g:abs<1e-4  %.16g of -6.0170773085570351e-123
    {'g', 17, 0xc3baddbf138cb2caull}, // accuracy-ulps:%g:abs<2^64  %.17g of -1.9359135055249925e+18
    {'g', 17, 0x00070193350d84daull}, // accuracy-ulps:%g:denormal  %.17g of 9.74325417157832e-309
    {'G', 15, 0x7e2e18f4a7a3db9full}, // accuracy-ulps:%g:huge  %.15G of 6.2987719210102838e+299
    {'F', 330, 0x009c16c5c5253575ull}, // accuracy-ulps:%f:abs<1e-4  %.330F of 1e-305 (only reachable with a precision beyond 300)
};
static uint64_t witness_count() { return enabled("witness") ? sizeof WITNESS / sizeof WITNESS[0] : 0; }
static void witness_run(uint64_t idx)
{
    FDir d;
    d.conv = WITNESS[idx].conv;
    d.pk = P_LIT;
    d.prec = WITNESS[idx].prec;
    d.x = from_bits(WITNESS[idx].bits);
    check_one(d, "", "");
    flush_features();
}
VF_SUITE(witness, witness_count, witness_run)

// ---------------------------------------------------------------- suite 3: stress — 15..17 significant digits over every magnitude class
// (the digit generation works in double arithmetic; this is where its accumulated error shows)
static uint64_t stress_count()
{
    const char *m = getenv("C13_STRESS_MULT"); // debugging aid: hunt for rare witnesses
    return enabled("stress") ? (vf::thorough() ? 6000 : 600) * (m ? strtoull(m, nullptr, 0) : 1) : 0;
}
static void stress_run(uint64_t idx)
{
    vf::Rng r(vf::seed(), 0xC135, idx);
    // decade ranges of the value classes: denormal, abs<1e-4, abs<1, abs<1e9, abs<1e15, abs<2^64, huge
    static const int LO[7] = {-323, -307, -4, 0, 9, 15, 20}, HI[7] = {-309, -5, -1, 8, 14, 18, 307};
    int k = (int)(idx % 7);
    char conv = "feg"[(idx / 7) % 3];
    for (int i = 0; i < 200; i++)
    {
        FDir d;
        d.conv = r.chance(1, 4) ? (char)(conv - 32) : conv;
        double m = 1.0 + ((double)(r.next() >> 11) / 9007199254740992.0) * 9.0;
        d.x = m * pow(10.0, (double)r.range(LO[k], HI[k]));
        if (!std::isfinite(d.x) || d.x == 0)
            d.x = DBL_MAX;
        if (r.chance(1, 2))
            d.x = -d.x;
        d.pk = P_LIT;
        d.prec = r.range(14, 17);
        if (r.chance(1, 4))
            d.flags = (unsigned)r.below(32);
        if (r.chance(1, 4))
            d.wk = W_LIT, d.width = 30;
        check_one(d, "", "");
    }
    flush_features();
}
VF_SUITE(stress, stress_count, stress_run)

// ---------------------------------------------------------------- suite 5: large precisions ("any flags, width and precision")
// P in {18 .. 5000, dense around the engine's cap on generated fraction digits} x value classes x f e g F E G x widths,
// literally and through '.*'.  Safety (terminates, bounded, return == emitted, ASan on print_f's buffer), ISO shape
// (exactly P fraction digits, zero fill), parse-back; for values whose decimal expansion is short and exact the whole
// text must equal host glibc's.
static const int BIGP[] = {18, 30, 60, 100, 200, 330, 331, 332, 333, 334, 335, 336, 337, 338, 339, 340, 341, 342, 343, 344, 345, 400, 700, 1000, 5000};
static const std::vector<double> &bigprec_values(std::vector<char> *exact = nullptr)
{
    static std::vector<double> V;
    static std::vector<char> E; // decimal expansion short and exact: full comparison with glibc
    if (V.empty())
    {
        auto add = [&](double v, bool ex) { V.push_back(v); E.push_back(ex); };
        add(0.0, true);
        add(4.9406564584124654e-324, false); // smallest denormal
        add(1.4821969375237396e-323, false); // 3 units
        add(1e-322, false);
        add(1e-320, false);
        add(1e-310, false);
        add(2.2250738585072009e-308, false); // largest denormal
        add(DBL_MIN, false);
        add(1e-305, false);
        add(1e-300, false);
        add(0.1, false);
        add(0.5, true);
        add(1.0, true);
        add(-2.5, true);
        add(123.456, false);
        add(1e15, true);
        add(1e22, true);
        add(DBL_MAX, false);
    }
    if (exact)
        *exact = E;
    return V;
}
static uint64_t bigprec_count() { return enabled("bigprec") ? (sizeof BIGP / sizeof BIGP[0]) * 6ull : 0; }
static void bigprec_run(uint64_t idx)
{
    vf::Rng r(vf::seed(), 0xC13B, idx);
    int P = BIGP[idx / 6];
    char conv = CONVS[idx % 6];
    std::vector<char> exact;
    const std::vector<double> &V = bigprec_values(&exact);
    static std::vector<char> refbuf(1 << 17);
    for (size_t vi = 0; vi < V.size(); vi++)
        for (int wsel = 0; wsel < 3; wsel++)
        {
            FDir d;
            d.conv = conv;
            d.x = (vi & 1) && V[vi] != -2.5 && r.chance(1, 2) ? -V[vi] : V[vi];
            d.flags = r.chance(1, 2) ? 0 : (unsigned)r.below(32);
            d.order = (unsigned)r.below(120);
            bool star = r.chance(1, 3);
            d.pk = star ? P_STAR : P_LIT;
            d.prec = P;
            int w = wsel == 0 ? 0 : wsel == 1 ? P + 10 : 2000;
            if (w)
            {
                d.wk = r.chance(1, 3) ? W_STAR : W_LIT;
                d.width = d.wk == W_STAR && r.chance(1, 2) ? -w : w;
            }
            pf::Result got;
            check_one(d, "", "", &got);
            if (exact[vi] && !got.runaway)
            {
                std::string fmt;
                std::vector<Arg> args;
                fmt_args(d, fmt, args);
                auto call = [&](auto... xs) { return snprintf(refbuf.data(), refbuf.size(), fmt.c_str(), xs...); };
                int n = pf::dispatch(call, args.data(), (int)args.size());
                if (n < 0 || (size_t)n >= refbuf.size())
                {
                    fprintf(stderr, "C13: reference buffer too small\n");
                    abort();
                }
                if (got.bytes.size() != (size_t)n || memcmp(got.bytes.data(), refbuf.data(), (size_t)n) != 0 || got.ret != n)
                {
                    char key[vf::KEY_LEN];
                    size_t k = 0;
                    while (k < got.bytes.size() && k < (size_t)n && got.bytes[k] == refbuf[k])
                        k++;
                    snprintf(key, sizeof key, "exact-value-text:%%%c:%s:P>17", lower(conv), val_class(d.x));
                    vf::fail_nothrow(key, "format=\"%s\" args=[%s]: the value has a short exact decimal expansion, yet the text (%zu chars, ret %d) differs from host glibc's (%d chars) first at offset %zu: igris \"...%s\" glibc \"...%s\"",
                                     fmt.c_str(), pf::args_text(args.data(), (int)args.size()).c_str(), got.bytes.size(), got.ret, n, k,
                                     vf::esc(got.bytes.data() + (k > 8 ? k - 8 : 0), std::min<size_t>(40, got.bytes.size() - (k > 8 ? k - 8 : 0))).c_str(),
                                     vf::esc(refbuf.data() + (k > 8 ? k - 8 : 0), std::min<size_t>(40, (size_t)n - (k > 8 ? k - 8 : 0))).c_str());
                }
                else
                    VF_OK("large precision, exact short decimal value: whole text == host glibc");
            }
            VF_OK("large precision (18..5000) directive evaluated");
        }
    flush_features();
}
VF_SUITE(bigprec, bigprec_count, bigprec_run)

// ---------------------------------------------------------------- suite 6: first use — hidden state set up by the first conversion of a process
// Each case runs its directives in a FRESH process.  A fork of the worker is not fresh (the worker has formatted before
// and the child inherits whatever the engine cached), so the child re-executes this binary (/proc/self/exe) with
// C13_FIRSTUSE_CHILD set; vf_setup() diverts it into firstuse_child() before the runner does anything.
// The first conversion of the fresh process is drawn from a list of histories (%a / %A use print_f with base 16 - not
// part of C13's statement, only the history -, a huge-precision %f, NaN/inf, integer and string conversions, or nothing);
// then rounding-carry witnesses and a seeded sample of the grid run, and every text and return value must equal the
// rendering of the warm worker process (which the ordinary oracles have just judged).
struct History
{
    const char *name;
    const char *fmt;
    int kind; // 0 none, 1 double, 2 int, 3 string
    double d;
};
static const History HISTORY[] = {{"none", "", 0, 0},
                                  {"%a", "%a", 1, 0.999},
                                  {"%A", "%.3A", 1, 1234.5},
                                  {"%f", "%f", 1, 42.25},
                                  {"%e", "%.3e", 1, 9.9996},
                                  {"%g", "%g", 1, 0.0001},
                                  {"%d", "%d", 2, 0},
                                  {"%s", "%s", 3, 0},
                                  {"%.400f", "%.400f", 1, 4.9406564584124654e-324},
                                  {"nan", "%f", 1, NAN},
                                  {"inf", "%e", 1, INFINITY}};
enum
{
    NHISTORY = sizeof HISTORY / sizeof HISTORY[0]
};
struct Carry
{
    const char *fmt;
    double x;
};
static const Carry CARRY[] = {{"%.2f", 0.999},    {"%.3e", 9.9996},   {"%.0f", 0.5},      {"%.0f", 1.5},        {"%.0f", 2.5},      {"%.0f", 9.5},
                              {"%.0f", 99.5},     {"%.1f", 0.95},     {"%.1f", 9.95},     {"%.1f", 0.25},       {"%.1f", 0.05},     {"%g", 999999.5},
                              {"%g", 0.00099999995}, {"%.5g", 99999.9}, {"%.3f", 1999.9996}, {"%e", 9.9999995},  {"%.0e", 9.5},      {"%#.0f", 0.5},
                              {"%.2f", 99.999},   {"%.4f", 0.99999},  {"%.6f", 0.9999999}, {"%.10f", 0.99999999999}, {"%.15f", 0.9999999999999999}, {"%.2e", 9.999e100},
                              {"%.1e", 9.96e-100}, {"%.3g", 0.0009996}, {"%f", 1.9999999},  {"%.12e", 9.9999999999996}, {"%.20f", 0.5},   {"%.2f", -0.996}};
enum
{
    NCARRY = sizeof CARRY / sizeof CARRY[0]
};
static FDir carry_dir(const Carry &c)
{
    // parse the small witness formats back into a directive ("%[#].<P><conv>" or "%<conv>")
    FDir d;
    const char *p = c.fmt + 1;
    if (*p == '#')
        d.flags |= F_HASH, p++;
    if (*p == '.')
    {
        d.pk = P_LIT;
        d.prec = atoi(p + 1);
        p++;
        while (*p >= '0' && *p <= '9')
            p++;
    }
    d.conv = *p;
    d.x = c.x;
    return d;
}
static FDir random_grid_dir(vf::Rng &r)
{
    FDir d;
    d.conv = CONVS[r.below(6)];
    d.flags = r.chance(1, 2) ? 0 : (unsigned)r.below(32);
    d.order = (unsigned)r.below(120);
    d.x = r.chance(1, 3) ? fixed_values()[r.below(fixed_values().size() - 2)] : random_value(r);
    if (!std::isfinite(d.x))
        d.x = 0.999;
    if (r.chance(1, 2))
        d.x = -d.x;
    if (r.chance(1, 3))
        d.wk = W_LIT, d.width = r.chance(1, 2) ? 12 : 30;
    if (r.chance(3, 4))
        d.pk = P_LIT, d.prec = (int)r.range(0, 17);
    return d;
}
static void plain_cb(void *d, int c)
{
    std::string *s = (std::string *)d;
    if (s->size() >= 100000)
        _exit(66); // unbounded output (only the re-executed child uses this sink): end at once, the parent reports it
    s->push_back((char)c);
}
static int ig_plain_v(std::string *s, const char *fmt, ...)
{
    va_list ap;
    va_start(ap, fmt);
    int r = __printf(plain_cb, s, fmt, ap);
    va_end(ap);
    return r;
}
// the re-executed child: input on fd `in` (line 1: history index; then one line per directive:
// format TAB n TAB int... TAB double-bits TAB expected-bytes-hex TAB expected-return), verdict on fd `out` + exit status
static void firstuse_child(int in, int out)
{
    std::string data;
    char buf[4096];
    ssize_t n;
    while ((n = read(in, buf, sizeof buf)) > 0)
        data.append(buf, (size_t)n);
    size_t pos = data.find('\n');
    if (pos == std::string::npos)
        _exit(90);
    const History &H = HISTORY[atoi(data.c_str()) % NHISTORY];
    std::string sink;
    if (H.kind == 1)
        ig_plain_v(&sink, H.fmt, H.d);
    else if (H.kind == 2)
        ig_plain_v(&sink, H.fmt, 12345);
    else if (H.kind == 3)
        ig_plain_v(&sink, H.fmt, "history");
    size_t lineno = 0;
    for (pos++; pos < data.size(); lineno++)
    {
        size_t e = data.find('\n', pos);
        if (e == std::string::npos)
            break;
        std::string line = data.substr(pos, e - pos);
        pos = e + 1;
        std::vector<std::string> f;
        size_t a = 0;
        for (;;)
        {
            size_t t = line.find('\t', a);
            f.push_back(line.substr(a, t == std::string::npos ? std::string::npos : t - a));
            if (t == std::string::npos)
                break;
            a = t + 1;
        }
        if (f.size() < 5)
            _exit(91);
        int ni = atoi(f[1].c_str());
        if ((int)f.size() != 5 + ni)
            _exit(92);
        std::vector<Arg> args;
        for (int i = 0; i < ni; i++)
            args.push_back(Arg::mk_i(strtoull(f[2 + (size_t)i].c_str(), nullptr, 16)));
        args.push_back(Arg::mk_d(from_bits(strtoull(f[2 + (size_t)ni].c_str(), nullptr, 16))));
        std::string want;
        const std::string &hx = f[3 + (size_t)ni];
        for (size_t i = 0; i + 1 < hx.size(); i += 2)
            want.push_back((char)strtoul(hx.substr(i, 2).c_str(), nullptr, 16));
        int want_ret = atoi(f[4 + (size_t)ni].c_str());
        std::string got;
        auto call = [&](auto... xs) { return ig_plain_v(&got, f[0].c_str(), xs...); };
        int ret = pf::dispatch(call, args.data(), (int)args.size());
        if (got != want || ret != want_ret)
        {
            char msg[900];
            const char *cv = f[0].c_str() + f[0].size() - 1;
            int m = snprintf(msg, sizeof msg, "%c|directive #%zu format=\"%s\" args=[%s]: fresh process printed \"%s\" (ret %d), warm process \"%s\" (ret %d)", lower(*cv),
                             lineno, f[0].c_str(), pf::args_text(args.data(), (int)args.size()).c_str(), vf::esc(got.data(), got.size(), 100).c_str(), ret,
                             vf::esc(want.data(), want.size(), 100).c_str(), want_ret);
            if (m > 0)
                (void)!write(out, msg, (size_t)(m < (int)sizeof msg ? m : (int)sizeof msg - 1));
            _exit(65);
        }
    }
    _exit(0);
}
static uint64_t firstuse_count() { return enabled("firstuse") ? (uint64_t)NHISTORY * (vf::thorough() ? 40 : 6) : 0; }
static void firstuse_run(uint64_t idx)
{
    if (pf::skip_after_hangs())
        return;
    const History &H = HISTORY[idx % NHISTORY];
    vf::Rng r(vf::seed(), 0xC13C, idx);
    // the directives of this case and their warm-process renderings (judged by the ordinary oracles right here);
    // the list is rotated so that different directives come first after the history
    std::vector<FDir> dirs;
    for (int i = 0; i < NCARRY; i++)
        dirs.push_back(carry_dir(CARRY[((uint64_t)i + idx / NHISTORY) % NCARRY]));
    int nrand = vf::thorough() ? 120 : 60;
    for (int i = 0; i < nrand; i++)
        dirs.push_back(random_grid_dir(r));
    std::string input = std::to_string(idx % NHISTORY) + "\n";
    for (size_t i = 0; i < dirs.size(); i++)
    {
        pf::Result warm;
        check_one(dirs[i], "", "", &warm);
        std::string fmt;
        std::vector<Arg> args;
        fmt_args(dirs[i], fmt, args);
        char b[64];
        input += fmt + "\t" + std::to_string(args.size() - 1);
        for (size_t k = 0; k + 1 < args.size(); k++)
        {
            snprintf(b, sizeof b, "\t%llx", (unsigned long long)args[k].i);
            input += b;
        }
        uint64_t bits;
        memcpy(&bits, &dirs[i].x, 8);
        snprintf(b, sizeof b, "\t%llx\t", (unsigned long long)bits);
        input += b;
        input += vf::hex(warm.bytes.data(), warm.bytes.size(), warm.bytes.size() + 1);
        input += "\t" + std::to_string(warm.ret) + "\n";
    }
    flush_features();
    char cls[80];
    snprintf(cls, sizeof cls, "first-use:after-%s", H.name);
    vf::cls(cls);
    if (vf::verbose())
        printf("  fresh process (re-executed binary); first conversion: %s; then %zu directives starting with %s\n", H.name, dirs.size(), dir_text(dirs[0]).c_str());
    fflush(nullptr);
    int pin[2], pout[2];
    if (pipe(pin) != 0 || pipe(pout) != 0)
        vf::fail("first-use:harness-pipe", "pipe failed");
    pid_t pid = fork();
    if (pid == 0)
    {
        close(pin[1]);
        close(pout[0]);
        prctl(PR_SET_PDEATHSIG, SIGKILL);
        struct rlimit rl = {10, 12};
        setrlimit(RLIMIT_CPU, &rl);
        char env[64];
        snprintf(env, sizeof env, "%d,%d", pin[0], pout[1]);
        setenv("C13_FIRSTUSE_CHILD", env, 1);
        char *argv[] = {(char *)"harness-firstuse-child", nullptr};
        execv("/proc/self/exe", argv);
        _exit(93);
    }
    close(pin[0]);
    close(pout[1]);
    for (size_t off = 0; off < input.size();)
    {
        ssize_t w = write(pin[1], input.data() + off, input.size() - off);
        if (w <= 0)
            break;
        off += (size_t)w;
    }
    close(pin[1]);
    char msg[1000];
    ssize_t got = read(pout[0], msg, sizeof msg - 1);
    msg[got > 0 ? got : 0] = 0;
    close(pout[0]);
    int st = 0;
    waitpid(pid, &st, 0);
    char key[vf::KEY_LEN];
    if (WIFEXITED(st) && WEXITSTATUS(st) == 65)
    {
        snprintf(key, sizeof key, "first-use:after-%s:%%%c:!=warm-process", H.name, msg[0] ? msg[0] : '?');
        vf::fail(key, "the first conversion of a fresh process was %s \"%s\"; %s", H.name, H.fmt, msg[0] ? msg + 2 : "(no witness)");
    }
    if (WIFEXITED(st) && WEXITSTATUS(st) == 66)
    {
        snprintf(key, sizeof key, "first-use:runaway-output:after-%s", H.name);
        vf::fail(key, "fresh process (first conversion %s): a conversion emitted more than 100000 characters", H.name);
    }
    if (WIFSIGNALED(st) && (WTERMSIG(st) == SIGXCPU || WTERMSIG(st) == SIGKILL))
    {
        snprintf(key, sizeof key, "hang:firstuse@after-%s", H.name);
        vf::fail(key, "fresh process (first conversion %s) did not finish %zu directives within 10 s of CPU time", H.name, dirs.size());
    }
    if (!(WIFEXITED(st) && WEXITSTATUS(st) == 0))
    {
        snprintf(key, sizeof key, "first-use:child-died:after-%s", H.name);
        vf::fail(key, "fresh process (first conversion %s \"%s\") ended with status %#x (a sanitizer report, if any, is in the worker log)", H.name, H.fmt, st);
    }
    VF_OK("first use: after any first conversion a fresh process prints exactly what the warm process prints");
    vf::count((std::string("first-use history seen: ") + H.name).c_str());
    vf::count_case(vf::mix(idx, vf::seed() ^ 0xF1857), true);
}
VF_SUITE(firstuse, firstuse_count, firstuse_run)

// ---------------------------------------------------------------- suite 7: sequences — several directives in one format
// Every ordered pair (A, B) of a reduced set of directive shapes (bare and decorated f e g F E G, plus d x s c %% and
// '*' forms) with at least one floating directive, and seeded 3..4-directive sequences, separated by '|' and literal
// text.  Whatever the parser keeps between directives (width, precision, "precision given", flags, length modifier,
// upper-case bit) must not leak from A into B: the segment of every directive must be byte-identical to the rendering
// of that directive alone (floating directives: judged alone by the ordinary C13 oracles right here; the others: host
// glibc), and the return value must be the total length.
struct Piece
{
    std::string text;      // directive text
    std::vector<Arg> args; // its arguments
    bool is_float;
    FDir fd;
    char conv;
};
static Piece float_piece(char conv, unsigned flags, int wk, int width, int pk, int prec, bool lmod, double x)
{
    Piece p;
    p.is_float = true;
    p.fd.conv = conv;
    p.fd.flags = flags;
    p.fd.wk = wk;
    p.fd.width = width;
    p.fd.pk = pk;
    p.fd.prec = prec;
    p.fd.lmod = lmod;
    p.fd.x = x;
    fmt_args(p.fd, p.text, p.args);
    p.conv = conv;
    return p;
}
static Piece other_piece(const char *text, std::vector<Arg> args, char conv)
{
    Piece p;
    p.is_float = false;
    p.text = text;
    p.args = args;
    p.conv = conv;
    return p;
}
enum
{
    NSHAPES = 30
};
static Piece shape_piece(int k, vf::Rng &r)
{
    static const double XS[] = {0.0, 0.5, 1.0, 3.14159265358979, 42.25, 0.000123456, 123456.789, 9.9999999, 1e10, 6.02214e23, 1.5e-7, 2.5, 999999.5, 0.1};
    double x = XS[r.below(sizeof XS / sizeof XS[0])];
    if (r.chance(1, 3))
        x = -x;
    uint64_t iv = r.chance(1, 2) ? (uint64_t)r.range(-99999, 99999) : (uint64_t)(r.next() >> r.below(40));
    switch (k)
    {
    case 0:
        return float_piece('f', 0, W_NONE, 0, P_NONE, 0, false, x); // bare
    case 1:
        return float_piece('e', 0, W_NONE, 0, P_NONE, 0, false, x);
    case 2:
        return float_piece('g', 0, W_NONE, 0, P_NONE, 0, false, x);
    case 3:
        return float_piece('F', 0, W_NONE, 0, P_NONE, 0, false, x);
    case 4:
        return float_piece('E', 0, W_NONE, 0, P_NONE, 0, false, x);
    case 5:
        return float_piece('G', 0, W_NONE, 0, P_NONE, 0, false, x);
    case 6:
        return float_piece('e', 0, W_LIT, 12, P_LIT, 3, false, x);
    case 7:
        return float_piece('f', F_MINUS, W_LIT, 14, P_LIT, 2, false, x);
    case 8:
        return float_piece('f', F_PLUS, W_NONE, 0, P_LIT, 0, false, x);
    case 9:
        return float_piece('g', F_HASH, W_NONE, 0, P_NONE, 0, false, x);
    case 10:
        return float_piece('f', F_ZERO, W_LIT, 10, P_LIT, 4, false, x);
    case 11:
        return float_piece('g', F_SPACE, W_NONE, 0, P_LIT, 5, false, x);
    case 12:
        return float_piece('f', 0, W_STAR, 16, P_STAR, 3, false, x);
    case 13:
        return float_piece('e', 0, W_STAR, -15, P_NONE, 0, false, x);
    case 14:
        return float_piece('f', 0, W_NONE, 0, P_NONE, 0, true, x); // %lf
    case 15:
        return float_piece('E', 0, W_NONE, 0, P_LIT, 3, false, x);
    case 16:
        return float_piece('G', F_MINUS | F_HASH, W_LIT, 12, P_NONE, 0, false, x);
    case 17:
        return float_piece('g', 0, W_NONE, 0, P_STAR, -1, false, x); // negative precision argument: as if omitted
    case 18:
        return float_piece('f', 0, W_LIT, 9, P_DOT, 0, false, x);
    case 19:
        return other_piece("%d", {Arg::mk_i((uint32_t)iv)}, 'd');
    case 20:
        return other_piece("%7d", {Arg::mk_i((uint32_t)iv)}, 'd');
    case 21:
        return other_piece("%-#10x", {Arg::mk_i((uint32_t)iv)}, 'x');
    case 22:
        return other_piece("%08.3lld", {Arg::mk_i((uint64_t)(int64_t)(int32_t)iv)}, 'd');
    case 23:
        return other_piece("%s", {Arg::mk_p("txt")}, 's');
    case 24:
        return other_piece("%*s", {Arg::mk_i(9), Arg::mk_p("pad")}, 's');
    case 25:
        return other_piece("%-8.2s", {Arg::mk_p("cut")}, 's');
    case 26:
        return other_piece("%c", {Arg::mk_i('Z')}, 'c');
    case 27:
        return other_piece("%4c", {Arg::mk_i('q')}, 'c');
    case 28:
        return other_piece("%%", {}, '%');
    default:
        return other_piece("%X", {Arg::mk_i((uint32_t)iv)}, 'x');
    }
}
static const char *piece_class(const Piece &p) { return p.is_float ? "float" : p.conv == '%' ? "pct" : (p.conv == 's' || p.conv == 'c') ? "str" : "int"; }

static void check_sequence(const std::vector<Piece> &seq, vf::Rng &r)
{
    if (pf::skip_after_hangs())
        return;
    // expected segment of every directive: its rendering alone
    std::vector<std::string> want(seq.size());
    for (size_t i = 0; i < seq.size(); i++)
    {
        if (seq[i].is_float)
        {
            pf::Result alone;
            check_one(seq[i].fd, "", "", &alone);
            want[i] = alone.bytes;
        }
        else
            want[i] = pf::run_ref(seq[i].text.c_str(), seq[i].args.data(), (int)seq[i].args.size()).bytes;
    }
    static const char *const LEAD[] = {"", "", "x=", "[", "value: "};
    std::string lead = LEAD[r.below(5)], tail = r.chance(1, 2) ? "" : (r.chance(1, 2) ? "]" : " end\n");
    std::string fmt = lead, expect = lead;
    std::vector<Arg> args;
    for (size_t i = 0; i < seq.size(); i++)
    {
        if (i)
            fmt += "|", expect += "|";
        fmt += seq[i].text;
        expect += want[i];
        args.insert(args.end(), seq[i].args.begin(), seq[i].args.end());
    }
    fmt += tail;
    expect += tail;
    if ((int)args.size() > pf::MAXARGS)
        return;
    std::string cls = std::string("sequence:") + piece_class(seq[seq.size() - 1]) + "-after-" + piece_class(seq[seq.size() - 2]);
    vf::cls(cls.c_str());
    if (vf::verbose())
        printf("  sequence format=\"%s\" args=[%s]\n", vf::esc(fmt.data(), fmt.size(), 200).c_str(), pf::args_text(args.data(), (int)args.size()).c_str());
    pf::Result got = pf::run_igris(fmt.c_str(), args.data(), (int)args.size());
    uint64_t h = vf::hash_bytes(fmt.data(), fmt.size());
    for (const Arg &a : args)
        h = vf::mix(h, a.k == Arg::I ? a.i : (uint64_t)(a.d * 1e9));
    vf::count_case(h, true);
    char key[vf::KEY_LEN];
    if (got.runaway || got.bytes != expect || got.ret != (int)expect.size())
    {
        // which directive is the first whose segment differs, and what came before it
        size_t off = lead.size(), bad = seq.size();
        std::vector<std::string> segs;
        {
            std::string body = got.bytes.size() >= lead.size() ? got.bytes.substr(lead.size()) : "";
            size_t a = 0;
            for (;;)
            {
                size_t t = body.find('|', a);
                segs.push_back(body.substr(a, t == std::string::npos ? std::string::npos : t - a));
                if (t == std::string::npos)
                    break;
                a = t + 1;
            }
        }
        (void)off;
        for (size_t i = 0; i < seq.size(); i++)
        {
            std::string w = want[i] + (i + 1 == seq.size() ? tail : "");
            if (i >= segs.size() || segs[i] != w)
            {
                bad = i;
                break;
            }
        }
        const char *what = got.runaway ? "runaway-output" : got.bytes != expect ? "segment" : "return";
        if (bad < seq.size())
            snprintf(key, sizeof key, "sequence:%s:%%%c-after-%s", what, lower(seq[bad].conv) == '%' ? '%' : seq[bad].conv, bad ? piece_class(seq[bad - 1]) : "start");
        else
            snprintf(key, sizeof key, "sequence:%s:whole-format", what);
        vf::fail_nothrow(key, "format=\"%s\" args=[%s]: igris=\"%s\" (ret %d); every directive alone gives \"%s\" (total %zu); first differing directive #%zu \"%s\"",
                         vf::esc(fmt.data(), fmt.size(), 160).c_str(), pf::args_text(args.data(), (int)args.size()).c_str(), vf::esc(got.bytes.data(), got.bytes.size(), 200).c_str(),
                         got.ret, vf::esc(expect.data(), expect.size(), 200).c_str(), expect.size(), bad, bad < seq.size() ? seq[bad].text.c_str() : "?");
        return;
    }
    VF_OK("sequence: every directive's segment == its rendering alone, return == total length");
    vf::state(vf::hash_bytes(fmt.data(), fmt.size(), 0x5e9));
}
static uint64_t seq_count() { return enabled("sequence") ? (uint64_t)NSHAPES * NSHAPES : 0; }
static void seq_run(uint64_t idx)
{
    vf::Rng r(vf::seed(), 0xC13D, idx);
    int a = (int)(idx / NSHAPES), b = (int)(idx % NSHAPES);
    int reps = vf::thorough() ? 6 : 2;
    for (int rep = 0; rep < reps; rep++)
    {
        Piece A = shape_piece(a, r), B = shape_piece(b, r);
        if (A.is_float || B.is_float)
            check_sequence({A, B}, r);
        // the pair embedded in a 3..4-directive sequence
        std::vector<Piece> seq;
        int n = r.range(3, 4), at = r.range(0, n - 2);
        for (int i = 0; i < n; i++)
            seq.push_back(i == at ? A : i == at + 1 ? B : shape_piece((int)r.below(NSHAPES), r));
        bool any = false;
        for (const Piece &p : seq)
            any |= p.is_float;
        if (any)
            check_sequence(seq, r);
    }
    flush_features();
    if (vf::want_sample() && idx % 53 == 7)
    {
        Piece A = shape_piece(a, r), B = shape_piece(b, r);
        vf::sample("sequence: \"%s|%s\" and 3..4-directive sequences containing that pair", A.text.c_str(), B.text.c_str());
    }
}
VF_SUITE(sequence, seq_count, seq_run)

// ---------------------------------------------------------------- suite 4: re-entrancy — the output callback formats through the engine
// (../C06/pf_nest.h) every (outer, inner) pair with at least one floating call; the inner call is injected at every
// callback invocation of the outer one (padding, sign, digits, exponent); both streams and return values must be unchanged.
static uint64_t reent_count() { return enabled("reentrant") ? pf::reentrancy_count() : 0; }
static void reent_run(uint64_t idx)
{
    if (pf::skip_after_hangs())
        return;
    pf::reentrancy_run(idx, true, 0xC13E);
}
VF_SUITE(reentrant, reent_count, reent_run)

extern "C" void vf_setup()
{
    if (const char *fc = getenv("C13_FIRSTUSE_CHILD"))
    {
        // re-executed by firstuse_run: a process that has never formatted anything
        int in = 0, out = 1;
        sscanf(fc, "%d,%d", &in, &out);
        unsetenv("C13_FIRSTUSE_CHILD");
        firstuse_child(in, out);
    }
    pf::setup();
    if (only_suite() && *only_suite())
        return;
    vf::require("re-entrancy: outer and inner stream and return value unchanged by the overlap");
    vf::require("sequence: every directive's segment == its rendering alone, return == total length");
    vf::require("first use: after any first conversion a fresh process prints exactly what the warm process prints");
    vf::require("large precision (18..5000) directive evaluated");
    vf::require("large precision, exact short decimal value: whole text == host glibc");
    for (int i = 0; i < NHISTORY; i++)
        vf::require((std::string("first-use history seen: ") + HISTORY[i].name).c_str());
    for (const char *c : {"terminates with bounded output, return == characters emitted (every class of double)",
                          "non-finite argument: terminates, no sanitizer report, return == emitted",
                          "finite: ISO C shape of the directive (sign, padding, point, digit counts, exponent, g style)",
                          "finite: text parses back within half a unit of the last printed digit + 4 ulp", "class seen: nan", "class seen: inf",
                          "class seen: zero", "class seen: denormal", "class seen: abs<1e-4", "class seen: abs<1", "class seen: abs<1e9",
                          "class seen: abs<1e15", "class seen: abs<2^64", "class seen: huge"})
        vf::require(c);
    char name[64];
    for (const char *p = CONVS; *p; p++)
    {
        snprintf(name, sizeof name, "seen conversion %%%c", *p);
        vf::require(name);
    }
    for (int i = 0; i < 5; i++)
    {
        snprintf(name, sizeof name, "seen flag '%c'", FLAGCH[i]);
        vf::require(name);
    }
}
