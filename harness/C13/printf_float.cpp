// C13 — igris printf engine, conversions f F e E g G.
//
// Observe : every int handed to the output callback, the return value, ASan/UBSan on the engine's stack buffers,
//           per-case watchdog (a hang is a violation: "formatting terminates").
// Oracle  : (1) every double (±0, denormals, huge, ±inf, NaN): terminates, bounded output, return == characters emitted;
//           (2) finite x: the ISO C shape of the directive (sign/space/plus, padding side and fill, exactly P fraction
//               digits for f/e, exponent e[+-]dd+, for g: <= P significant digits, no trailing zeros without '#',
//               exponent style iff X < -4 or X >= P; X is read off a glibc %e rendering, both the exponent before and
//               after rounding to P digits are accepted at a power-of-ten carry);
//           (3) finite x: strtold(text) lies within half a unit of the last printed digit of x, plus 4 ulp(x).
//           glibc is used only to obtain the decimal exponent X and to parse the text back.
#define VF_MAIN
#include "vf.h"
#include "../C06/igpf.h"
#include "../C06/pf_nest.h"
#include <cfloat>
#include <climits>
#include <cmath>
#include <vector>

using pf::Arg;

enum
{
    F_MINUS = 1,
    F_PLUS = 2,
    F_SPACE = 4,
    F_HASH = 8,
    F_ZERO = 16
};
static const char FLAGCH[5] = {'-', '+', ' ', '#', '0'};
enum
{
    W_NONE,
    W_LIT,
    W_STAR
};
enum
{
    P_NONE,
    P_LIT,
    P_STAR,
    P_DOT
};
struct FDir
{
    unsigned flags = 0, order = 0;
    int wk = W_NONE, width = 0;
    int pk = P_NONE, prec = 0;
    bool lmod = false; // "%lf": ISO C99 defines l to have no effect on f e g
    char conv = 'f';
    double x = 0;
};

static std::string dir_text(const FDir &d)
{
    std::string t = "%";
    int idx[5] = {0, 1, 2, 3, 4};
    unsigned o = d.order;
    for (int i = 4; i > 0; i--)
    {
        int j = o % (i + 1);
        o /= (i + 1);
        std::swap(idx[i], idx[j]);
    }
    for (int i = 0; i < 5; i++)
        if (d.flags & (1u << idx[i]))
            t += FLAGCH[idx[i]];
    char b[32];
    if (d.wk == W_LIT)
    {
        snprintf(b, sizeof b, "%d", d.width);
        t += b;
    }
    else if (d.wk == W_STAR)
        t += '*';
    if (d.pk == P_LIT)
    {
        snprintf(b, sizeof b, ".%d", d.prec);
        t += b;
    }
    else if (d.pk == P_STAR)
        t += ".*";
    else if (d.pk == P_DOT)
        t += '.';
    if (d.lmod)
        t += 'l';
    t += d.conv;
    return t;
}

// value class used in keys and crash/hang classes
static const char *val_class(double x)
{
    if (std::isnan(x))
        return "nan";
    if (std::isinf(x))
        return "inf";
    double a = fabs(x);
    if (a == 0)
        return "zero";
    if (a < DBL_MIN)
        return "denormal";
    if (a < 1e-4)
        return "abs<1e-4";
    if (a < 1)
        return "abs<1";
    if (a < 1e9)
        return "abs<1e9";
    if (a < 1e15)
        return "abs<1e15";
    if (a < 18446744073709551616.0)
        return "abs<2^64";
    return "huge";
}
static char lower(char c) { return (char)(c | 0x20); }

static unsigned long g_feat[48];
static const char CONVS[] = "fFeEgG";

struct Parsed
{
    std::string ip, fp, ex; // integer digits, fraction digits, exponent digits
    bool point = false, has_exp = false, exp_neg = false;
    char exp_letter = 0;
    std::string text; // sign + number without padding, for strtold
};

// decimal exponent of |x| rendered with nd significant digits (glibc), x finite and nonzero
static int dec_exponent(double ax, int nd)
{
    char b[64];
    snprintf(b, sizeof b, "%.*e", nd - 1, ax);
    const char *e = strchr(b, 'e');
    return atoi(e + 1);
}

#define SHAPE_FAIL(rule, ...)                                                                                    \
    do                                                                                                           \
    {                                                                                                            \
        snprintf(why, 256, __VA_ARGS__);                                                                         \
        return rule;                                                                                             \
    } while (0)

// returns nullptr if the text has the ISO shape, else the name of the violated rule
static const char *check_shape(const FDir &d, const std::string &out, Parsed &P, char *why)
{
    bool left = (d.flags & F_MINUS) || (d.wk == W_STAR && d.width < 0);
    bool zero = (d.flags & F_ZERO) && !left;
    size_t W = d.wk == W_NONE ? 0 : (size_t)(d.width < 0 ? -(long)d.width : d.width);
    bool prec_given = d.pk == P_LIT || d.pk == P_DOT || (d.pk == P_STAR && d.prec >= 0);
    int prec = !prec_given ? 6 : d.pk == P_DOT ? 0 : d.prec;
    char c = lower(d.conv);
    bool upper = d.conv != c;
    bool alt = d.flags & F_HASH;

    size_t b = 0, e = out.size();
    if (left)
    {
        while (e > b && out[e - 1] == ' ')
            e--;
    }
    else
        while (b < e && out[b] == ' ')
            b++;
    char es = std::signbit(d.x) ? '-' : (d.flags & F_PLUS) ? '+' : (d.flags & F_SPACE) ? ' ' : 0;
    size_t lead_spaces = b;
    if (es == ' ' && !left)
    {
        // the blank of the space flag is indistinguishable from padding: it must be there, directly before the number
        if (lead_spaces == 0)
            SHAPE_FAIL("sign", "space flag: no blank before a non-negative number");
        b--;
    }
    std::string core = out.substr(b, e - b);
    if (out.size() != std::max(W, core.size()))
        SHAPE_FAIL("width", "length %zu, expected max(width %zu, unpadded %zu)", out.size(), W, core.size());
    if (left && b != 0)
        SHAPE_FAIL("width", "left-justified but padded on the left");
    if (zero && (b != 0 || e != out.size()))
        SHAPE_FAIL("width", "0 flag: padded with blanks");
    size_t k = 0;
    if (es)
    {
        if (core.empty() || core[0] != es)
            SHAPE_FAIL("sign", "expected sign character '%c'", es);
        k = 1;
    }
    else if (!core.empty() && (core[0] == '-' || core[0] == '+'))
        SHAPE_FAIL("sign", "unexpected sign character '%c'", core[0]);
    std::string body = core.substr(k);
    // zero padding sits between sign and digits
    size_t nz = 0;
    while (nz + 1 < body.size() && body[nz] == '0' && body[nz + 1] >= '0' && body[nz + 1] <= '9')
        nz++;
    if (nz)
    {
        if (!zero)
            SHAPE_FAIL("leading-digit", "%zu superfluous leading zero(s) without the 0 flag", nz);
        if (out.size() != W)
            SHAPE_FAIL("width", "zero padding beyond the field width");
        body = body.substr(nz);
    }
    // digits [. digits] [e|E sign digits]
    size_t i = 0;
    while (i < body.size() && body[i] >= '0' && body[i] <= '9')
        P.ip += body[i++];
    if (i < body.size() && body[i] == '.')
    {
        P.point = true;
        i++;
        while (i < body.size() && body[i] >= '0' && body[i] <= '9')
            P.fp += body[i++];
    }
    if (i < body.size() && (body[i] == 'e' || body[i] == 'E'))
    {
        P.has_exp = true;
        P.exp_letter = body[i++];
        if (i < body.size() && (body[i] == '+' || body[i] == '-'))
            P.exp_neg = body[i++] == '-';
        else
            SHAPE_FAIL("exponent", "exponent without a sign");
        while (i < body.size() && body[i] >= '0' && body[i] <= '9')
            P.ex += body[i++];
    }
    if (i != body.size())
        SHAPE_FAIL("syntax", "unexpected character 0x%02x at offset %zu of the number", (unsigned char)body[i], i);
    if (P.ip.empty())
        SHAPE_FAIL("syntax", "no digit before the decimal point");
    P.text = (std::signbit(d.x) ? "-" : "") + body;

    if (P.has_exp)
    {
        if (c == 'f')
            SHAPE_FAIL("syntax", "%%f printed an exponent");
        if (P.exp_letter != (upper ? 'E' : 'e'))
            SHAPE_FAIL("exponent", "exponent letter '%c' for conversion %c", P.exp_letter, d.conv);
        if (P.ex.size() < 2)
            SHAPE_FAIL("exponent", "exponent has %zu digit(s), at least two required", P.ex.size());
        if (P.ex.size() > 2 && P.ex[0] == '0')
            SHAPE_FAIL("exponent", "exponent has more digits than necessary");
        if (P.ip.size() != 1)
            SHAPE_FAIL("leading-digit", "%zu digits before the decimal point in exponent style", P.ip.size());
        if (d.x != 0 && P.ip[0] == '0')
            SHAPE_FAIL("leading-digit", "mantissa starts with 0 for a nonzero value");
    }
    else if (c == 'e')
        SHAPE_FAIL("exponent", "%%e printed no exponent");

    if (c == 'f' || c == 'e')
    {
        if ((int)P.fp.size() != prec)
            SHAPE_FAIL("fraction-digits", "%zu fraction digits, precision %d", P.fp.size(), prec);
        if (P.point != (prec > 0 || alt))
            SHAPE_FAIL("point", "decimal point %s", P.point ? "present although precision 0 and no #" : "missing");
        return nullptr;
    }
    // ---- g
    int Pg = prec == 0 ? 1 : prec;
    // X = decimal exponent of the value.  At a power of ten it is not unique within the conceded error: the
    // exponent before rounding to P digits (of |x| - 4 ulp) and after it (of |x| + 4 ulp) are both accepted.
    int Xlo = 0, Xhi = 0;
    if (d.x != 0)
    {
        double ax = fabs(d.x);
        double u4 = 4 * (nextafter(ax, INFINITY) - ax);
        double lo = ax - u4 > 0 ? ax - u4 : ax, hi = std::isfinite(ax + u4) ? ax + u4 : ax;
        Xlo = dec_exponent(lo, 21);
        Xhi = dec_exponent(hi, Pg);
    }
    bool style_lo = Xlo < -4 || Xlo >= Pg, style_hi = Xhi < -4 || Xhi >= Pg;
    if (P.has_exp != style_lo && P.has_exp != style_hi)
        SHAPE_FAIL("g-style", "%s style, but X=%d P=%d asks for %s style", P.has_exp ? "exponent" : "fixed", Xhi, Pg,
                   style_hi ? "exponent" : "fixed");
    std::string digs = P.ip + P.fp;
    size_t first = digs.find_first_not_of('0');
    if (!alt)
    {
        if (P.point && P.fp.empty())
            SHAPE_FAIL("point", "decimal point without a fraction and without #");
        if (!P.fp.empty() && P.fp.back() == '0')
            SHAPE_FAIL("g-trailing-zeros", "trailing zero in the fraction without #");
        if (first != std::string::npos)
        {
            size_t last = digs.find_last_not_of('0');
            if ((int)(last - first + 1) > Pg)
                SHAPE_FAIL("g-digits", "%zu significant digits, precision %d", last - first + 1, Pg);
        }
    }
    else
    {
        if (!P.point)
            SHAPE_FAIL("point", "# given but no decimal point");
        int n;
        if (first == std::string::npos) // zero: "0.00000"
            n = (int)P.fp.size() + 1;
        else
            n = (int)(digs.size() - first);
        bool carry = Xlo != Xhi;
        if (!(n == Pg || (carry && (n == Pg + 1))))
            SHAPE_FAIL("g-digits", "%d significant digits with #, precision %d", n, Pg);
    }
    return nullptr;
}

static std::string cls_text(const FDir &d)
{
    std::string c = "%";
    c += lower(d.conv);
    c += ':';
    c += val_class(d.x);
    return c;
}

static void fmt_args(const FDir &d, std::string &fmt, std::vector<Arg> &args)
{
    fmt = dir_text(d);
    if (d.wk == W_STAR)
        args.push_back(Arg::mk_i((uint32_t)d.width));
    if (d.pk == P_STAR)
        args.push_back(Arg::mk_i((uint32_t)d.prec));
    args.push_back(Arg::mk_d(d.x));
}

static long double g_max_err_units = 0; // largest observed error in units of the allowance (per worker; reported via VF_MAX)

static void check_one(const FDir &d, const std::string &prefix, const std::string &suffix)
{
    if (pf::skip_after_hangs())
    {
        VF_OK("skipped: the run already recorded repeated hangs");
        return;
    }
    std::string fmt;
    std::vector<Arg> args;
    fmt_args(d, fmt, args);
    fmt = prefix + fmt + suffix;
    std::string cls = cls_text(d);
    uint64_t bits;
    memcpy(&bits, &d.x, 8);
    if (vf::verbose())
        printf("  format=\"%s\" args=[%s] cls=%s\n", vf::esc(fmt.data(), fmt.size()).c_str(), pf::args_text(args.data(), (int)args.size()).c_str(),
               cls.c_str());
    g_feat[(int)(strchr(CONVS, d.conv) - CONVS)]++;
    {
        // directive/value state coverage: (conversion, flag set, width form, precision, value class)
        bool pg = d.pk == P_LIT || d.pk == P_DOT || (d.pk == P_STAR && d.prec >= 0);
        uint64_t st = (uint64_t)(unsigned char)d.conv | ((uint64_t)d.flags << 8) | ((uint64_t)(d.wk == W_NONE ? 0 : d.width < 0 ? 2 : 1) << 16) |
                      ((uint64_t)(pg ? (d.pk == P_DOT ? 0 : d.prec) + 1 : 0) << 20);
        vf::state(vf::hash_bytes(val_class(d.x), strlen(val_class(d.x)), st));
    }
    for (int i = 0; i < 5; i++)
        if (d.flags & (1u << i))
            g_feat[8 + i]++;
    vf::cls(cls.c_str());
    pf::Result r = pf::run_igris(fmt.c_str(), args.data(), (int)args.size());
    uint64_t h = vf::hash_bytes(fmt.data(), fmt.size(), bits);
    h = vf::mix(h, ((uint64_t)(uint32_t)d.width << 32) | (uint32_t)d.prec);
    vf::count_case(h, true);
    char key[vf::KEY_LEN];
    std::string a = pf::args_text(args.data(), (int)args.size());
    std::string shown = vf::esc(r.bytes.data(), r.bytes.size(), 120);
    const char *vc = val_class(d.x);
    char lc = lower(d.conv);
    if (r.runaway)
    {
        snprintf(key, sizeof key, "runaway-output:%%%c:%s", lc, vc);
        vf::fail_nothrow(key, "format=\"%s\" args=[%s]: more than %d characters emitted; starts \"%s\"", fmt.c_str(), a.c_str(), pf::CAP_LIMIT,
                         shown.c_str());
        return;
    }
    if (r.bad_char)
    {
        snprintf(key, sizeof key, "callback-char:%%%c:%s", lc, vc);
        vf::fail_nothrow(key, "format=\"%s\" args=[%s]: callback received a value outside the char range; output \"%s\"", fmt.c_str(), a.c_str(),
                         shown.c_str());
        return;
    }
    if (r.ret != (int)r.bytes.size())
    {
        snprintf(key, sizeof key, "return:%%%c:%s", lc, vc);
        vf::fail_nothrow(key, "format=\"%s\" args=[%s]: returned %d, emitted %zu characters \"%s\"", fmt.c_str(), a.c_str(), r.ret, r.bytes.size(),
                         shown.c_str());
        return;
    }
    VF_OK("terminates with bounded output, return == characters emitted (every class of double)");
    vf::count((std::string("class seen: ") + vc).c_str());
    if (!std::isfinite(d.x))
    {
        VF_OK("non-finite argument: terminates, no sanitizer report, return == emitted");
        return;
    }
    // literal text around the directive must come through unchanged
    if (r.bytes.size() < prefix.size() + suffix.size() || r.bytes.compare(0, prefix.size(), prefix) != 0 ||
        r.bytes.compare(r.bytes.size() - suffix.size(), suffix.size(), suffix) != 0)
    {
        snprintf(key, sizeof key, "shape:%%%c:literal-text:%s", lc, vc);
        vf::fail_nothrow(key, "format=\"%s\" args=[%s]: literal text around the directive not reproduced: \"%s\"", fmt.c_str(), a.c_str(), shown.c_str());
        return;
    }
    std::string out = r.bytes.substr(prefix.size(), r.bytes.size() - prefix.size() - suffix.size());
    Parsed P;
    char why[256];
    const char *rule = check_shape(d, out, P, why);
    if (rule)
    {
        snprintf(key, sizeof key, "shape:%%%c:%s:%s", lc, rule, vc);
        char ref[512];
        {
            // the host rendering is shown in the witness for orientation only; it is not the oracle
            auto call = [&](auto... xs) { return snprintf(ref, sizeof ref, fmt.c_str(), xs...); };
            pf::dispatch(call, args.data(), (int)args.size());
        }
        vf::fail_nothrow(key, "format=\"%s\" args=[%s] igris=\"%s\": %s (host libc prints \"%s\")", fmt.c_str(), a.c_str(), shown.c_str(), why,
                         vf::esc(ref, strlen(ref), 120).c_str());
        return;
    }
    VF_OK("finite: ISO C shape of the directive (sign, padding, point, digit counts, exponent, g style)");
    // (3) parse back
    char *endp = nullptr;
    long double v = strtold(P.text.c_str(), &endp);
    if (*endp)
    {
        fprintf(stderr, "C13: harness cannot parse back \"%s\"\n", P.text.c_str());
        abort();
    }
    int unit_exp = -(int)P.fp.size();
    if (P.has_exp)
        unit_exp += (P.exp_neg ? -1 : 1) * atoi(P.ex.c_str());
    if (lc == 'g' && d.x != 0)
    {
        // %g is the P-significant-digit rendering with trailing zeros removed: the removed zeros are digits of the
        // result, so "the last printed digit" is the P-th significant one (exponent taken after rounding: the larger)
        bool pg = d.pk == P_LIT || d.pk == P_DOT || (d.pk == P_STAR && d.prec >= 0);
        int Pg = !pg ? 6 : (d.pk == P_DOT || d.prec == 0) ? 1 : d.prec;
        double ax = fabs(d.x);
        double hi = ax + 4 * (nextafter(ax, INFINITY) - ax);
        unit_exp = dec_exponent(std::isfinite(hi) ? hi : ax, Pg) - Pg + 1;
    }
    long double unit = powl(10.0L, (long double)unit_exp);
    double ax = fabs(d.x);
    long double ulp = ax == 0 ? (long double)DBL_TRUE_MIN : (long double)(nextafter(ax, INFINITY) - ax);
    if (ax == DBL_MAX)
        ulp = (long double)(ax - nextafter(ax, 0));
    long double allow = unit / 2 + 4 * ulp;
    long double err = fabsl(v - (long double)d.x);
    if (!(err <= allow))
    {
        // Two kinds of violation get different keys: a wrong digit (the error exceeds the half unit by more than
        // 64 ulp(x): wrong rounding direction, lost or garbled digit) and arithmetic noise of the digit generation
        // (more than the 4 ulp the statement concedes, but below 64 ulp).  Both are violations.
        bool noise = err <= unit / 2 + 64 * ulp;
        snprintf(key, sizeof key, "%s:%%%c:%s", noise ? "accuracy-ulps" : "accuracy", lc, vc);
        vf::fail_nothrow(key, "format=\"%s\" args=[%s] igris=\"%s\": parsed back it is off by %.3Lg = half a unit of the last digit (%.3Lg) + %.2Lf ulp; allowed: half a unit + 4 ulp (ulp = %.3Lg)",
                         fmt.c_str(), a.c_str(), shown.c_str(), err, unit / 2, (err - unit / 2) / ulp, ulp);
        return;
    }
    VF_OK("finite: text parses back within half a unit of the last printed digit + 4 ulp");
    long double rel = allow > 0 ? err / allow : 0;
    if (rel > g_max_err_units)
        g_max_err_units = rel;
}

static void flush_features()
{
    char name[64];
    for (int i = 0; i < 6; i++)
        if (g_feat[i])
        {
            snprintf(name, sizeof name, "seen conversion %%%c", CONVS[i]);
            vf::count(name, g_feat[i]);
            g_feat[i] = 0;
        }
    for (int i = 0; i < 5; i++)
        if (g_feat[8 + i])
        {
            snprintf(name, sizeof name, "seen flag '%c'", FLAGCH[i]);
            vf::count(name, g_feat[8 + i]);
            g_feat[8 + i] = 0;
        }
    VF_MAX("largest parse-back error seen, percent of the allowance", (uint64_t)(g_max_err_units * 100));
}

// ---------------------------------------------------------------- values
static double from_bits(uint64_t b)
{
    double d;
    memcpy(&d, &b, 8);
    return d;
}
// every value class is represented here, so that a defect of a class shows in every run
static const std::vector<double> &fixed_values()
{
    static std::vector<double> V;
    if (!V.empty())
        return V;
    const double base[] = {0.0, 4.9406564584124654e-324, 1e-310, 2.2250738585072009e-308, DBL_MIN, 1e-300, 1.5e-100, 1e-10, 1.2345e-7,
                           9.999999e-5, 1e-5, 0.0001, 0.00012345, 0.001, 0.05, 0.1, 0.125, 0.3, 0.5, 0.999, 0.9999995, 0.99999999999, 1.0, 1.5, 2.5,
                           3.14159265358979, 9.5, 9.9999999, 10.0, 42.25, 99.5, 100.0, 123456.0, 999999.5, 1e6, 1234567.891, 1e9, 2147483648.0,
                           4294967296.0, 1e10, 123456789012.345, 999999999999999.0, 1e15, 9007199254740992.0, 9007199254740994.0, 1e17, 1e18,
                           9223372036854775808.0, 1.8e19, 18446744073709551616.0, 1e20, 1e22, 1e23, 1e50, 1e100, 1e300, DBL_MAX};
    for (double b : base)
        V.push_back(b);
    V.push_back(INFINITY);
    V.push_back(NAN);
    return V;
}
static double random_value(vf::Rng &r)
{
    switch (r.below(10))
    {
    case 0: // any bit pattern
        return from_bits(r.next());
    case 1: // boundary-biased exponent field, random mantissa
    {
        static const int E[] = {0, 1, 2, 1022, 1023, 1024, 1075, 1076, 1086, 1087, 2045, 2046, 2047, 1000, 1013, 1019};
        uint64_t m = r.chance(1, 3) ? 0 : r.chance(1, 2) ? (1ull << 52) - 1 : r.next() & ((1ull << 52) - 1);
        return from_bits(((uint64_t)r.below(2) << 63) | ((uint64_t)E[r.below(sizeof E / sizeof E[0])] << 52) | m);
    }
    case 2: // power of ten +- 1 ulp
    {
        double p = pow(10.0, (double)r.range(-320, 308));
        int k = r.range(-1, 1);
        return k < 0 ? nextafter(p, 0) : k > 0 ? nextafter(p, INFINITY) : p;
    }
    case 3: // power of two +- 1 ulp
    {
        double p = ldexp(1.0, r.range(-1074, 1023));
        int k = r.range(-1, 1);
        return k < 0 ? nextafter(p, 0) : k > 0 ? nextafter(p, INFINITY) : p;
    }
    case 4: // exact binary ties at a decimal digit: odd multiples of 2^-j scaled by 10^-k where exact
    {
        double v = (double)(2 * r.below(2000) + 1) / (double)(1 << r.range(1, 6));
        return v * pow(10.0, (double)r.range(-3, 6));
    }
    case 5: // few decimal digits times a power of ten (nearest doubles to decimal ties and to short decimals)
    {
        char b[64];
        snprintf(b, sizeof b, "%llu%se%d", (unsigned long long)r.below(100000), r.chance(1, 2) ? "5" : "", r.range(-30, 30));
        return strtod(b, nullptr);
    }
    case 6: // integers
        return (double)(int64_t)(r.next() >> r.below(64));
    case 7: // moderate magnitudes, the everyday range
        return ((double)(r.next() >> 11) / 9007199254740992.0) * pow(10.0, (double)r.range(-6, 16));
    case 8: // all nines: rounding carries into a new digit
    {
        int n = r.range(1, 17);
        char b[64];
        int k = 0;
        for (int i = 0; i < n; i++)
            b[k++] = '9';
        snprintf(b + k, sizeof b - k, "e%d", r.range(-25, 25));
        return strtod(b, nullptr);
    }
    default: // log-uniform over the whole range
        return pow(10.0, (double)r.range(-3070, 3080) / 10.0);
    }
}

static const char *only_suite() { return getenv("C13_ONLY"); }
static bool enabled(const char *suite)
{
    const char *o = only_suite();
    return !o || !*o || strcmp(o, suite) == 0;
}

// ---------------------------------------------------------------- suite 1: smoke — one call per case, one per value class and conversion
static uint64_t smoke_count() { return enabled("smoke") ? 3 * fixed_values().size() : 0; }
static void smoke_run(uint64_t idx)
{
    const std::vector<double> &V = fixed_values();
    FDir d;
    d.conv = "feg"[idx / V.size()];
    d.x = V[idx % V.size()];
    check_one(d, "", "");
    flush_features();
}
VF_SUITE(smoke, smoke_count, smoke_run)

// ---------------------------------------------------------------- suite 2: grid — conversion x flag subset x precision, all fixed values + random ones
static const int NPREC = 19; // none, 0..17
static uint64_t grid_count() { return enabled("grid") ? 6ull * 32 * NPREC : 0; }
static void grid_run(uint64_t idx)
{
    vf::Rng r(vf::seed(), 0xC13, idx);
    int psel = (int)(idx % NPREC);
    unsigned flags = (unsigned)((idx / NPREC) % 32);
    char conv = CONVS[idx / NPREC / 32];
    const std::vector<double> &V = fixed_values();
    static const int WSEL[] = {0, 12, 30};
    int nrand = vf::thorough() ? 400 : 24;
    int nw = vf::thorough() ? 3 : 1;
    for (int wi = 0; wi < nw; wi++)
        for (size_t vi = 0; vi < V.size() + (size_t)nrand; vi++)
        {
            FDir d;
            d.conv = conv;
            d.flags = flags;
            d.order = (unsigned)r.below(120);
            d.x = vi < V.size() ? V[vi] : random_value(r);
            if (r.chance(1, 2))
                d.x = -d.x;
            int w = vf::thorough() ? WSEL[wi] : WSEL[(idx + vi) % 3];
            if (w)
            {
                int form = (int)r.below(6);
                if (form == 0)
                    d.wk = W_STAR, d.width = w;
                else if (form == 1)
                    d.wk = W_STAR, d.width = -w;
                else
                    d.wk = W_LIT, d.width = w;
            }
            if (psel > 0)
            {
                int p = psel - 1;
                int form = (int)r.below(6);
                if (form == 0)
                    d.pk = P_STAR, d.prec = p;
                else if (form == 1 && p == 0)
                    d.pk = P_DOT;
                else
                    d.pk = P_LIT, d.prec = p;
            }
            else if (r.chance(1, 8))
                d.pk = P_STAR, d.prec = -(int)r.range(1, 9); // negative precision argument: as if omitted
            d.lmod = r.chance(1, 8);
            if (r.chance(1, 10))
                check_one(d, "x=", " units\n");
            else
                check_one(d, "", "");
        }
    flush_features();
    if (vf::want_sample() && idx % 97 == 5)
    {
        FDir d;
        d.conv = conv;
        d.flags = flags;
        d.x = 3.14159265358979;
        if (psel)
            d.pk = P_LIT, d.prec = psel - 1;
        std::string f;
        std::vector<Arg> a;
        fmt_args(d, f, a);
        pf::Result rr = pf::run_igris(f.c_str(), a.data(), (int)a.size());
        vf::sample("format=\"%s\" x=3.14159265358979 -> \"%s\"", f.c_str(), vf::esc(rr.bytes.data(), rr.bytes.size()).c_str());
    }
}
VF_SUITE(grid, grid_count, grid_run)

// ---------------------------------------------------------------- suite 0: witnesses of the open accuracy finding
// The digit generation of print_f works in double arithmetic (repeated *10 and /10); its error exceeds the 4 ulp the
// statement concedes only for rare arguments.  One witness per (conversion, value class) is replayed in every run
// so that the open finding is re-observed deterministically instead of depending on the seed.
struct Witness
{
    char conv;
    int prec;
    uint64_t bits;
};
static const Witness WITNESS[] = {
    {'e', 16, 0xbf29ff3505072237ull}, // accuracy-ulps:%e:abs<1  %.16e of -0.0001983406277885778
    {'e', 16, 0x2056c7757792daa1ull}, // accuracy-ulps:%e:abs<1e-4  %.16e of 6.7957823603944425e-153
    {'e', 17, 0xc28c120ac445f994ull}, // accuracy-ulps:%e:abs<1e15  %.17e of -3857976953023.1973
    {'e', 17, 0xc13adf7dcff3a2a0ull}, // accuracy-ulps:%e:abs<1e9  %.17e of -1761149.8123113289
    {'E', 16, 0xc3df7e17207a1356ull}, // accuracy-ulps:%e:abs<2^64  %.16E of -9.0771067619831542e+18
    {'e', 16, 0x8006d8f2e8e84ec5ull}, // accuracy-ulps:%e:denormal  %.16e of -9.522560297594262e-309
    {'e', 17, 0xfa4326ad8acc377cull}, // accuracy-ulps:%e:huge  %.17e of -8.6907922420910751e+280
    {'F', 17, 0xbfdf0637ed66924dull}, // accuracy-ulps:%f:abs<1  %.17F of -0.48475454505595367
    {'f', 16, 0xc3bfd26c1d277f2bull}, // accuracy-ulps:%f:abs<2^64  %.16f of -2.2930140327575007e+18
    {'f', 16, 0xf398c95d89ffdf94ull}, // accuracy-ulps:%f:huge  %.16f of -6.9322322709896365e+248
    {'g', 16, 0xbfb8a2ded686f088ull}, // accuracy-ulps:%g:abs<1  %.16g of -0.096235206007749707
    {'g', 16, 0xa68fd22cfcd1dd1dull}, // accuracy-ulps:%g:abs<1e-4  %.16g of -6.0170773085570351e-123
    {'g', 17, 0xc3baddbf138cb2caull}, // accuracy-ulps:%g:abs<2^64  %.17g of -1.9359135055249925e+18
    {'g', 17, 0x00070193350d84daull}, // accuracy-ulps:%g:denormal  %.17g of 9.74325417157832e-309
    {'G', 15, 0x7e2e18f4a7a3db9full}, // accuracy-ulps:%g:huge  %.15G of 6.2987719210102838e+299
};
static uint64_t witness_count() { return enabled("witness") ? sizeof WITNESS / sizeof WITNESS[0] : 0; }
static void witness_run(uint64_t idx)
{
    FDir d;
    d.conv = WITNESS[idx].conv;
    d.pk = P_LIT;
    d.prec = WITNESS[idx].prec;
    d.x = from_bits(WITNESS[idx].bits);
    check_one(d, "", "");
    flush_features();
}
VF_SUITE(witness, witness_count, witness_run)

// ---------------------------------------------------------------- suite 3: stress — 15..17 significant digits over every magnitude class
// (the digit generation works in double arithmetic; this is where its accumulated error shows)
static uint64_t stress_count()
{
    const char *m = getenv("C13_STRESS_MULT"); // debugging aid: hunt for rare witnesses
    return enabled("stress") ? (vf::thorough() ? 6000 : 600) * (m ? strtoull(m, nullptr, 0) : 1) : 0;
}
static void stress_run(uint64_t idx)
{
    vf::Rng r(vf::seed(), 0xC135, idx);
    // decade ranges of the value classes: denormal, abs<1e-4, abs<1, abs<1e9, abs<1e15, abs<2^64, huge
    static const int LO[7] = {-323, -307, -4, 0, 9, 15, 20}, HI[7] = {-309, -5, -1, 8, 14, 18, 307};
    int k = (int)(idx % 7);
    char conv = "feg"[(idx / 7) % 3];
    for (int i = 0; i < 200; i++)
    {
        FDir d;
        d.conv = r.chance(1, 4) ? (char)(conv - 32) : conv;
        double m = 1.0 + ((double)(r.next() >> 11) / 9007199254740992.0) * 9.0;
        d.x = m * pow(10.0, (double)r.range(LO[k], HI[k]));
        if (!std::isfinite(d.x) || d.x == 0)
            d.x = DBL_MAX;
        if (r.chance(1, 2))
            d.x = -d.x;
        d.pk = P_LIT;
        d.prec = r.range(14, 17);
        if (r.chance(1, 4))
            d.flags = (unsigned)r.below(32);
        if (r.chance(1, 4))
            d.wk = W_LIT, d.width = 30;
        check_one(d, "", "");
    }
    flush_features();
}
VF_SUITE(stress, stress_count, stress_run)

// ---------------------------------------------------------------- suite 4: re-entrancy — the output callback formats through the engine
// (../C06/pf_nest.h) every (outer, inner) pair with at least one floating call; the inner call is injected at every
// callback invocation of the outer one (padding, sign, digits, exponent); both streams and return values must be unchanged.
static uint64_t reent_count() { return enabled("reentrant") ? pf::reentrancy_count() : 0; }
static void reent_run(uint64_t idx)
{
    if (pf::skip_after_hangs())
        return;
    pf::reentrancy_run(idx, true, 0xC13E);
}
VF_SUITE(reentrant, reent_count, reent_run)

extern "C" void vf_setup()
{
    pf::setup();
    if (only_suite() && *only_suite())
        return;
    vf::require("re-entrancy: outer and inner stream and return value unchanged by the overlap");
    for (const char *c : {"terminates with bounded output, return == characters emitted (every class of double)",
                          "non-finite argument: terminates, no sanitizer report, return == emitted",
                          "finite: ISO C shape of the directive (sign, padding, point, digit counts, exponent, g style)",
                          "finite: text parses back within half a unit of the last printed digit + 4 ulp", "class seen: nan", "class seen: inf",
                          "class seen: zero", "class seen: denormal", "class seen: abs<1e-4", "class seen: abs<1", "class seen: abs<1e9",
                          "class seen: abs<1e15", "class seen: abs<2^64", "class seen: huge"})
        vf::require(c);
    char name[64];
    for (const char *p = CONVS; *p; p++)
    {
        snprintf(name, sizeof name, "seen conversion %%%c", *p);
        vf::require(name);
    }
    for (int i = 0; i < 5; i++)
    {
        snprintf(name, sizeof name, "seen flag '%c'", FLAGCH[i]);
        vf::require(name);
    }
}
