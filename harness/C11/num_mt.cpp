// C11 (tsan unit): qsort, bsearch, strto*, atol/atoi are pure functions of their arguments (ISO C 7.1.4p5: a library
// function does not touch objects of other threads except through its arguments). 2..4 threads, released together in a
// fresh process, sort / search / parse their OWN data; every result is compared with a reference computed before.
// Hidden shared state (a static pivot or swap buffer, a static accumulator) shows as a TSan data race and/or a wrong value.
// Known and documented: qsort picks its pivot with the libc's own rand(), whose seed is one static word; that word
// cannot influence any result (pivot position only), so races inside rand.c are suppressed - see units.json.
#define VF_MAIN
#include "vf.h"
#include "mt.h"
#include <algorithm>
#include <inttypes.h>
#include <string>
#include <vector>
using std::string;
typedef unsigned char uc;
extern "C"
{
    long igc_strtol(const char *, char **, int);
    unsigned long igc_strtoul(const char *, char **, int);
    long long igc_strtoll(const char *, char **, int);
    unsigned long long igc_strtoull(const char *, char **, int);
    intmax_t igc_strtoimax(const char *, char **, int);
    uintmax_t igc_strtoumax(const char *, char **, int);
    int igc_atoi(const char *);
    long igc_atol(const char *);
    void igc_qsort(void *, size_t, size_t, int (*)(const void *, const void *));
    void *igc_bsearch(const void *, const void *, size_t, size_t, int (*)(const void *, const void *));
    const char *__tsan_default_suppressions() { return "race:rand.c\nrace:^rand$\nrace:^igc_rand$\n"; }
}
struct Text
{
    string t;
    int base;
    uint64_t v[6];
    size_t end[6];
    bool ato;
    long atolv;
};
struct Job
{
    size_t n, size;
    string arr, sorted;
    std::vector<std::pair<string, long>> probes; // key element -> expected index class (-1 absent, else any equal)
    std::vector<Text> texts;
    int order;
};
static thread_local size_t tl_size;
static int cmp_bytes(const void *a, const void *b) { return memcmp(a, b, tl_size); }

static unsigned work(const Job &j)
{
    unsigned bad = 0;
    tl_size = j.size;
    std::vector<char> buf(j.arr.size() + 1);
    for (int rep = 0; rep < 12; rep++)
        for (int k = 0; k < 3; k++)
            switch ((k + j.order) % 3)
            {
            case 0:
                memcpy(buf.data(), j.arr.data(), j.arr.size());
                igc_qsort(buf.data(), j.n, j.size, cmp_bytes);
                if (memcmp(buf.data(), j.sorted.data(), j.arr.size()) != 0)
                    bad |= 1;
                break;
            case 1:
                for (auto &p : j.probes)
                {
                    const char *r = (const char *)igc_bsearch(p.first.data(), j.sorted.data(), j.n, j.size, cmp_bytes);
                    if ((p.second < 0) != (r == nullptr) || (r && memcmp(r, p.first.data(), j.size) != 0))
                        bad |= 2;
                }
                break;
            default:
                for (auto &x : j.texts)
                {
                    char *e;
                    const char *s = x.t.c_str();
                    if ((uint64_t)igc_strtol(s, &e, x.base) != x.v[0] || (size_t)(e - s) != x.end[0]) bad |= 4;
                    if ((uint64_t)igc_strtoul(s, &e, x.base) != x.v[1] || (size_t)(e - s) != x.end[1]) bad |= 4;
                    if ((uint64_t)igc_strtoll(s, &e, x.base) != x.v[2] || (size_t)(e - s) != x.end[2]) bad |= 4;
                    if ((uint64_t)igc_strtoull(s, &e, x.base) != x.v[3] || (size_t)(e - s) != x.end[3]) bad |= 4;
                    if ((uint64_t)igc_strtoimax(s, &e, x.base) != x.v[4] || (size_t)(e - s) != x.end[4]) bad |= 4;
                    if ((uint64_t)igc_strtoumax(s, &e, x.base) != x.v[5] || (size_t)(e - s) != x.end[5]) bad |= 4;
                    if (x.ato && (igc_atol(s) != x.atolv || igc_atoi(s) != (int)x.atolv)) bad |= 8;
                }
                break;
            }
    return bad;
}

static uint64_t mt_count() { return vf::thorough() ? 3000 : 120; }
static void mt_case(uint64_t idx)
{
    vf::Rng r(vf::seed(), 0xC11F, idx);
    int nthreads = r.range(2, 4);
    std::vector<Job> jobs(nthreads);
    for (Job &j : jobs)
    {
        j.n = 4 + r.below(40);
        j.size = r.chance(1, 2) ? 1 + r.below(8) : 1 + r.below(32);
        j.arr.resize(j.n * j.size);
        for (char &c : j.arr)
            c = (char)(r.chance(1, 2) ? r.below(4) : r.next());
        std::vector<string> el;
        for (size_t i = 0; i < j.n; i++)
            el.push_back(j.arr.substr(i * j.size, j.size));
        std::sort(el.begin(), el.end(), [](const string &a, const string &b) { return memcmp(a.data(), b.data(), a.size()) < 0; });
        for (auto &e : el)
            j.sorted += e;
        for (int k = 0; k < 6; k++)
        {
            string key = k % 2 ? el[r.below(j.n)] : string(j.size, (char)r.next());
            long where = -1;
            for (size_t i = 0; i < j.n; i++)
                if (el[i] == key)
                    where = (long)i;
            j.probes.push_back({key, where});
        }
        for (int k = 0; k < 4; k++)
        {
            Text x;
            static const int B[] = {0, 0, 10, 16, 8, 2, 36, 7};
            x.base = r.pick(B);
            char b[80];
            uint64_t mag = r.next() >> r.below(64);
            int eb = x.base ? x.base : 10;
            string digits;
            if (r.chance(1, 6))
                digits = "99999999999999999999999999"; // overflow
            else
                for (uint64_t m = mag; m || digits.empty(); m /= (unsigned)eb)
                    digits.insert(digits.begin(), "0123456789abcdefghijklmnopqrstuvwxyz"[m % (unsigned)eb]);
            snprintf(b, sizeof b, "%s%s%s%s%s", r.chance(1, 3) ? " \t" : "", r.chance(1, 3) ? "-" : r.chance(1, 4) ? "+" : "", (x.base == 16 || x.base == 0) && r.chance(1, 3) ? "0x" : "", digits.c_str(), r.chance(1, 3) ? "zz!" : "");
            x.t = b;
            if ((x.base == 0 || x.base == 2) && strstr(b, "0b")) // DESIGN 3a
                x.t = "17";
            const char *s = x.t.c_str();
            char *e;
            x.v[0] = (uint64_t)strtol(s, &e, x.base), x.end[0] = (size_t)(e - s);
            x.v[1] = (uint64_t)strtoul(s, &e, x.base), x.end[1] = (size_t)(e - s);
            x.v[2] = (uint64_t)strtoll(s, &e, x.base), x.end[2] = (size_t)(e - s);
            x.v[3] = (uint64_t)strtoull(s, &e, x.base), x.end[3] = (size_t)(e - s);
            x.v[4] = (uint64_t)strtoimax(s, &e, x.base), x.end[4] = (size_t)(e - s);
            x.v[5] = (uint64_t)strtoumax(s, &e, x.base), x.end[5] = (size_t)(e - s);
            long d = strtol(s, nullptr, 10);
            x.ato = d >= INT32_MIN && d <= INT32_MAX;
            x.atolv = d;
            j.texts.push_back(x);
        }
        j.order = (int)r.below(3);
    }
    vf::cls("concurrent-own-data");
    if (vf::verbose())
        printf("  fresh process, %d threads released together; thread 0: qsort n=%zu size=%zu, 6 bsearch probes, texts %s ...\n", nthreads, jobs[0].n, jobs[0].size, jobs[0].texts[0].t.c_str());
    int mask = vf::mt_run(nthreads, [&](int tid) -> unsigned { return work(jobs[tid]); });
    if (mask == -1)
        vf::fail("concurrent:child-died", "the process running %d threads was killed by a signal", nthreads);
    if (mask == -2)
        vf::fail("concurrent:hang", "the process running %d threads exceeded its CPU limit", nthreads);
    if (mask & 1)
        vf::fail("concurrent:qsort:!=reference", "%d threads sorting their own arrays: a result differs from the reference (thread 0: n=%zu size=%zu)", nthreads, jobs[0].n, jobs[0].size);
    if (mask & 2)
        vf::fail("concurrent:bsearch:!=reference", "%d threads searching their own arrays: a result differs from the reference", nthreads);
    if (mask & 4)
        vf::fail("concurrent:strto*:!=reference", "%d threads parsing their own texts: value or end pointer differs from glibc (e.g. %s base %d)", nthreads, jobs[0].texts[0].t.c_str(), jobs[0].texts[0].base);
    if (mask & 8)
        vf::fail("concurrent:atol/atoi:!=reference", "%d threads parsing their own texts with atol/atoi: a value differs", nthreads);
    // the same jobs once more, sequentially in this process: the references themselves must hold
    for (Job &j : jobs)
        if (unsigned b = work(j))
            vf::fail("sequential:!=reference", "mask %u: the job disagrees with its reference even without concurrency", b);
    VF_OK("concurrent qsort on own arrays == reference");
    VF_OK("concurrent bsearch on own arrays == reference");
    VF_OK("concurrent strtol/strtoul/strtoll/strtoull/strtoimax/strtoumax/atol/atoi on own texts == glibc");
    vf::count_case(vf::mix(idx, vf::seed()), true);
    if (vf::want_sample())
        vf::sample("mt: %d threads, each: qsort(n=%zu,size=%zu) + 6 bsearch probes + 4 texts x 8 parsers, 12 rounds", nthreads, jobs[0].n, jobs[0].size);
}
VF_SUITE(concurrent, mt_count, mt_case)
extern "C" void vf_setup()
{
    vf::require("concurrent qsort on own arrays == reference");
    vf::require("concurrent bsearch on own arrays == reference");
    vf::require("concurrent strtol/strtoul/strtoll/strtoull/strtoimax/strtoumax/atol/atoi on own texts == glibc");
}
