// C11 — compat libc strto*/atoi/atol (vs an ISO reference written here, calibrated against host glibc
// on every text), qsort (permutation + order) and bsearch (found iff present, comparator arguments
// = (key, element inside the array)). Texts and arrays live in exactly-sized heap blocks, both placements.
#define VF_MAIN
#include "vf.h"
#include "guard.h"
#include <algorithm>
#include <csetjmp>
#include <inttypes.h>
#include <limits.h>
#include <memory>
#include <string>
#include <vector>
using std::string;
typedef unsigned char uc;
typedef unsigned __int128 u128;
// the second asan unit is built with -funsigned-char -DVF_REDUCED (ARM-like plain char) and runs a reduced workload
#ifdef VF_REDUCED
static const bool REDUCED = true;
#else
static const bool REDUCED = false;
#endif

extern "C"
{
    long igc_strtol(const char *, char **, int);
    unsigned long igc_strtoul(const char *, char **, int);
    long long igc_strtoll(const char *, char **, int);
    unsigned long long igc_strtoull(const char *, char **, int);
    intmax_t igc_strtoimax(const char *, char **, int);
    uintmax_t igc_strtoumax(const char *, char **, int);
    int igc_atoi(const char *);
    long igc_atol(const char *);
    void igc_qsort(void *, size_t, size_t, int (*)(const void *, const void *));
    void *igc_bsearch(const void *, const void *, size_t, size_t, int (*)(const void *, const void *));
    void igc_srand(unsigned);
}
static_assert(sizeof(long) == 8 && sizeof(long long) == 8 && sizeof(intmax_t) == 8, "LP64 host assumed");

// ================================================================ plumbing
static string fmt(const char *f, ...) __attribute__((format(printf, 1, 2)));
static string fmt(const char *f, ...)
{
    char b[1400];
    va_list ap;
    va_start(ap, f);
    vsnprintf(b, sizeof b, f, ap);
    va_end(ap);
    return b;
}
static string q(const string &s) { return "\"" + vf::esc(s.data(), s.size(), 100) + "\""; }
static const char *g_fn = "?", *g_class = "?";
static void CL(const char *fn, const char *c)
{
    g_fn = fn;
    g_class = c;
    char b[120];
    snprintf(b, sizeof b, "%s:%s", fn, c);
    vf::cls(b);
}
static string (*g_wf)(void *) = nullptr;
static void *g_wc = nullptr;
template <class L> struct Wit
{
    Wit(L &l)
    {
        g_wf = [](void *p) { return (*(L *)p)(); };
        g_wc = &l;
        if (vf::verbose())
            printf("  call %s   [%s:%s]\n", l().c_str(), g_fn, g_class);
    }
    ~Wit() { g_wf = nullptr; }
};
static string keyname(const char *aspect) { return string(aspect) + ":" + g_fn + ":" + g_class; }
#define FAIL(aspect, ...)                                                                              \
    do                                                                                                 \
    {                                                                                                  \
        string k_ = keyname(aspect);                                                                   \
        string d_ = fmt(__VA_ARGS__);                                                                  \
        vf::fail(k_.c_str(), "%s -> %s", g_wf ? g_wf(g_wc).c_str() : "?", d_.c_str());                 \
    } while (0)

// ================================================================ strto*: ISO C reference (7.22.1.4)
static bool c_space(char c) { return c == ' ' || c == '\t' || c == '\n' || c == '\v' || c == '\f' || c == '\r'; }
static int digit_val(char c)
{
    if (c >= '0' && c <= '9')
        return c - '0';
    if (c >= 'a' && c <= 'z')
        return c - 'a' + 10;
    if (c >= 'A' && c <= 'Z')
        return c - 'A' + 10;
    return 99;
}
struct Parsed
{
    uint64_t value;
    size_t end;    // offset of the first unconsumed character; 0 when no conversion
    bool overflow; // clamped
    bool hexprefix_nodigit;
};
static Parsed ref_strto(const char *t, int base, bool is_signed)
{
    size_t i = 0;
    while (c_space(t[i]))
        i++;
    bool neg = false;
    if (t[i] == '+' || t[i] == '-')
        neg = t[i++] == '-';
    Parsed P{0, 0, false, false};
    int b = base;
    bool x = t[i] == '0' && (t[i + 1] == 'x' || t[i + 1] == 'X');
    if ((b == 0 || b == 16) && x)
    {
        if (digit_val(t[i + 2]) < 16)
            i += 2, b = 16;
        else
            P.hexprefix_nodigit = true; // the subject sequence is just the "0"
    }
    if (b == 0)
        b = t[i] == '0' ? 8 : 10;
    u128 acc = 0;
    bool big = false;
    size_t k = i;
    for (; digit_val(t[k]) < b; k++)
    {
        acc = acc * (unsigned)b + (unsigned)digit_val(t[k]);
        if (acc > ((u128)1 << 70))
            big = true, acc = (u128)1 << 70;
    }
    if (k == i)
        return P; // no conversion: value 0, end = start of the text
    P.end = k;
    (void)big;
    if (is_signed)
    {
        u128 lim = neg ? (u128)1 << 63 : ((u128)1 << 63) - 1;
        if (acc > lim)
            P.overflow = true, P.value = neg ? (uint64_t)INT64_MIN : (uint64_t)INT64_MAX;
        else
            P.value = neg ? (uint64_t)0 - (uint64_t)acc : (uint64_t)acc;
    }
    else
    {
        if (acc > (u128)UINT64_MAX)
            P.overflow = true, P.value = UINT64_MAX;
        else
            P.value = neg ? (uint64_t)0 - (uint64_t)acc : (uint64_t)acc;
    }
    return P;
}

struct NumFn
{
    const char *name;
    bool is_signed;
    uint64_t (*igc)(const char *, char **, int);
    uint64_t (*host)(const char *, char **, int);
};
static const NumFn NUMFN[6] = {
    {"strtol", true, [](const char *s, char **e, int b) { return (uint64_t)igc_strtol(s, e, b); }, [](const char *s, char **e, int b) { return (uint64_t)strtol(s, e, b); }},
    {"strtoul", false, [](const char *s, char **e, int b) { return (uint64_t)igc_strtoul(s, e, b); }, [](const char *s, char **e, int b) { return (uint64_t)strtoul(s, e, b); }},
    {"strtoll", true, [](const char *s, char **e, int b) { return (uint64_t)igc_strtoll(s, e, b); }, [](const char *s, char **e, int b) { return (uint64_t)strtoll(s, e, b); }},
    {"strtoull", false, [](const char *s, char **e, int b) { return (uint64_t)igc_strtoull(s, e, b); }, [](const char *s, char **e, int b) { return (uint64_t)strtoull(s, e, b); }},
    {"strtoimax", true, [](const char *s, char **e, int b) { return (uint64_t)igc_strtoimax(s, e, b); }, [](const char *s, char **e, int b) { return (uint64_t)strtoimax(s, e, b); }},
    {"strtoumax", false, [](const char *s, char **e, int b) { return (uint64_t)igc_strtoumax(s, e, b); }, [](const char *s, char **e, int b) { return (uint64_t)strtoumax(s, e, b); }},
};

// DESIGN 3a: texts beginning 0b/0B are excluded for bases 0 and 2 (glibc-version dependent)
static bool excluded(const string &t, int base)
{
    if (base != 0 && base != 2)
        return false;
    size_t i = 0;
    while (c_space(t[i]))
        i++;
    if (t[i] == '+' || t[i] == '-')
        i++;
    return t[i] == '0' && (t[i + 1] == 'b' || t[i + 1] == 'B');
}

static uint64_t g_texts = 0, g_texts_nontrivial = 0;
// one text, one base: all six strto* in both placements, with and without endptr; atol/atoi when base == 10 and in their domain
static void chk_text(const string &t, int base, unsigned mis)
{
    if (excluded(t, base))
        return;
    Parsed R[2] = {ref_strto(t.c_str(), base, false), ref_strto(t.c_str(), base, true)};
    bool any_digit = R[0].end != 0;
    for (int mirror = 0; mirror < 2; mirror++)
    {
        vf::ExactStr T(t, mis, mirror);
        for (const NumFn &f : NUMFN)
        {
            const Parsed &P = R[f.is_signed];
            CL(f.name, P.hexprefix_nodigit ? "0x-without-hex-digit" : P.end == 0 ? "no-conversion" : P.overflow ? "overflow" : "in-range");
            auto W = [&] { return fmt("%s(%s, &end, base=%d) misalign=%u %s", f.name, q(t).c_str(), base, mis, mirror ? "mirrored" : "normal"); };
            Wit<decltype(W)> ws(W);
            // calibrate the reference against glibc
            char *he = nullptr;
            errno = 0;
            uint64_t hv = f.host(t.c_str(), &he, base);
            if (hv != P.value || (size_t)(he - t.c_str()) != P.end)
                FAIL("harness-oracle-disagrees-with-glibc", "reference value=%" PRIu64 " end=%zu, glibc value=%" PRIu64 " end=%zu", P.value, P.end, hv, (size_t)(he - t.c_str()));
            char *e = (char *)(uintptr_t)0x18;
            uint64_t v = f.igc(T.cc(), &e, base);
            if (v != P.value)
                FAIL("value", "returned %" PRIu64 " (0x%" PRIx64 "), ISO says %" PRIu64 " (0x%" PRIx64 ")%s", v, v, P.value, P.value, P.overflow ? " [clamped]" : "");
            if (e != T.cc() + P.end)
                FAIL("endptr", "*endptr = nptr%+ld, ISO says nptr+%zu (first unconsumed character%s)", e == (char *)(uintptr_t)0x18 ? -999999L : (long)(e - T.cc()), P.end, P.end ? "" : "; nptr itself when nothing was converted");
            uint64_t v2 = f.igc(T.cc(), nullptr, base);
            if (v2 != P.value)
                FAIL("value", "with endptr == NULL returned %" PRIu64 ", ISO says %" PRIu64, v2, P.value);
            if (P.overflow)
                VF_OK("strto*: overflow clamps to the type limit, end pointer behind all digits");
            else if (P.end == 0)
                VF_OK("strto*: no digits -> 0 and end pointer == start");
            else
                VF_OK("strto*: value and end pointer == ISO reference (in range)");
            if (P.hexprefix_nodigit)
                VF_OK("strto*: 0x without a hex digit converts the 0 only");
            static int cid[6] = {-1, -1, -1, -1, -1, -1};
            int fi = (int)(&f - NUMFN);
            if (cid[fi] < 0)
                cid[fi] = vf::clause_id(f.name);
            vf::clause_hit(cid[fi]);
        }
        if (base == 10 && !R[1].overflow)
        {
            long want = (long)R[1].value;
            CL("atol", any_digit ? "digits" : "no-digits");
            {
                auto W = [&] { return fmt("atol(%s) misalign=%u %s", q(t).c_str(), mis, mirror ? "mirrored" : "normal"); };
                Wit<decltype(W)> ws(W);
                if (atol(t.c_str()) != want)
                    FAIL("harness-oracle-disagrees-with-glibc", "reference %ld glibc %ld", want, atol(t.c_str()));
                long v = igc_atol(T.cc());
                if (v != want)
                    FAIL("value", "returned %ld, ISO says %ld", v, want);
                VF_OK("atol == (long)strtol(text, NULL, 10) for representable values");
            }
            if (want >= INT_MIN && want <= INT_MAX)
            {
                CL("atoi", any_digit ? "digits" : "no-digits");
                auto W = [&] { return fmt("atoi(%s) misalign=%u %s", q(t).c_str(), mis, mirror ? "mirrored" : "normal"); };
                Wit<decltype(W)> ws(W);
                int v = igc_atoi(T.cc());
                if (v != (int)want)
                    FAIL("value", "returned %d, ISO says %d", v, (int)want);
                VF_OK("atoi == (int)strtol(text, NULL, 10) for representable values");
            }
        }
        if (memcmp(T.p, t.c_str(), t.size() + 1) != 0)
        {
            CL("strto*", "any");
            vf::fail("source-modified:strto*", "text %s was modified", q(t).c_str());
        }
    }
    g_texts++;
    g_texts_nontrivial += any_digit;
}

static const char DIGITS[] = "0123456789abcdefghijklmnopqrstuvwxyz";
static string render(u128 v, int base, int upper /*0 lower 1 upper 2 mixed*/)
{
    string s;
    if (v == 0)
        s = "0";
    int k = 0;
    while (v)
    {
        char c = DIGITS[(int)(v % (unsigned)base)];
        if (c >= 'a' && (upper == 1 || (upper == 2 && (k++ & 1))))
            c = (char)(c - 32);
        s.insert(s.begin(), c);
        v /= (unsigned)base;
    }
    return s;
}
// base the digits have to be written in so that they are meant for `base` given this prefix
static int effective_base(int base, const string &prefix)
{
    if (base)
        return base;
    if (prefix.size() >= 2 && (prefix[1] == 'x' || prefix[1] == 'X'))
        return 16;
    if (!prefix.empty() && prefix[0] == '0')
        return 8;
    return 10;
}
static const int BASES[36] = {0, 2, 3, 4, 5, 6, 7, 8, 9, 10, 11, 12, 13, 14, 15, 16, 17, 18, 19, 20, 21, 22, 23, 24, 25, 26, 27, 28, 29, 30, 31, 32, 33, 34, 35, 36};
static std::vector<u128> boundaries(int eb)
{
    const u128 one = 1;
    std::vector<u128> v = {0, 1, (one << 31) - 1, one << 31, (one << 31) + 1, (one << 32) - 1, one << 32};
    for (u128 c : {(one << 63) - 1, one << 63, (one << 64) - 1})
        for (long d : {-(long)eb, -1L, 0L, 1L, (long)eb})
            v.push_back(d < 0 ? c - (u128)(-d) : c + (u128)d);
    v.push_back((one << 64) * (unsigned)eb - 1);
    v.push_back(((one << 63) - 1) * (unsigned)eb + (unsigned)(eb - 1));
    v.push_back(one << 65);
    v.push_back(one << 100);
    return v;
}
// digit strings (in effective base eb) of one enumeration slot
static const int N_DIGIT_SLOTS = 48;
static string digit_slot(int slot, int eb, vf::Rng &r)
{
    static const char *const LIT[] = {"", "0", "1", "7", "8", "9", "a", "A", "f", "F", "g", "z", "Z", "10", "00", "007", "1x", "x1"};
    const int NLIT = sizeof LIT / sizeof *LIT;
    if (slot < NLIT)
        return LIT[slot];
    slot -= NLIT;
    std::vector<u128> B = boundaries(eb);
    if (slot < (int)B.size())
        return render(B[slot], eb, slot % 3);
    slot -= (int)B.size();
    switch (slot)
    {
    case 0: return string(70, DIGITS[eb - 1]);                          // far beyond every type
    case 1: return string(20, '0') + render(((u128)1 << 63) - 1, eb, 1); // leading zeros do not overflow
    case 2: return string(3, '0') + render((u128)1 << 64, eb, 0);
    default:
    {
        string s;
        int n = 1 + (int)r.below(12);
        for (int i = 0; i < n; i++)
        {
            char c = DIGITS[r.below((uint64_t)eb)];
            s += (c >= 'a' && r.chance(1, 2)) ? (char)(c - 32) : c;
        }
        return s;
    }
    }
}
struct Lists
{
    std::vector<string> ws, sign, prefix, junk;
};
static const Lists &lists()
{
    static Lists L = [] {
        Lists l;
        l.ws = {"", " ", "\t\n\v\f\r "};
        l.sign = {"", "+", "-"};
        l.prefix = {"", "0", "0x", "0X"};
        l.junk = {"", " ", "g", "x", "\x80", "@"}; // '@' is replaced by the first character that is not a digit of the base
        if (vf::thorough())
        {
            for (const char *s : {"\x01", "\xa0", "  \t"})
                l.ws.push_back(s);
            for (const char *s : {"+-", "--", "-+", "- "})
                l.sign.push_back(s);
            for (const char *s : {"00", "0x0", "0x00", "x"})
                l.prefix.push_back(s);
            for (const char *s : {"z", "Z", "-", "+", "_", ".5", "0x1", "\xff", "8", "9", "G"})
                l.junk.push_back(s);
        }
        return l;
    }();
    return L;
}

// ---------------------------------------------------------------- suite: enumerated texts  ws* sign? prefix? digits junk?
static uint64_t texts_count() { return 36ull * (REDUCED ? N_DIGIT_SLOTS / 4 : N_DIGIT_SLOTS); }
static void texts_run(uint64_t idx)
{
    int base = BASES[idx % 36];
    int slot = REDUCED ? (int)(idx / 36) * 4 + (int)(idx % 4) : (int)(idx / 36);
    vf::Rng r(vf::seed(), 0xC11A, idx);
    const Lists &L = lists();
    g_texts = g_texts_nontrivial = 0;
    for (const string &pre : L.prefix)
    {
        int eb = effective_base(base, pre);
        string dg = digit_slot(slot, eb, r);
        for (const string &ws : L.ws)
            for (const string &sg : L.sign)
                for (const string &jk0 : L.junk)
                {
                    string jk = jk0 == "@" ? (eb < 36 ? string(1, eb < 10 ? (char)('0' + eb) : (char)('a' + eb - 10)) : string("{")) : jk0;
                    chk_text(ws + sg + pre + dg + jk, base, (unsigned)((ws.size() + jk.size() + dg.size()) % 8));
                }
    }
    vf::count_bulk(g_texts, g_texts_nontrivial);
    if (vf::want_sample() && base == 16 && slot == 25)
        vf::sample("texts: base=16 digits=%s x %zu ws x %zu signs x %zu prefixes x %zu junk tails, six strto* each, both placements", digit_slot(slot, 16, r).c_str(), L.ws.size(), L.sign.size(), L.prefix.size(), L.junk.size());
}
VF_SUITE(texts, texts_count, texts_run)

// ---------------------------------------------------------------- suite: literal corner texts under every base
static uint64_t literal_count() { return 36; }
static void literal_run(uint64_t idx)
{
    int base = BASES[idx];
    static const char *const LIT[] = {"", " ", "-", "+", "0x", "0X", "0xg", "0xG", "-0x", "+0x", " 0x", "0x ", "0x-1", "0x+1", "0xx1", "0x0x1", "08", "09", "018", "0 ", "00x1", "- 1", "+ 1", "-+1", "1e5",
                                      "1.5", "١", "\xff" "1", "1\xff", "9223372036854775807", "9223372036854775808", "-9223372036854775808", "-9223372036854775809", "18446744073709551615",
                                      "18446744073709551616", "-18446744073709551615", "-18446744073709551616", "-1", "-0", "+0", "2147483647", "2147483648", "-2147483648", "-2147483649", "0x7fffffffffffffff",
                                      "0x8000000000000000", "-0x8000000000000000", "-0x8000000000000001", "0xffffffffffffffff", "0x10000000000000000", "0777777777777777777777", "01000000000000000000000",
                                      "01777777777777777777777", "02000000000000000000000", "zz", "ZZ", "Zz9", "\t\n\v\f\r 42", "\x0b" "7", "\x1c" "7", "\x85" "7", "7\x00" "8"};
    g_texts = g_texts_nontrivial = 0;
    for (const char *t : LIT)
        for (unsigned mis : {0u, 3u})
            chk_text(t, base, mis);
    vf::count_bulk(g_texts, g_texts_nontrivial);
    if (idx == 0)
        vf::sample("literals: \"\", \"-\", \"0x\", \"0xg\", \"08\", type limits and limits+-1 ... under base 0 and every base 2..36");
}
VF_SUITE(literals, literal_count, literal_run)

// ---------------------------------------------------------------- suite: seeded random compositions
static uint64_t rtexts_count() { return REDUCED ? 400 : vf::thorough() ? 60000 : 1500; }
static void rtexts_run(uint64_t idx)
{
    vf::Rng r(vf::seed(), 0xC11B, idx);
    static const char *const WS[] = {"", "", " ", "  ", "\t", "\n", "\v\f\r", " \t \n", "\x01", "\xa0", "\x85", "_"};
    static const char *const SG[] = {"", "", "", "+", "-", "-", "+-", "--", "-+", "- ", "+ "};
    static const char *const PRE[] = {"", "", "", "0", "0x", "0X", "00", "0x0", "x", "0x00"};
    static const char *const JK[] = {"", "", " ", "g", "z", "Z", "x", "X", "\x80", "\xff", "-", "+", "_", ".5", "0x1", "8", "9", "a", "/", ":", "@", "[", "`", "{"};
    for (int it = 0; it < 30; it++)
    {
        static const int FAV[4] = {0, 8, 9, 15}; // indices into BASES: base 0, 9, 10, 16
        int base = BASES[r.chance(1, 3) ? FAV[r.below(4)] : (int)r.below(36)];
        string pre = r.pick(PRE);
        int eb = effective_base(base, pre);
        string dg;
        switch (r.below(4))
        {
        case 0:
        {
            std::vector<u128> B = boundaries(eb);
            dg = string(r.below(3), '0') + render(B[r.below(B.size())], eb, (int)r.below(3));
            break;
        }
        case 1:
        {
            // random value of random magnitude
            u128 v = ((u128)r.next() << 64 | r.next()) >> r.below(128);
            dg = render(v, eb, (int)r.below(3));
            break;
        }
        default: dg = digit_slot(1000, eb, r); break;
        }
        string t = string(r.pick(WS)) + r.pick(SG) + pre + dg + r.pick(JK);
        if (r.chance(1, 12))
            t += digit_slot(1000, 36, r);
        g_texts = g_texts_nontrivial = 0;
        chk_text(t, base, (unsigned)r.below(8));
        if (g_texts)
            vf::count_case(vf::hash_bytes(t.data(), t.size(), (uint64_t)base), g_texts_nontrivial != 0);
        if (vf::want_sample() && it == 3)
            vf::sample("random text: %s base=%d", q(t).c_str(), base);
    }
}
VF_SUITE(random_texts, rtexts_count, rtexts_run)

// ================================================================ qsort / bsearch
// array in one of three shapes (exact, mirrored exact, region with guards)
struct Arr
{
    int mode;
    size_t bytes;
    unsigned mis;
    vf::Exact e;
    std::unique_ptr<vf::Region> r;
    uc *p;
    Arr(int mode_, const string &content, unsigned mis_) : mode(mode_), bytes(content.size()), mis(mis_)
    {
        if (mode == 2)
        {
            r.reset(new vf::Region(bytes, 16 + mis, 16));
            p = r->win();
            if (bytes)
                memcpy(p, content.data(), bytes);
        }
        else
        {
            e.init(content.data(), bytes, mis, mode == 1);
            p = e.p;
        }
    }
    long outside_dirty() const
    {
        if (mode == 2)
        {
            long o = r->verify(0, bytes);
            return o == vf::Region::LONG_MIN_SENTINEL ? 0x7fffffff : o;
        }
        size_t total = bytes + mis ? bytes + mis : 8;
        if (mode == 0)
        {
            for (uc *x = e.base; x < e.p; x++)
                if (*x != 0xA5)
                    return (long)(x - e.p);
        }
        else
            for (uc *x = e.p + bytes; x < e.base + total; x++)
                if (*x != 0xA5)
                    return (long)(x - e.p);
        return 0x7fffffff;
    }
};
static const char *const MODE[3] = {"exact", "exact-mirrored", "region"};

// comparator kinds: all are consistent weak orders over whole elements
enum
{
    ORD_KEY_ASC, // first byte ascending (payload ignored: many equivalent elements)
    ORD_KEY_DESC,
    ORD_BYTES,   // memcmp over the whole element: total order
    ORD_MOD3,    // first byte modulo 3: very coarse weak order
    ORD_COUNT
};
static int order(int kind, const uc *a, const uc *b, size_t size)
{
    switch (kind)
    {
    case ORD_KEY_ASC: return (int)a[0] - (int)b[0];
    case ORD_KEY_DESC: return (int)b[0] - (int)a[0];
    case ORD_BYTES: return memcmp(a, b, size);
    default: return (int)(a[0] % 3) - (int)(b[0] % 3);
    }
}
struct CmpCtx
{
    int kind;
    size_t size;
    uint64_t calls, limit;
    jmp_buf jb;
    // bsearch only
    const uc *key, *base;
    size_t ksize, n;
    int bad_outside, bad_order, bad_nokey;
};
static CmpCtx C;
static volatile unsigned g_sink;
static int cmp_sort(const void *a, const void *b)
{
    if (++C.calls > C.limit)
        longjmp(C.jb, 1);
    // touch every byte of both elements: ASan validates what qsort hands to the comparator
    unsigned s = 0;
    for (size_t i = 0; i < C.size; i++)
        s += ((const uc *)a)[i] ^ ((const uc *)b)[i];
    g_sink = s;
    return order(C.kind, (const uc *)a, (const uc *)b, C.size);
}
static bool __attribute__((noinline)) guarded_qsort(void *base, size_t n, size_t size)
{
    if (setjmp(C.jb))
        return false;
    igc_qsort(base, n, size, cmp_sort);
    return true;
}
static std::vector<string> elements(const uc *p, size_t n, size_t size)
{
    std::vector<string> v;
    for (size_t i = 0; i < n; i++)
        v.emplace_back((const char *)p + i * size, size);
    return v;
}
static string show(const std::vector<string> &v, size_t maxn = 24)
{
    string s;
    for (size_t i = 0; i < v.size() && i < maxn; i++)
        s += vf::hex(v[i].data(), v[i].size(), 6) + " ";
    if (v.size() > maxn)
        s += "...";
    return s;
}
static const char *ncls(size_t n) { return n == 0 ? "n=0" : n == 1 ? "n=1" : n == 2 ? "n=2" : n == 3 ? "n=3" : "n>=4"; }

static void chk_qsort(const string &content, size_t n, size_t size, int kind, unsigned mis, unsigned rseed)
{
    CL("qsort", ncls(n));
    std::vector<string> before = elements((const uc *)content.data(), n, size);
    std::vector<string> sorted_before = before;
    std::sort(sorted_before.begin(), sorted_before.end());
    for (int mode = 0; mode < 3; mode++)
    {
        auto W = [&] { return fmt("qsort(n=%zu, size=%zu, order=%d) srand=%u elements(hex, first 6 bytes)=[%s] misalign=%u placement=%s", n, size, kind, rseed, show(before).c_str(), mis, MODE[mode]); };
        Wit<decltype(W)> ws(W);
        Arr A(mode, content, mis);
        C.kind = kind, C.size = size, C.calls = 0, C.limit = 4 * n * n + 64;
        igc_srand(rseed); // the pivot choice uses the libc's own rand(): state is reset per call
        if (!guarded_qsort(A.p, n, size))
            FAIL("runaway", "more than 4n^2+64 = %" PRIu64 " comparator calls: qsort does not terminate on this input", C.limit);
        std::vector<string> after = elements(A.p, n, size);
        for (size_t i = 0; i + 1 < n; i++)
            if (order(kind, (const uc *)after[i].data(), (const uc *)after[i + 1].data(), size) > 0)
                FAIL("order", "elements %zu and %zu are out of order after the call: [%s]", i, i + 1, show(after).c_str());
        std::vector<string> sorted_after = after;
        std::sort(sorted_after.begin(), sorted_after.end());
        if (sorted_after != sorted_before)
            FAIL("permutation", "result is not a permutation of the input (whole elements as a multiset): [%s]", show(after).c_str());
        long o = A.outside_dirty();
        if (o != 0x7fffffff)
            FAIL("outside", "%s byte at base%+ld (array is base[0,%zu)) was modified", MODE[mode], o, n * size);
        VF_MAX("qsort: comparator calls (max)", C.calls);
    }
    VF_OK("qsort: result ordered by the comparator");
    VF_OK("qsort: result is a permutation of the input (multiset of whole elements)");
    vf::count(fmt("qsort %s", ncls(n)).c_str());
}

static int cmp_bs(const void *k, const void *e)
{
    if (++C.calls > C.limit)
        longjmp(C.jb, 1);
    auto in_array = [](const void *p) {
        const uc *x = (const uc *)p;
        return x >= C.base && x < C.base + C.n * C.size && (size_t)(x - C.base) % C.size == 0;
    };
    const uc *a = (const uc *)k, *b = (const uc *)e;
    bool a_key = a == C.key, b_key = b == C.key;
    // every argument is either the key object or an element inside the array
    if ((!a_key && !in_array(a)) || (!b_key && !in_array(b)))
    {
        C.bad_outside++;
        return 0; // not dereferenced
    }
    if (!a_key && !b_key)
        C.bad_nokey++;
    else if (!a_key || b_key)
        C.bad_order++; // ISO: (key, element) in that order
    // read every byte of the objects that were handed over (ASan validates them)
    unsigned s = 0;
    for (size_t i = 0; i < (a_key ? C.ksize : C.size); i++)
        s += a[i];
    for (size_t i = 0; i < (b_key ? C.ksize : C.size); i++)
        s += b[i];
    g_sink = s;
    return (int)a[0] - (int)b[0];
}
static bool __attribute__((noinline)) guarded_bsearch(void **res, const void *key, const void *base, size_t n, size_t size)
{
    if (setjmp(C.jb))
        return false;
    *res = igc_bsearch(key, base, n, size, cmp_bs);
    return true;
}
// array sorted ascending by its first byte; the key object is its own exact block of ksize bytes
// (ksize == size: same type as the elements; ksize == 1: a bare key, as ISO allows)
static void chk_bsearch(const string &content, size_t n, size_t size, uc keybyte, size_t ksize, unsigned mis, bool mirror)
{
    bool present = false;
    for (size_t i = 0; i < n; i++)
        present |= (uc)content[i * size] == keybyte;
    CL("bsearch", n == 0 ? "empty-array" : present ? "present" : "absent");
    std::vector<string> els = elements((const uc *)content.data(), n, size);
    auto W = [&] { return fmt("bsearch(key=0x%02x (object of %zu bytes), n=%zu, size=%zu) first bytes=[%s] misalign=%u %s", keybyte, ksize, n, size, [&] { string s; for (size_t i = 0; i < n && i < 48; i++) s += fmt("%02x ", (uc)content[i * size]); return s; }().c_str(), mis, mirror ? "mirrored" : "normal"); };
    Wit<decltype(W)> ws(W);
    string kobj(ksize, (char)0xEE);
    kobj[0] = (char)keybyte;
    vf::Exact K(kobj.data(), ksize, (unsigned)(ksize % 5), mirror);
    vf::Exact A(content.data(), content.size(), mis, mirror);
    C.kind = ORD_KEY_ASC, C.size = size, C.calls = 0, C.limit = 64 + 4 * n;
    C.key = K.p, C.ksize = ksize, C.base = A.p, C.n = n;
    C.bad_outside = C.bad_order = C.bad_nokey = 0;
    void *res = nullptr;
    if (!guarded_bsearch(&res, K.p, A.p, n, size))
        FAIL("runaway", "more than 4n+64 comparator calls: bsearch does not terminate");
    if (C.bad_outside)
        FAIL("comparator-argument-outside-array", "%d comparator call(s) received a pointer that is neither the key nor an element of base[0,%zu): the comparator would dereference outside the array", C.bad_outside, n);
    if (C.bad_nokey)
        FAIL("comparator-without-key", "%d comparator call(s) did not involve the key object", C.bad_nokey);
    if (C.bad_order && (CL("bsearch", "any"), true))
        FAIL("comparator-argument-order", "%d comparator call(s) were made as (element, key); ISO C 7.22.5.1 prescribes (key, element) - a comparator for a key of another type reads the wrong objects", C.bad_order);
    VF_OK("bsearch: every comparator call is (key, element inside the array)");
    const uc *rp = (const uc *)res;
    if (!present && rp)
        FAIL("result", "returned base+%ld although no element compares equal", (long)(rp - A.p));
    if (present)
    {
        if (!rp)
            FAIL("result", "returned NULL although an equal element exists");
        if (rp < A.p || rp >= A.p + n * size || (size_t)(rp - A.p) % size)
            FAIL("result", "returned base%+ld which is not an element of the array", (long)(rp - A.p));
        if (rp[0] != keybyte)
            FAIL("result", "returned element %zu with key 0x%02x, which does not compare equal", (size_t)(rp - A.p) / size, rp[0]);
    }
    if (memcmp(A.p, content.data(), content.size()) != 0)
        FAIL("source-modified", "the array was modified");
    if (n == 0)
        VF_OK("bsearch: empty array -> NULL, nothing dereferenced");
    else if (present)
        VF_OK("bsearch: key present -> an element comparing equal");
    else
        VF_OK("bsearch: key absent -> NULL");
    VF_MAX("bsearch: comparator calls (max)", C.calls);
}

// element i of an array: byte 0 = key, the rest = unique payload derived from (i, salt)
static string make_array(const std::vector<uc> &keys, size_t size, uint64_t salt)
{
    string c(keys.size() * size, '\0');
    for (size_t i = 0; i < keys.size(); i++)
    {
        c[i * size] = (char)keys[i];
        uint64_t x = vf::mix(salt, i);
        for (size_t k = 1; k < size; k++)
            c[i * size + k] = k <= 2 ? (char)(i >> (8 * (k - 1))) : (char)(x >> (8 * (k % 8)));
    }
    return c;
}
static std::vector<uc> gen_keys(vf::Rng &r, size_t n)
{
    std::vector<uc> k(n);
    int shape = (int)r.below(8);
    int universe = 1 + (int)r.below(5); // 1..5 distinct values: duplicate-rich
    for (size_t i = 0; i < n; i++)
        switch (shape)
        {
        case 0:
        case 1:
        case 2: k[i] = (uc)(10 + 40 * r.below((uint64_t)universe)); break;
        case 3: k[i] = (uc)r.next(); break;
        case 4: k[i] = (uc)(i * 255 / (n ? n : 1)); break;                  // already sorted
        case 5: k[i] = (uc)(255 - i * 255 / (n ? n : 1)); break;            // reversed
        case 6: k[i] = (uc)(i < n / 2 ? i * 2 : (n - i) * 2); break;        // organ pipe
        default: k[i] = (uc)(i % 2 ? 200 : 3); break;                       // alternating
        }
    return k;
}
static size_t sort_maxn() { return REDUCED ? 24 : vf::thorough() ? 300 : 40; }

// ---------------------------------------------------------------- suite: all key sequences of length <= 5 over 3 values (every tiny permutation incl. the 2/3-element networks)
static uint64_t smallsort_count() { return REDUCED ? 1 + 3 + 9 + 27 + 81 : 1 + 3 + 9 + 27 + 81 + 243; }
static void smallsort_run(uint64_t idx)
{
    size_t n = 0;
    uint64_t p = 1, i = idx;
    while (i >= p)
        i -= p, p *= 3, n++;
    std::vector<uc> keys(n);
    for (size_t k = 0; k < n; k++, i /= 3)
        keys[k] = (uc)(20 + 100 * (i % 3));
    uint64_t ev = 0;
    for (size_t size : {(size_t)1, (size_t)2, (size_t)3, (size_t)8, (size_t)9, (size_t)32})
        for (int kind = 0; kind < ORD_COUNT; kind++)
            for (unsigned rs = 0; rs < (n >= 4 ? 4u : 1u); rs++)
            {
                chk_qsort(make_array(keys, size, idx), n, size, kind, (unsigned)((idx + size) % 8), rs * 7919 + (unsigned)idx);
                ev++;
            }
    vf::count_bulk(ev, n >= 2 ? ev : 0);
}
VF_SUITE(small_sorts, smallsort_count, smallsort_run)

// ---------------------------------------------------------------- suite: seeded random sorts, every length x element size
static uint64_t sorts_count() { return (sort_maxn() + 1) * (REDUCED ? 4 : vf::thorough() ? 64 : 32); }
static void sorts_run(uint64_t idx)
{
    vf::Rng r(vf::seed(), 0xC11C, idx);
    size_t n = idx % (sort_maxn() + 1);
    int reps = vf::thorough() ? 10 : 12;
    for (int it = 0; it < reps; it++)
    {
        size_t size = (idx / (sort_maxn() + 1) + (size_t)it * 5) % 32 + 1;
        std::vector<uc> keys = gen_keys(r, n);
        string content = make_array(keys, size, r.next());
        int kind = (int)r.below(ORD_COUNT);
        unsigned rs = (unsigned)r.next();
        chk_qsort(content, n, size, kind, (unsigned)r.below(8), rs);
        vf::count_case(vf::hash_bytes(content.data(), content.size(), vf::mix(size, (uint64_t)kind << 32 | rs)), n >= 2);
        if (vf::want_sample() && n == 17 && it == 0)
            vf::sample("random sort: n=%zu size=%zu order=%d keys=%s", n, size, kind, vf::hex(keys.data(), keys.size(), 40).c_str());
    }
}
VF_SUITE(random_sorts, sorts_count, sorts_run)

// ---------------------------------------------------------------- suite: bsearch, every key present / absent / below / above, every length
static uint64_t bs_count() { return (sort_maxn() + 1) * (REDUCED ? 2 : 4); }
static void bs_run(uint64_t idx)
{
    vf::Rng r(vf::seed(), 0xC11D, idx);
    size_t n = idx % (sort_maxn() + 1);
    int variant = (int)(idx / (sort_maxn() + 1));
    // sorted keys from even values; duplicates in variants 1 and 3
    std::vector<uc> keys(n);
    for (size_t i = 0; i < n; i++)
        keys[i] = (uc)(2 + 2 * ((variant & 1) ? r.below(n < 100 ? n / 2 + 1 : 50) : (i % 120)));
    std::sort(keys.begin(), keys.end());
    uint64_t ev = 0;
    for (size_t size : {(size_t)1, (size_t)(2 + r.below(6)), (size_t)(8 + r.below(25))})
    {
        string content = make_array(keys, size, idx);
        std::vector<int> probes = {0, 1, 255, 254};
        for (size_t i = 0; i < n; i++)
        {
            probes.push_back(keys[i]);     // present
            probes.push_back(keys[i] + 1); // absent, between / above
        }
        if (n > 24) // sample the probes of long arrays (first, last and a random subset are kept)
        {
            std::vector<int> p2(probes.begin(), probes.begin() + 8);
            p2.insert(p2.end(), probes.end() - 4, probes.end());
            for (int k = 0; k < 24; k++)
                p2.push_back(probes[r.below(probes.size())]);
            probes.swap(p2);
        }
        for (int kb : probes)
            for (size_t ksize : {size, (size_t)1})
            {
                if (ksize == 1 && size == 1 && (variant & 2))
                    continue;
                chk_bsearch(content, n, size, (uc)kb, ksize, (unsigned)r.below(8), (variant & 2) != 0);
                ev++;
            }
    }
    vf::count_bulk(ev, n ? ev : 0);
    if (vf::want_sample() && n == 9 && variant == 1)
        vf::sample("bsearch: n=9 keys=%s, every key and every key+1, 0, 1, 254, 255, key objects of element size and of 1 byte", vf::hex(keys.data(), keys.size()).c_str());
}
VF_SUITE(bsearch_all, bs_count, bs_run)

// ---------------------------------------------------------------- suite: re-entrancy. The comparator itself calls qsort,
// bsearch and strtol of the same libc (records ordered by the median of a sub-array, as user code does): every activation
// must be independent of the ones it is nested in. All inner and outer results are compared with references computed before.
struct Nest
{
    std::vector<string> sub, sub_sorted; // per record id: raw sub-array / the same sorted (elements of isz[id] bytes)
    std::vector<size_t> isz;
    std::vector<uc> med;                  // first byte of the median element
    string table;                         // sorted distinct medians (searched with bsearch from inside the comparator)
    std::vector<string> text;
    std::vector<long> val;
    size_t cur_isz;
    int bad_inner, bad_bs, bad_num, bad_id;
    uint64_t calls, limit;
    jmp_buf jb;
};
static Nest N;
static int cmp_inner(const void *a, const void *b) { return memcmp(a, b, N.cur_isz); }
static int cmp_one(const void *a, const void *b) { return (int)*(const uc *)a - (int)*(const uc *)b; }
static int nested_key(const uc *rec)
{
    uc id = rec[0];
    if (id >= N.sub.size())
    {
        N.bad_id++; // the comparator was handed bytes that are not one of the records
        return 0;
    }
    char scratch[64];
    size_t isz = N.isz[id], len = N.sub[id].size() / isz;
    memcpy(scratch, N.sub[id].data(), N.sub[id].size());
    N.cur_isz = isz;
    igc_qsort(scratch, len, isz, cmp_inner);
    if (memcmp(scratch, N.sub_sorted[id].data(), N.sub[id].size()) != 0)
        N.bad_inner++;
    uc m = (uc)scratch[(len / 2) * isz];
    const void *f = igc_bsearch(&m, N.table.data(), N.table.size(), 1, cmp_one);
    uc absent = (uc)(m | 1); // medians are even, odd values are never in the table
    if (!f || *(const uc *)f != m || igc_bsearch(&absent, N.table.data(), N.table.size(), 1, cmp_one))
        N.bad_bs++;
    char *e = nullptr;
    long v = igc_strtol(N.text[id].c_str(), &e, 0);
    if (v != N.val[id] || e != N.text[id].c_str() + N.text[id].size())
        N.bad_num++;
    return m;
}
static int cmp_nested(const void *a, const void *b)
{
    if (++N.calls > N.limit)
        longjmp(N.jb, 1);
    return nested_key((const uc *)a) - nested_key((const uc *)b);
}
static bool __attribute__((noinline)) guarded_nested_qsort(void *base, size_t n, size_t size)
{
    if (setjmp(N.jb))
        return false;
    igc_qsort(base, n, size, cmp_nested);
    return true;
}
static bool __attribute__((noinline)) guarded_nested_bsearch(void **res, const void *key, const void *base, size_t n, size_t size)
{
    if (setjmp(N.jb))
        return false;
    *res = igc_bsearch(key, base, n, size, cmp_nested);
    return true;
}
static uint64_t nested_count() { return REDUCED ? 60 : vf::thorough() ? 6000 : 400; }
static void nested_run(uint64_t idx)
{
    vf::Rng r(vf::seed(), 0xC11E, idx);
    size_t n = idx % 29, rsize = 1 + r.below(r.chance(1, 2) ? 16 : 64);
    // records: byte 0 = id (unique), rest payload
    N.sub.assign(n, ""), N.sub_sorted.assign(n, ""), N.isz.assign(n, 1), N.med.assign(n, 0), N.text.assign(n, ""), N.val.assign(n, 0);
    int universe = 1 + (int)r.below(6);
    std::vector<uc> meds;
    for (size_t id = 0; id < n; id++)
    {
        size_t isz = 1 + r.below(4), len = 4 + r.below(9); // >= 4 elements: the inner sort takes the pivot path too
        N.isz[id] = isz;
        string raw(len * isz, '\0');
        uc want = (uc)(2 * (1 + r.below((uint64_t)universe * 7) % 100)); // even median, duplicate-rich across records
        for (size_t k = 0; k < len; k++)
        {
            raw[k * isz] = (char)(k < len / 2 ? r.below(want) : k == len / 2 ? want : want + r.below(256 - want));
            for (size_t j = 1; j < isz; j++)
                raw[k * isz + j] = (char)r.next();
        }
        // shuffle the elements
        for (size_t k = len; k > 1; k--)
        {
            size_t o = r.below(k);
            for (size_t j = 0; j < isz; j++)
                std::swap(raw[(k - 1) * isz + j], raw[o * isz + j]);
        }
        std::vector<string> el;
        for (size_t k = 0; k < len; k++)
            el.push_back(raw.substr(k * isz, isz));
        std::sort(el.begin(), el.end(), [](const string &x, const string &y) { return memcmp(x.data(), y.data(), x.size()) < 0; });
        string so;
        for (auto &x : el)
            so += x;
        N.sub[id] = raw, N.sub_sorted[id] = so;
        N.med[id] = (uc)so[(len / 2) * isz];
        meds.push_back(N.med[id]);
        long v = (long)(r.next() >> r.below(64)) * (r.chance(1, 2) ? -1 : 1);
        char b[40];
        unsigned long mag = v < 0 ? 0ul - (unsigned long)v : (unsigned long)v;
        if (r.chance(1, 2))
            snprintf(b, sizeof b, "%s0x%lx", v < 0 ? "-" : "", mag);
        else
            snprintf(b, sizeof b, "%ld", v);
        N.text[id] = b;
        N.val[id] = strtol(b, nullptr, 0);
    }
    std::sort(meds.begin(), meds.end());
    meds.erase(std::unique(meds.begin(), meds.end()), meds.end());
    N.table.assign(meds.begin(), meds.end());
    string content(n * rsize, '\0');
    for (size_t i = 0; i < n; i++)
    {
        content[i * rsize] = (char)i;
        for (size_t k = 1; k < rsize; k++)
            content[i * rsize + k] = (char)(0x40 + i + k);
    }
    // shuffle the records
    for (size_t k = n; k > 1; k--)
    {
        size_t o = r.below(k);
        for (size_t j = 0; j < rsize; j++)
            std::swap(content[(k - 1) * rsize + j], content[o * rsize + j]);
    }
    CL("qsort", n < 4 ? "nested-comparator-n<4" : "nested-comparator");
    std::vector<string> before = elements((const uc *)content.data(), n, rsize), sb = before;
    std::sort(sb.begin(), sb.end());
    string sorted_content;
    for (int mirror = 0; mirror < 2; mirror++)
    {
        auto W = [&] { return fmt("qsort(n=%zu, size=%zu) with a comparator that sorts a sub-array with qsort, looks its median up with bsearch and parses a number with strtol; medians by record id=[%s] %s", n, rsize, vf::hex(N.med.data(), N.med.size(), 40).c_str(), mirror ? "mirrored" : "normal"); };
        Wit<decltype(W)> ws(W);
        Arr A(mirror, content, (unsigned)(idx % 8));
        N.bad_inner = N.bad_bs = N.bad_num = N.bad_id = 0, N.calls = 0, N.limit = 4 * n * n + 64;
        igc_srand((unsigned)idx);
        if (!guarded_nested_qsort(A.p, n, rsize))
            FAIL("runaway", "more than 4n^2+64 comparator calls: the outer qsort does not terminate when its comparator sorts");
        if (N.bad_id)
            FAIL("comparator-argument-corrupted", "%d comparator argument(s) did not hold one of the records (the pivot copy was overwritten while the comparator ran?)", N.bad_id);
        if (N.bad_inner || N.bad_bs || N.bad_num)
            FAIL("inner-result", "inside the comparator: %d inner qsort result(s), %d bsearch result(s), %d strtol result(s) differ from their references", N.bad_inner, N.bad_bs, N.bad_num);
        std::vector<string> after = elements(A.p, n, rsize), sa = after;
        std::sort(sa.begin(), sa.end());
        if (sa != sb)
            FAIL("permutation", "outer result is not a permutation of the records: ids now [%s]", [&] { string x; for (auto &e : after) x += fmt("%02x ", (uc)e[0]); return x; }().c_str());
        for (size_t i = 0; i + 1 < n; i++)
            if (N.med[(uc)after[i][0]] > N.med[(uc)after[i + 1][0]])
                FAIL("order", "records %zu and %zu are out of order by their (precomputed) medians 0x%02x > 0x%02x", i, i + 1, N.med[(uc)after[i][0]], N.med[(uc)after[i + 1][0]]);
        long o = A.outside_dirty();
        if (o != 0x7fffffff)
            FAIL("outside", "byte at base%+ld was modified", o);
        sorted_content.assign((const char *)A.p, n * rsize);
    }
    VF_OK("qsort: comparator that itself calls qsort/bsearch/strtol -> ordered permutation, inner results == references");
    // bsearch over the records sorted by median, the comparator again sorts/searches/parses
    CL("bsearch", "nested-comparator");
    for (size_t probe = 0; probe < n + 1 && probe < 6; probe++)
    {
        // key record: an existing id (present) or a synthetic record whose median is absent
        size_t kid = probe < n ? r.below(n) : 0;
        if (!n)
            break;
        auto W = [&] { return fmt("bsearch(key record id=%zu median=0x%02x, n=%zu, size=%zu) with the nested comparator", kid, N.med[kid], n, rsize); };
        Wit<decltype(W)> ws(W);
        string krec(rsize, (char)0x77);
        krec[0] = (char)kid;
        vf::Exact K(krec.data(), rsize, 0, false), A(sorted_content.data(), sorted_content.size(), (unsigned)(idx % 8), probe & 1);
        N.bad_inner = N.bad_bs = N.bad_num = N.bad_id = 0, N.calls = 0, N.limit = 4 * n + 64;
        void *res = nullptr;
        if (!guarded_nested_bsearch(&res, K.p, A.p, n, rsize))
            FAIL("runaway", "more than 4n+64 comparator calls");
        if (N.bad_inner || N.bad_bs || N.bad_num)
            FAIL("inner-result", "inside the comparator: %d inner qsort, %d bsearch, %d strtol result(s) differ from their references", N.bad_inner, N.bad_bs, N.bad_num);
        const uc *rp = (const uc *)res;
        if (!rp || rp < A.p || rp >= A.p + n * rsize || (size_t)(rp - A.p) % rsize || N.med[rp[0]] != N.med[kid])
            FAIL("result", "returned %s, a record with median 0x%02x exists", rp ? "a wrong element" : "NULL", N.med[kid]);
        VF_OK("bsearch: comparator that itself calls qsort/bsearch/strtol -> an element comparing equal");
    }
    vf::count_case(vf::hash_bytes(content.data(), content.size(), vf::mix(rsize, idx)), n >= 2);
    if (vf::want_sample() && n == 11)
        vf::sample("nested: %zu records of %zu bytes ordered by the median of their sub-arrays (inner qsort + bsearch + strtol inside the comparator)", n, rsize);
}
VF_SUITE(nested, nested_count, nested_run)

extern "C" void vf_setup()
{
    for (const char *c : {
             "strto*: value and end pointer == ISO reference (in range)",
             "strto*: overflow clamps to the type limit, end pointer behind all digits",
             "strto*: no digits -> 0 and end pointer == start",
             "strto*: 0x without a hex digit converts the 0 only",
             "strtol", "strtoul", "strtoll", "strtoull", "strtoimax", "strtoumax",
             "atol == (long)strtol(text, NULL, 10) for representable values",
             "atoi == (int)strtol(text, NULL, 10) for representable values",
             "qsort: result ordered by the comparator",
             "qsort: result is a permutation of the input (multiset of whole elements)",
             "qsort n=0", "qsort n=1", "qsort n=2", "qsort n=3", "qsort n>=4",
             "bsearch: every comparator call is (key, element inside the array)",
             "bsearch: empty array -> NULL, nothing dereferenced",
             "bsearch: key present -> an element comparing equal",
             "bsearch: key absent -> NULL",
             "qsort: comparator that itself calls qsort/bsearch/strtol -> ordered permutation, inner results == references",
             "bsearch: comparator that itself calls qsort/bsearch/strtol -> an element comparing equal",
         })
        vf::require(c);
}
