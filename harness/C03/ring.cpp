// C03 — ring buffers: C ring_head API, typed igris::ring, cyclic_buffer, ring_counter.
// Oracle: std::deque reference evaluated after every operation; exact heap backing buffers (ASan).
#define VF_MAIN
#include "vf.h"
#include "guard.h"
#include <deque>
#include <map>
#include <vector>
#include <igris/container/cyclic_buffer.h>
#include <igris/container/ring.h>
#include <igris/datastruct/ring.h>
#include <igris/datastruct/ring_counter.h>

// mathematical modulo, written with 64-bit signed arithmetic (independent of the code under test)
static inline long mmod(long a, long n)
{
    long m = a % n;
    return m < 0 ? m + n : m;
}

// ============================================================================================
// 1. C ring (igris/datastruct/ring.h) over an exact byte buffer
// ============================================================================================
enum Op
{
    OP_PUTC,
    OP_GETC,
    OP_WRITE,
    OP_READ,
    OP_MOVE_HEAD,
    OP_MOVE_TAIL,
    OP_MOVE_HEAD_ONE,
    OP_MOVE_TAIL_ONE,
    OP_CLEAN,
    OP_INIT,
    OP_N
};
static const char *OPNAME[OP_N] = {"putc", "getc", "write", "read", "move_head", "move_tail", "move_head_one", "move_tail_one", "clean", "init"};

struct CRing
{
    unsigned size;
    ring_head r;
    vf::Exact buf;               // exactly `size` bytes, red zone directly behind (or in front when mirrored)
    std::deque<uint8_t> model;   // reference queue, capacity size-1
    std::string trace;           // witness (last operations)
    bool keep_trace;
    ring_head pre = {}; // state before the operation being checked (for witnesses)
    size_t pre_len = 0;

    CRing(unsigned sz, bool mirror, bool keep_trace_) : size(sz), keep_trace(keep_trace_)
    {
        buf.init(nullptr, sz, mirror ? 5 : 3, mirror);
        ring_init(&r, sz);
    }
    unsigned cap() const { return size - 1; }
    char *b() { return (char *)buf.p; }

    std::string where(const char *op, unsigned k) const
    {
        char t[300];
        snprintf(t, sizeof t, "size=%u before: head=%u tail=%u len=%zu; op=%s(%u); after: head=%u tail=%u reference_len=%zu", size, pre.head, pre.tail, pre_len, op,
                 k, r.head, r.tail, model.size());
        return std::string(t) + (keep_trace ? " trace=[" + trace + "]" : "");
    }
    void key(char *out, size_t n, const char *clause, const char *op) { snprintf(out, n, "cring:%s:%s", clause, op); }

#define CR_FAIL(clause, op, k, fmt, ...)                                                    \
    do                                                                                      \
    {                                                                                       \
        char key_[120];                                                                     \
        key(key_, sizeof key_, clause, op);                                                 \
        vf::fail(key_, "%s | " fmt, where(op, k).c_str(), ##__VA_ARGS__);                   \
    } while (0)

    // every clause of the statement that is a function of the state alone
    void check_state(const char *op, unsigned k)
    {
        if (r.size != size)
            CR_FAIL("state:size-changed", op, k, "r.size=%u", r.size);
        if (r.head >= size || r.tail >= size)
            CR_FAIL("state:index-range", op, k, "head=%u tail=%u", r.head, r.tail);
        VF_OK("cring: head,tail in [0,size)");
        unsigned a = ring_avail(&r), m = ring_room(&r);
        if (a != model.size())
            CR_FAIL("state:avail", op, k, "ring_avail=%u reference=%zu", a, model.size());
        VF_OK("cring: avail == |reference|");
        if (m != cap() - model.size())
            CR_FAIL("state:room", op, k, "ring_room=%u reference=%zu", m, cap() - model.size());
        VF_OK("cring: room == capacity - |reference|");
        if (a + m != size - 1)
            CR_FAIL("state:sum", op, k, "avail=%u room=%u", a, m);
        VF_OK("cring: avail + room == size-1");
        if ((ring_empty(&r) != 0) != model.empty())
            CR_FAIL("state:empty", op, k, "ring_empty=%d", ring_empty(&r));
        VF_OK("cring: empty == reference empty");
        if ((ring_full(&r) != 0) != (model.size() == cap()))
            CR_FAIL("state:full", op, k, "ring_full=%d", ring_full(&r));
        VF_OK("cring: full == reference full");
        // live content, oldest first, read straight from the backing buffer ...
        for (size_t i = 0; i < model.size(); i++)
        {
            uint8_t got = buf.p[(r.tail + i) % size];
            if (got != model[i])
                CR_FAIL("state:content", op, k, "element %zu from tail: buffer=%02x reference=%02x", i, got, model[i]);
        }
        VF_OK("cring: live content == reference, in order");
        // ... and through the iteration macro
        size_t n = 0;
        ring_for_each(idx, &r)
        {
            if (idx >= size || n >= model.size() || buf.p[idx] != model[n])
                CR_FAIL("state:for_each", op, k, "step %zu index %u", n, idx);
            n++;
        }
        if (n != model.size())
            CR_FAIL("state:for_each", op, k, "visited %zu of %zu", n, model.size());
        VF_OK("cring: ring_for_each visits exactly the live elements");
        vf::state(vf::mix(vf::mix(1, size), (uint64_t)r.head << 20 | r.tail));
    }

    // apply one operation; `bytes` supplies the data for writes (at least k bytes)
    void apply(int op, unsigned k, const uint8_t *bytes)
    {
        const char *on = OPNAME[op];
        if (keep_trace)
        {
            char t[64];
            bool has_data = op == OP_PUTC || op == OP_WRITE || op == OP_MOVE_HEAD || op == OP_MOVE_HEAD_ONE;
            unsigned nb = (op == OP_PUTC || op == OP_MOVE_HEAD_ONE) ? 1 : k;
            if (has_data && nb)
                snprintf(t, sizeof t, "%s%s(%u:%s)", trace.empty() ? "" : " ", on, k, vf::hex(bytes, nb, 6).c_str());
            else
                snprintf(t, sizeof t, "%s%s(%u)", trace.empty() ? "" : " ", on, k);
            trace += t;
            if (trace.size() > 900)
                trace.erase(0, trace.size() - 700);
            if (vf::verbose())
                printf("  %s  [head=%u tail=%u len=%zu]\n", t, r.head, r.tail, model.size());
        }
        pre = r;
        pre_len = model.size();
        std::vector<uint8_t> before(buf.p, buf.p + size);
        std::vector<uint8_t> expect = before; // expected backing buffer after the op
        ring_head r0 = r;
        size_t room = cap() - model.size(), avail = model.size();
        switch (op)
        {
        case OP_PUTC:
        {
            int ret = ring_putc(&r, b(), (char)bytes[0]);
            if (room == 0)
            {
                if (ret != 0)
                    CR_FAIL("putc:full-not-rejected", on, k, "ret=%d", ret);
                if (r.head != r0.head || r.tail != r0.tail)
                    CR_FAIL("reject:state-changed", on, k, "head %u->%u tail %u->%u", r0.head, r.head, r0.tail, r.tail);
                VF_OK("cring: putc on a full ring returns 0, state unchanged");
            }
            else
            {
                if (ret != 1)
                    CR_FAIL("putc:rejected-with-room", on, k, "ret=%d room=%zu", ret, room);
                expect[r0.head] = bytes[0];
                model.push_back(bytes[0]);
                VF_OK("cring: putc with room returns 1");
            }
            break;
        }
        case OP_GETC:
        {
            int ret = ring_getc(&r, b());
            if (avail == 0)
            {
                if (ret != -1)
                    CR_FAIL("getc:empty-not-rejected", on, k, "ret=%d", ret);
                if (r.head != r0.head || r.tail != r0.tail)
                    CR_FAIL("reject:state-changed", on, k, "head %u->%u tail %u->%u", r0.head, r.head, r0.tail, r.tail);
                VF_OK("cring: getc on an empty ring returns -1, state unchanged");
            }
            else
            {
                uint8_t want = model.front();
                if (ret == -1)
                    CR_FAIL("getc:reports-empty-on-nonempty", on, k, "stored byte %02x, ret=-1 (the empty indication)", want);
                if ((uint8_t)ret != want)
                    CR_FAIL("getc:byte-altered", on, k, "stored %02x, ret=%d", want, ret);
                model.pop_front();
                VF_OK("cring: getc returns the oldest byte, distinguishable from empty");
            }
            break;
        }
        case OP_WRITE:
        {
            vf::Exact src(bytes, k, 1);
            int ret = ring_write(&r, b(), src.cc(), k);
            size_t want = k < room ? k : room;
            if ((size_t)ret != want)
                CR_FAIL("write:count", on, k, "ret=%d expected=%zu room=%zu", ret, want, room);
            for (size_t i = 0; i < want; i++)
            {
                expect[(r0.head + i) % size] = bytes[i];
                model.push_back(bytes[i]);
            }
            if (want == 0 && k > 0)
            {
                if (r.head != r0.head || r.tail != r0.tail)
                    CR_FAIL("reject:state-changed", on, k, "head %u->%u tail %u->%u", r0.head, r.head, r0.tail, r.tail);
                VF_OK("cring: write to a full ring returns 0, state unchanged");
            }
            VF_OK("cring: write returns min(len, room)");
            break;
        }
        case OP_READ:
        {
            vf::Exact dst(nullptr, k, 2); // filled with 0xA5
            int ret = ring_read(&r, b(), dst.c(), k);
            size_t want = k < avail ? k : avail;
            if ((size_t)ret != want)
                CR_FAIL("read:count", on, k, "ret=%d expected=%zu avail=%zu (first byte of the ring was %02x)", ret, want, avail,
                        avail ? model.front() : 0);
            for (size_t i = 0; i < want; i++)
            {
                if (dst.p[i] != model.front())
                    CR_FAIL("read:data", on, k, "byte %zu: got %02x expected %02x", i, dst.p[i], model.front());
                model.pop_front();
            }
            for (size_t i = want; i < k; i++)
                if (dst.p[i] != 0xA5)
                    CR_FAIL("read:wrote-beyond-count", on, k, "destination byte %zu modified", i);
            if (want == 0 && k > 0)
            {
                if (r.head != r0.head || r.tail != r0.tail)
                    CR_FAIL("reject:state-changed", on, k, "head %u->%u tail %u->%u", r0.head, r.head, r0.tail, r.tail);
                VF_OK("cring: read from an empty ring returns 0, state unchanged");
            }
            VF_OK("cring: read returns min(len, avail) bytes == reference");
            break;
        }
        case OP_MOVE_HEAD: // producer filled k <= room slots directly, then publishes them
        case OP_MOVE_HEAD_ONE:
        {
            unsigned n = op == OP_MOVE_HEAD ? k : 1;
            for (unsigned i = 0; i < n; i++)
            {
                buf.p[(r0.head + i) % size] = bytes[i];
                expect[(r0.head + i) % size] = bytes[i];
                model.push_back(bytes[i]);
            }
            if (op == OP_MOVE_HEAD)
                ring_move_head(&r, k);
            else
                ring_move_head_one(&r);
            VF_OK("cring: bulk/single head move publishes directly written slots");
            break;
        }
        case OP_MOVE_TAIL: // consumer looked at k <= avail slots directly, then releases them
        case OP_MOVE_TAIL_ONE:
        {
            unsigned n = op == OP_MOVE_TAIL ? k : 1;
            for (unsigned i = 0; i < n; i++)
                model.pop_front();
            if (op == OP_MOVE_TAIL)
                ring_move_tail(&r, k);
            else
                ring_move_tail_one(&r);
            VF_OK("cring: bulk/single tail move releases the oldest slots");
            break;
        }
        case OP_CLEAN:
            ring_clean(&r);
            model.clear();
            break;
        case OP_INIT:
            ring_init(&r, size);
            model.clear();
            break;
        }
        if (memcmp(buf.p, expect.data(), size) != 0)
        {
            unsigned at = 0;
            while (buf.p[at] == expect[at])
                at++;
            CR_FAIL("buffer:stray-or-missing-write", on, k, "slot %u holds %02x, expected %02x", at, buf.p[at], expect[at]);
        }
        VF_OK("cring: backing buffer changed only in the written slots");
        check_state(on, k);
    }
#undef CR_FAIL
};

// byte supply: 4 constant patterns + a counter that keeps running through 0xFF/0x00
struct Bytes
{
    int pattern; // 0..3 constant, 4 counter
    uint8_t ctr = 0xF9;
    std::vector<uint8_t> v;
    const uint8_t *take(unsigned n)
    {
        static const uint8_t K[4] = {0x00, 0x7F, 0x80, 0xFF};
        v.assign(n ? n : 1, 0);
        for (auto &x : v)
            x = pattern < 4 ? K[pattern] : ctr++;
        return v.data();
    }
};

static unsigned bfs_max_size() { return vf::thorough() ? 40 : 20; }
static uint64_t bfs_count() { return (uint64_t)(bfs_max_size() - 1) * 5 * 2; }
static void bfs_run(uint64_t idx)
{
    bool mirror = idx & 1;
    int pattern = (idx / 2) % 5;
    unsigned size = 2 + (unsigned)(idx / 10);
    char cls[64];
    snprintf(cls, sizeof cls, "cring-bfs:size=%u", size);
    vf::cls(cls);
    Bytes bytes{pattern};
    CRing ring(size, mirror, vf::verbose());
    ring.check_state("init", 0);

    struct Snap
    {
        ring_head r;
        std::vector<uint8_t> buf;
        std::deque<uint8_t> model;
    };
    std::map<std::pair<unsigned, unsigned>, Snap> seen;
    std::deque<std::pair<unsigned, unsigned>> todo;
    auto visit = [&]() {
        auto k = std::make_pair(ring.r.head, ring.r.tail);
        if (seen.count(k))
            return;
        seen[k] = Snap{ring.r, std::vector<uint8_t>(ring.buf.p, ring.buf.p + size), ring.model};
        todo.push_back(k);
    };
    auto restore = [&](const Snap &s) {
        ring.r = s.r;
        memcpy(ring.buf.p, s.buf.data(), size);
        ring.model = s.model;
        ring.trace.clear();
    };
    visit();
    uint64_t transitions = 0, moving = 0;
    while (!todo.empty())
    {
        auto k = todo.front();
        todo.pop_front();
        const Snap s = seen[k];
        unsigned avail = (unsigned)s.model.size(), room = size - 1 - avail;
        auto go = [&](int op, unsigned n) {
            restore(s);
            ring.apply(op, n, bytes.take(n));
            visit();
            transitions++;
            moving += n > 0 || op == OP_PUTC || op == OP_GETC;
        };
        go(OP_PUTC, 0);
        go(OP_GETC, 0);
        for (unsigned n = 0; n <= room + 2; n++) // every legal length and two over-long ones (partial / rejected)
            go(OP_WRITE, n);
        for (unsigned n = 0; n <= avail + 2; n++)
            go(OP_READ, n);
        for (unsigned n = 0; n <= room; n++)
            go(OP_MOVE_HEAD, n);
        for (unsigned n = 0; n <= avail; n++)
            go(OP_MOVE_TAIL, n);
        if (room)
            go(OP_MOVE_HEAD_ONE, 1);
        if (avail)
            go(OP_MOVE_TAIL_ONE, 1);
        go(OP_CLEAN, 0);
        go(OP_INIT, 0);
    }
    if (seen.size() != (size_t)size * size)
        vf::fail("cring:bfs:state-count", "size=%u: %zu (head,tail) states reached, expected %u", size, seen.size(), size * size);
    VF_OK("cring: BFS reached all size^2 (head,tail) states, every op from each");
    VF_MAX("cring: largest ring size in BFS", size);
    vf::count_bulk(transitions, moving);
    if (size == 5 && pattern == 3 && !mirror)
        vf::sample("cring BFS: size=5 bytes=0xFF: %zu states, %llu transitions (putc,getc,write 0..room+2,read 0..avail+2,move_head 0..room,move_tail 0..avail,*_one,clean,init)",
                   seen.size(), (unsigned long long)transitions);
}
VF_SUITE(cring_bfs, bfs_count, bfs_run)

// ---- random long histories, sizes up to 67 including primes
static const unsigned RSIZES[] = {2, 3, 4, 5, 6, 7, 8, 9, 10, 11, 13, 16, 17, 23, 31, 32, 33, 47, 61, 64, 65, 67};
static uint64_t rnd_count() { return vf::thorough() ? 50000 : 500; }
static void rnd_run(uint64_t idx)
{
    vf::Rng rg(vf::seed(), 0xC03, idx);
    unsigned size = RSIZES[idx % (sizeof RSIZES / sizeof *RSIZES)];
    char cls[64];
    snprintf(cls, sizeof cls, "cring-random:size=%u", size);
    vf::cls(cls);
    CRing ring(size, (idx / 22) & 1, true);
    static const uint8_t K[4] = {0x00, 0x7F, 0x80, 0xFF};
    int bytemode = (int)rg.below(3);
    uint8_t ctr = (uint8_t)rg.next();
    uint64_t h = vf::mix(size, idx & 1);
    std::vector<uint8_t> data;
    bool wrapped = false;
    for (int step = 0; step < 2000; step++)
    {
        unsigned avail = (unsigned)ring.model.size(), room = size - 1 - avail;
        int op = (int)rg.below(100);
        unsigned n = 0;
        int o;
        if (op < 14)
            o = OP_PUTC;
        else if (op < 28)
            o = OP_GETC;
        else if (op < 48)
            o = OP_WRITE, n = (unsigned)rg.below(rg.chance(1, 4) ? size + 3 : room + 2);
        else if (op < 68)
            o = OP_READ, n = (unsigned)rg.below(rg.chance(1, 4) ? size + 3 : avail + 2);
        else if (op < 78)
            o = OP_MOVE_HEAD, n = (unsigned)rg.below(room + 1);
        else if (op < 88)
            o = OP_MOVE_TAIL, n = (unsigned)rg.below(avail + 1);
        else if (op < 93)
            o = room ? OP_MOVE_HEAD_ONE : OP_PUTC, n = room ? 1 : 0;
        else if (op < 98)
            o = avail ? OP_MOVE_TAIL_ONE : OP_GETC, n = avail ? 1 : 0;
        else if (op < 99)
            o = OP_CLEAN;
        else
            o = OP_INIT;
        data.assign(n ? n : 1, 0);
        for (auto &x : data)
            x = bytemode == 0 ? (uint8_t)rg.next() : bytemode == 1 ? K[rg.below(4)] : ctr++;
        unsigned h0 = ring.r.head;
        ring.apply(o, n, data.data());
        wrapped |= ring.r.head < h0 && o != OP_CLEAN && o != OP_INIT;
        h = vf::mix(h, vf::hash_bytes(data.data(), data.size(), (uint64_t)o << 32 | n));
    }
    vf::count_case(h, wrapped);
    if (vf::want_sample() && size == 7)
        vf::sample("cring random: size=7, 2000 ops, tail of trace: %s", ring.trace.substr(ring.trace.size() > 200 ? ring.trace.size() - 200 : 0).c_str());
}
VF_SUITE(cring_random, rnd_count, rnd_run)

// ============================================================================================
// 2. typed igris::ring<T>
// ============================================================================================
struct Sample // 12 bytes: slot addresses are not a power of two apart
{
    uint32_t id = 0;
    uint32_t inv = 0;
    uint8_t tag = 0;
    bool operator==(const Sample &o) const { return id == o.id && inv == o.inv && tag == o.tag; }
    bool operator!=(const Sample &o) const { return !(*this == o); }
};
static Sample mk(uint32_t id)
{
    static const uint8_t K[4] = {0x00, 0x7F, 0x80, 0xFF};
    Sample s;
    s.id = id;
    s.inv = ~id;
    s.tag = K[id & 3];
    return s;
}

struct TypedChk
{
    igris::ring<Sample> &rg;
    std::deque<Sample> model;
    unsigned n; // usable slots
    const char *mode;
    bool full_getlast;
    TypedChk(igris::ring<Sample> &r, unsigned n_, const char *m) : rg(r), n(n_), mode(m), full_getlast(n_ <= 16) {}

    std::string where(const char *op)
    {
        char t[200];
        snprintf(t, sizeof t, "capacity=%u (%s) head=%d tail=%d model_len=%zu after %s", n, mode, rg.head_index(), rg.tail_index(), model.size(), op);
        return t;
    }
#define TR_FAIL(clause, op, fmt, ...)                                                       \
    do                                                                                      \
    {                                                                                       \
        char key_[120];                                                                     \
        snprintf(key_, sizeof key_, "ring<T>:%s", clause);                                  \
        vf::fail(key_, "%s | " fmt, where(op).c_str(), ##__VA_ARGS__);                      \
    } while (0)

    void check(const char *op)
    {
        int size = (int)n + 1;
        size_t L = model.size();
        int hd = rg.head_index(), tl = rg.tail_index();
        if (hd < 0 || hd >= size || tl < 0 || tl >= size)
            TR_FAIL("index-range", op, "head=%d tail=%d size=%d", hd, tl, size);
        VF_OK("ring<T>: head,tail in [0,size)");
        if (rg.avail() != L)
            TR_FAIL("avail", op, "avail=%u reference=%zu", rg.avail(), L);
        if (rg.room() != n - L)
            TR_FAIL("room", op, "room=%u reference=%zu (n usable slots = %u)", rg.room(), n - L, n);
        if (rg.empty() != (L == 0))
            TR_FAIL("empty", op, "empty=%d", (int)rg.empty());
        VF_OK("ring<T>: avail/room/empty == reference, room()==n when empty");
        if (&rg.head_place() != &rg.get(hd))
            TR_FAIL("head_place", op, "head_place is not slot head_index");
        if (rg.distance(hd, tl) != (int)L)
            TR_FAIL("distance", op, "distance(head,tail)=%d reference=%zu", rg.distance(hd, tl), L);
        VF_OK("ring<T>: distance(head,tail) == |reference|");
        vf::state(vf::mix(vf::mix(2, size), (uint64_t)hd << 20 | tl));
        if (L == 0)
            return;
        if (rg.tail() != model.front())
            TR_FAIL("tail", op, "tail().id=%u reference=%u", rg.tail().id, model.front().id);
        if (rg.index_of(&rg.tail()) != tl)
            TR_FAIL("index_of", op, "index_of(&tail())=%d tail_index=%d", rg.index_of(&rg.tail()), tl);
        VF_OK("ring<T>: tail() == oldest, index_of(&tail()) == tail_index");
        Sample &l = rg.last();
        int li = rg.index_of(&l);
        if (li != (int)mmod(hd - 1, size))
            TR_FAIL("last:slot", op, "last() addresses slot %d, newest element is in slot %ld", li, mmod(hd - 1, size));
        if (l != model.back())
            TR_FAIL("last", op, "last().id=%u reference=%u", l.id, model.back().id);
        VF_OK("ring<T>: last() == newest");
        // every (offset,count) window of the stored elements, both orders
        for (size_t off = 0; off <= L; off++)
            for (size_t cnt = 0; off + cnt <= L; cnt++)
            {
                if (!full_getlast && !(off <= 1 || off + cnt == L || cnt <= 1))
                    continue;
                for (int from_end = 0; from_end < 2; from_end++)
                {
                    std::vector<Sample> v = rg.get_last((int)off, (int)cnt, from_end);
                    if (v.size() != cnt)
                        TR_FAIL("get_last:size", op, "offset=%zu count=%zu -> %zu elements", off, cnt, v.size());
                    for (size_t i = 0; i < cnt; i++)
                    {
                        const Sample &want = from_end ? model[L - 1 - off - i] : model[L - cnt - off + i];
                        if (v[i] != want)
                            TR_FAIL(from_end ? "get_last:from_end" : "get_last:in_order", op, "offset=%zu count=%zu i=%zu: id=%u reference=%u", off, cnt, i,
                                    v[i].id, want.id);
                    }
                }
                VF_OK("ring<T>: get_last(offset,count,order) == reference window");
            }
    }
    void push(uint32_t id, bool emplace)
    {
        Sample s = mk(id);
        if (vf::verbose())
            printf("  %s(id=%u) [head=%d tail=%d]\n", emplace ? "emplace" : "push", id, rg.head_index(), rg.tail_index());
        if (emplace)
            rg.emplace(s);
        else
            rg.push(s);
        model.push_back(s);
        check(emplace ? "emplace" : "push");
    }
    void pop()
    {
        if (vf::verbose())
            printf("  pop [head=%d tail=%d]\n", rg.head_index(), rg.tail_index());
        if (rg.tail() != model.front())
            TR_FAIL("pop:order", "pop", "element leaving has id=%u, reference=%u", rg.tail().id, model.front().id);
        rg.pop();
        model.pop_front();
        VF_OK("ring<T>: pop order == reference (FIFO)");
        check("pop");
    }
    // index arithmetic that depends on the size only
    void check_index_functions()
    {
        int size = (int)n + 1;
        for (int k = -size; k < 2 * size; k++)
        {
            int got = rg.fixup_index(k);
            if (got != (int)mmod(k, size))
                TR_FAIL("fixup_index", "fixup_index", "fixup_index(%d) with size %d = %d, expected %ld", k, size, got, mmod(k, size));
        }
        VF_OK("ring<T>: fixup_index(k) == k mod size for k in [-size, 2*size)");
        for (int a = 0; a < size; a++)
            for (int b = 0; b < size; b++)
                if (rg.distance(a, b) != (int)mmod(a - b, size))
                    TR_FAIL("distance", "distance", "distance(%d,%d) with size %d = %d", a, b, size, rg.distance(a, b));
        VF_OK("ring<T>: distance(a,b) == (a-b) mod size for all slots");
    }
    // one sweep: from every start slot fill to capacity and drain, checking every accessor in every (head,tail)
    void sweep(uint32_t &id)
    {
        for (unsigned round = 0; round <= n; round++)
        {
            for (unsigned i = 0; i < n; i++)
                push(id++, (i + round) & 1);
            if (rg.room() != 0)
                TR_FAIL("room", "fill", "room=%u after %u pushes into %u slots", rg.room(), n, n);
            for (unsigned i = 0; i < n; i++)
                pop();
        }
    }
#undef TR_FAIL
};

static unsigned typed_max() { return vf::thorough() ? 40 : 20; }
enum
{
    TYPED_MODES = 5
};
static uint64_t typed_count() { return (uint64_t)typed_max() * TYPED_MODES; }
static void typed_run(uint64_t idx)
{
    unsigned n = 1 + (unsigned)(idx / TYPED_MODES);
    int mode = idx % TYPED_MODES;
    static const char *MN[TYPED_MODES] = {"ctor(n)", "default+resize(n)", "ctor(n+5),traffic,resize(n)", "ctor(n),traffic,reset()", "ctor(2),resize(n)"};
    char cls[80];
    snprintf(cls, sizeof cls, "typed:%s", mode == 0 ? "ctor" : mode == 3 ? "reset" : "resize");
    vf::cls(cls);
    if (vf::verbose())
        printf("typed ring: n=%u mode=%s\n", n, MN[mode]);
    uint32_t id = 1000 * n;
    igris::ring<Sample> *rp = nullptr;
    switch (mode)
    {
    case 0:
        rp = new igris::ring<Sample>((int)n);
        break;
    case 1:
        rp = new igris::ring<Sample>();
        rp->resize(n);
        break;
    case 2:
        rp = new igris::ring<Sample>((int)n + 5);
        for (unsigned i = 0; i < n + 3; i++)
            rp->push(mk(7));
        rp->pop();
        rp->clear();
        rp->resize(n);
        break;
    case 3:
        rp = new igris::ring<Sample>((int)n);
        for (unsigned i = 0; i < n; i++)
            rp->push(mk(9));
        if (n > 1)
            rp->pop();
        rp->reset();
        break;
    case 4:
        rp = new igris::ring<Sample>(2);
        rp->push(mk(1));
        rp->resize(n);
        break;
    }
    std::unique_ptr<igris::ring<Sample>> holder(rp);
    TypedChk c(*rp, n, MN[mode]);
    c.check("construction");
    if (rp->room() != n)
        vf::fail("ring<T>:room", "%s: room()=%u on the empty ring, %u usable slots requested", MN[mode], rp->room(), n);
    c.check_index_functions();
    c.sweep(id);
    // direct control: set_last_index(i) makes slot i the newest element
    for (int i = 0; i <= (int)n; i++)
    {
        rp->set_last_index(i);
        if (rp->head_index() != (int)mmod(i + 1, n + 1))
            vf::fail("ring<T>:set_last_index", "capacity=%u set_last_index(%d): head_index=%d", n, i, rp->head_index());
        if (&rp->last() != &rp->get(i))
            vf::fail("ring<T>:last:slot", "capacity=%u (%s) after set_last_index(%d): last() addresses slot %d", n, MN[mode], i, rp->index_of(&rp->last()));
        VF_OK("ring<T>: after set_last_index(i), last() is slot i (every head position)");
    }
    VF_MAX("ring<T>: largest capacity", n);
    vf::count_bulk((uint64_t)(n + 1) * 2 * n, (uint64_t)(n + 1) * 2 * n);
    if (n == 9 && mode == 1)
        vf::sample("ring<Sample>: default+resize(9): from each of 10 start slots push/emplace 9, pop 9; tail/last/get_last(all windows)/fixup_index/distance/index_of after every op");
}
VF_SUITE(typed_ring, typed_count, typed_run)

// ---- igris::ring<char> bulk read/write (the typed wrapper around ring_read/ring_write)
static uint64_t tchar_count() { return (uint64_t)typed_max() * 2; }
static void tchar_run(uint64_t idx)
{
    unsigned n = 1 + (unsigned)(idx / 2);
    bool via_resize = idx & 1;
    vf::cls(via_resize ? "typed-char:resize" : "typed-char:ctor");
    igris::ring<char> rg = via_resize ? igris::ring<char>() : igris::ring<char>((int)n);
    if (via_resize)
        rg.resize(n);
    std::deque<uint8_t> model;
    uint8_t ctr = 0xFB;
    static const uint8_t K[4] = {0x00, 0x7F, 0x80, 0xFF};
    uint64_t ops = 0;
    for (unsigned round = 0; round <= n + 1; round++)
        for (unsigned k = 0; k <= n + 2; k++)
        {
            std::vector<uint8_t> d(k);
            for (unsigned i = 0; i < k; i++)
                d[i] = (round & 1) ? K[(i + k) & 3] : ctr++;
            vf::Exact src(d.data(), k, 1);
            size_t room = n - model.size();
            size_t w = rg.write(src.cc(), k);
            if (w != (k < room ? k : room))
                vf::fail("ring<char>:write:count", "capacity=%u head=%d tail=%d write(%u) = %zu, room was %zu", n, rg.head_index(), rg.tail_index(), k, w, room);
            for (size_t i = 0; i < w; i++)
                model.push_back(d[i]);
            if (rg.avail() != model.size() || rg.room() != n - model.size())
                vf::fail("ring<char>:counts", "capacity=%u avail=%u room=%u reference=%zu", n, rg.avail(), rg.room(), model.size());
            // read back all but (round % 2) bytes so the fill level and the positions both vary
            size_t want = model.size() > (round % 2) ? model.size() - (round % 2) : model.size();
            vf::Exact dst(nullptr, want + 1, 0);
            size_t asked = (k & 1) ? want + 1 : want;
            size_t expect = asked < model.size() ? asked : model.size();
            size_t got = rg.read(dst.c(), asked);
            if (got != expect)
                vf::fail("ring<char>:read:count", "capacity=%u head=%d tail=%d read(%zu) = %zu, avail was %zu, first byte %02x", n, rg.head_index(),
                         rg.tail_index(), asked, got, model.size(), model.empty() ? 0 : model.front());
            for (size_t i = 0; i < got; i++)
            {
                if (dst.p[i] != model.front())
                    vf::fail("ring<char>:read:data", "capacity=%u byte %zu: %02x, reference %02x", n, i, dst.p[i], model.front());
                model.pop_front();
            }
            VF_OK("ring<char>: write/read counts and data == reference");
            vf::state(vf::mix(vf::mix(4, n + 1), (uint64_t)rg.head_index() << 20 | rg.tail_index()));
            ops += 2;
        }
    vf::count_bulk(ops, ops);
}
VF_SUITE(typed_char_ring, tchar_count, tchar_run)

// ============================================================================================
// 3. ring_counter and cyclic_buffer
// ============================================================================================
static unsigned cyc_max() { return vf::thorough() ? 64 : 24; }
static uint64_t cyc_count() { return (uint64_t)cyc_max() * 3; }
static void cyc_run(uint64_t idx)
{
    int N = 1 + (int)(idx / 3);
    int mode = idx % 3; // 0: ring_counter functions, 1: cyclic_buffer(N), 2: cyclic_buffer(M) then resize(N)
    if (mode == 0)
    {
        vf::cls("ring_counter");
        ring_counter rc;
        ring_counter_init(&rc, N);
        if (ring_counter_get(&rc) != 0)
            vf::fail("ring_counter:init", "counter=%d after init", ring_counter_get(&rc));
        for (int c = 0; c < N; c++)
        {
            ring_counter_set(&rc, c);
            if (ring_counter_get(&rc) != c)
                vf::fail("ring_counter:set", "size=%d set(%d) -> %d", N, c, ring_counter_get(&rc));
            for (int i = 0; i <= 3 * N; i++)
            {
                int p = ring_counter_prev(&rc, i);
                if (p != (int)mmod(c - i, N))
                    vf::fail("ring_counter:prev", "size=%d counter=%d prev(%d) = %d, expected %ld", N, c, i, p, mmod(c - i, N));
            }
            VF_OK("ring_counter: prev(i) == (counter-i) mod size, i in [0,3*size]");
            for (int no = -2 * N; no <= 3 * N; no++)
            {
                int p = ring_counter_last(&rc, no);
                if (p != (int)mmod(c - no, N))
                    vf::fail("ring_counter:last", "size=%d counter=%d last(%d) = %d, expected %ld", N, c, no, p, mmod(c - no, N));
            }
            VF_OK("ring_counter: last(no) == (counter-no) mod size");
            for (int arg = 0; arg <= 2 * N; arg++)
            {
                ring_counter t = rc;
                ring_counter_increment(&t, arg);
                if (ring_counter_get(&t) != (int)mmod(c + arg, N))
                    vf::fail("ring_counter:increment", "size=%d counter=%d increment(%d) -> %d", N, c, arg, ring_counter_get(&t));
            }
            VF_OK("ring_counter: increment wraps into [0,size)");
            vf::state(vf::mix(vf::mix(5, N), c));
        }
        for (int pos = -3 * N; pos <= 3 * N; pos++)
        {
            int p = ring_counter_fixup_pos(&rc, pos);
            if (p != (int)mmod(pos, N))
                vf::fail("ring_counter:fixup_pos", "size=%d fixup_pos(%d) = %d, expected %ld", N, pos, p, mmod(pos, N));
        }
        VF_OK("ring_counter: fixup_pos(p) == p mod size, p in [-3*size,3*size]");
        for (int v = 0; v < 3 * N; v++)
        {
            ring_counter_set(&rc, v);
            if (ring_counter_get(&rc) != v % N)
                vf::fail("ring_counter:set", "size=%d set(%d) -> %d", N, v, ring_counter_get(&rc));
        }
        vf::count_bulk((uint64_t)N * (8 * N + 4), (uint64_t)N * (8 * N + 4));
        return;
    }
    vf::cls(mode == 1 ? "cyclic_buffer:ctor" : "cyclic_buffer:resize");
    std::unique_ptr<igris::cyclic_buffer<Sample>> cb;
    if (mode == 1)
        cb.reset(new igris::cyclic_buffer<Sample>(N));
    else
    {
        int M = N % 2 ? N + 3 : (N > 2 ? N - 2 : N + 1);
        cb.reset(new igris::cyclic_buffer<Sample>(M));
        for (int i = 0; i < M + 1; i++)
            cb->push(mk(5));
        cb->resize(N);
    }
    std::deque<Sample> model; // newest first
    if (cb->size() != 0)
        vf::fail("cyclic_buffer:size", "N=%d (%s): size()=%zu before the first push", N, mode == 1 ? "ctor" : "after resize", cb->size());
    uint32_t id = 77 * N;
    for (int step = 0; step < 3 * N + 2; step++)
    {
        Sample s = mk(id++);
        if (vf::verbose())
            printf("  push(id=%u) counter=%d\n", s.id, cb->counter.counter);
        Sample ret = cb->push(s);
        bool was_full = (int)model.size() == N;
        if (was_full)
        {
            if (ret != model.back())
                vf::fail("cyclic_buffer:push:overwritten", "N=%d step=%d: push returned id=%u, overwritten sample is id=%u", N, step, ret.id, model.back().id);
            model.pop_back();
            VF_OK("cyclic_buffer: push on a full buffer returns the overwritten (oldest) sample");
        }
        model.push_front(s);
        if (cb->size() != model.size())
            vf::fail("cyclic_buffer:size", "N=%d step=%d: size()=%zu reference=%zu", N, step, cb->size(), model.size());
        VF_OK("cyclic_buffer: size() == min(pushed, capacity)");
        const igris::cyclic_buffer<Sample> &ccb = *cb;
        for (int i = 0; i < (int)model.size(); i++)
        {
            Sample a = (*cb)[i], b = ccb[i];
            if (a != model[i] || b != model[i])
                vf::fail("cyclic_buffer:index", "N=%d counter=%d: [%d] has id=%u (const: %u), %d-th previous sample is id=%u", N, cb->counter.counter, i, a.id,
                         b.id, i, model[i].id);
        }
        VF_OK("cyclic_buffer: [i] == i-th previous sample for every i < size()");
        if (cb->counter.counter < 0 || cb->counter.counter >= N)
            vf::fail("cyclic_buffer:counter-range", "N=%d counter=%d", N, cb->counter.counter);
        vf::state(vf::mix(vf::mix(6, N), (uint64_t)cb->counter.counter << 20 | model.size()));
    }
    VF_MAX("cyclic_buffer: largest size", N);
    vf::count_bulk(3 * N + 2, 3 * N + 2);
    if (N == 7 && mode == 1)
        vf::sample("cyclic_buffer<Sample>(7): 23 pushes, after each: returned sample, size(), [0..size) const and non-const vs deque");
}
VF_SUITE(cyclic, cyc_count, cyc_run)

extern "C" void vf_setup()
{
    for (const char *c :
         {"cring: head,tail in [0,size)", "cring: avail == |reference|", "cring: room == capacity - |reference|", "cring: avail + room == size-1",
          "cring: empty == reference empty", "cring: full == reference full", "cring: live content == reference, in order",
          "cring: ring_for_each visits exactly the live elements", "cring: putc on a full ring returns 0, state unchanged", "cring: putc with room returns 1",
          "cring: getc on an empty ring returns -1, state unchanged", "cring: getc returns the oldest byte, distinguishable from empty",
          "cring: write to a full ring returns 0, state unchanged", "cring: write returns min(len, room)", "cring: read from an empty ring returns 0, state unchanged",
          "cring: read returns min(len, avail) bytes == reference", "cring: bulk/single head move publishes directly written slots",
          "cring: bulk/single tail move releases the oldest slots", "cring: backing buffer changed only in the written slots",
          "cring: BFS reached all size^2 (head,tail) states, every op from each", "ring<T>: head,tail in [0,size)",
          "ring<T>: avail/room/empty == reference, room()==n when empty", "ring<T>: distance(head,tail) == |reference|",
          "ring<T>: tail() == oldest, index_of(&tail()) == tail_index", "ring<T>: last() == newest", "ring<T>: get_last(offset,count,order) == reference window",
          "ring<T>: pop order == reference (FIFO)", "ring<T>: fixup_index(k) == k mod size for k in [-size, 2*size)",
          "ring<T>: distance(a,b) == (a-b) mod size for all slots", "ring<T>: after set_last_index(i), last() is slot i (every head position)",
          "ring<char>: write/read counts and data == reference", "ring_counter: prev(i) == (counter-i) mod size, i in [0,3*size]",
          "ring_counter: last(no) == (counter-no) mod size", "ring_counter: increment wraps into [0,size)",
          "ring_counter: fixup_pos(p) == p mod size, p in [-3*size,3*size]", "cyclic_buffer: push on a full buffer returns the overwritten (oldest) sample",
          "cyclic_buffer: size() == min(pushed, capacity)", "cyclic_buffer: [i] == i-th previous sample for every i < size()"})
        vf::require(c);
}
