// C03 — ring buffers: C ring_head API, typed igris::ring, cyclic_buffer, ring_counter.
// Oracle: std::deque reference evaluated after every operation; exact heap backing buffers (ASan).
#define VF_MAIN
#include "vf.h"
#include "guard.h"
#include "tracked.h"
#include <string>
#include <deque>
#include <map>
#include <vector>
#include <igris/container/cyclic_buffer.h>
#include <igris/container/ring.h>
#include <igris/datastruct/ring.h>
#include <igris/datastruct/ring_counter.h>

// mathematical modulo, written with 64-bit signed arithmetic (independent of the code under test)
static inline long mmod(long a, long n)
{
    long m = a % n;
    return m < 0 ? m + n : m;
}

// ============================================================================================
// 1. C ring (igris/datastruct/ring.h) over an exact byte buffer
// ============================================================================================
enum Op
{
    OP_PUTC,
    OP_GETC,
    OP_WRITE,
    OP_READ,
    OP_MOVE_HEAD,
    OP_MOVE_TAIL,
    OP_MOVE_HEAD_ONE,
    OP_MOVE_TAIL_ONE,
    OP_CLEAN,
    OP_INIT,
    OP_N
};
static const char *OPNAME[OP_N] = {"putc", "getc", "write", "read", "move_head", "move_tail", "move_head_one", "move_tail_one", "clean", "init"};

struct CRing
{
    unsigned size;
    ring_head r;
    vf::Exact buf;               // exactly `size` bytes, red zone directly behind (or in front when mirrored)
    std::deque<uint8_t> model;   // reference queue, capacity size-1
    std::string trace;           // witness (last operations)
    bool keep_trace;
    ring_head pre = {}; // state before the operation being checked (for witnesses)
    size_t pre_len = 0;

    CRing(unsigned sz, bool mirror, bool keep_trace_) : size(sz), keep_trace(keep_trace_)
    {
        buf.init(nullptr, sz, mirror ? 5 : 3, mirror);
        ring_init(&r, sz);
    }
    unsigned cap() const { return size - 1; }
    char *b() { return (char *)buf.p; }

    std::string where(const char *op, unsigned k) const
    {
        char t[300];
        snprintf(t, sizeof t, "size=%u before: head=%u tail=%u len=%zu; op=%s(%u); after: head=%u tail=%u reference_len=%zu", size, pre.head, pre.tail, pre_len, op,
                 k, r.head, r.tail, model.size());
        return std::string(t) + (keep_trace ? " trace=[" + trace + "]" : "");
    }
    void key(char *out, size_t n, const char *clause, const char *op) { snprintf(out, n, "cring:%s:%s", clause, op); }

#define CR_FAIL(clause, op, k, fmt, ...)                                                    \
    do                                                                                      \
    {                                                                                       \
        char key_[120];                                                                     \
        key(key_, sizeof key_, clause, op);                                                 \
        vf::fail(key_, "%s | " fmt, where(op, k).c_str(), ##__VA_ARGS__);                   \
    } while (0)

    // every clause of the statement that is a function of the state alone
    void check_state(const char *op, unsigned k)
    {
        if (r.size != size)
            CR_FAIL("state:size-changed", op, k, "r.size=%u", r.size);
        if (r.head >= size || r.tail >= size)
            CR_FAIL("state:index-range", op, k, "head=%u tail=%u", r.head, r.tail);
        VF_OK("cring: head,tail in [0,size)");
        unsigned a = ring_avail(&r), m = ring_room(&r);
        if (a != model.size())
            CR_FAIL("state:avail", op, k, "ring_avail=%u reference=%zu", a, model.size());
        VF_OK("cring: avail == |reference|");
        if (m != cap() - model.size())
            CR_FAIL("state:room", op, k, "ring_room=%u reference=%zu", m, cap() - model.size());
        VF_OK("cring: room == capacity - |reference|");
        if (a + m != size - 1)
            CR_FAIL("state:sum", op, k, "avail=%u room=%u", a, m);
        VF_OK("cring: avail + room == size-1");
        if ((ring_empty(&r) != 0) != model.empty())
            CR_FAIL("state:empty", op, k, "ring_empty=%d", ring_empty(&r));
        VF_OK("cring: empty == reference empty");
        if ((ring_full(&r) != 0) != (model.size() == cap()))
            CR_FAIL("state:full", op, k, "ring_full=%d", ring_full(&r));
        VF_OK("cring: full == reference full");
        // live content, oldest first, read straight from the backing buffer ...
        for (size_t i = 0; i < model.size(); i++)
        {
            uint8_t got = buf.p[(r.tail + i) % size];
            if (got != model[i])
                CR_FAIL("state:content", op, k, "element %zu from tail: buffer=%02x reference=%02x", i, got, model[i]);
        }
        VF_OK("cring: live content == reference, in order");
        // ... and through the iteration macro
        size_t n = 0;
        ring_for_each(idx, &r)
        {
            if (idx >= size || n >= model.size() || buf.p[idx] != model[n])
                CR_FAIL("state:for_each", op, k, "step %zu index %u", n, idx);
            n++;
        }
        if (n != model.size())
            CR_FAIL("state:for_each", op, k, "visited %zu of %zu", n, model.size());
        VF_OK("cring: ring_for_each visits exactly the live elements");
        vf::state(vf::mix(vf::mix(1, size), (uint64_t)r.head << 20 | r.tail));
    }

    // apply one operation; `bytes` supplies the data for writes (at least k bytes)
    void apply(int op, unsigned k, const uint8_t *bytes)
    {
        const char *on = OPNAME[op];
        if (keep_trace)
        {
            char t[64];
            bool has_data = op == OP_PUTC || op == OP_WRITE || op == OP_MOVE_HEAD || op == OP_MOVE_HEAD_ONE;
            unsigned nb = (op == OP_PUTC || op == OP_MOVE_HEAD_ONE) ? 1 : k;
            if (has_data && nb)
                snprintf(t, sizeof t, "%s%s(%u:%s)", trace.empty() ? "" : " ", on, k, vf::hex(bytes, nb, 6).c_str());
            else
                snprintf(t, sizeof t, "%s%s(%u)", trace.empty() ? "" : " ", on, k);
            trace += t;
            if (trace.size() > 900)
                trace.erase(0, trace.size() - 700);
            if (vf::verbose())
                printf("  %s  [head=%u tail=%u len=%zu]\n", t, r.head, r.tail, model.size());
        }
        pre = r;
        pre_len = model.size();
        std::vector<uint8_t> before(buf.p, buf.p + size);
        std::vector<uint8_t> expect = before; // expected backing buffer after the op
        ring_head r0 = r;
        size_t room = cap() - model.size(), avail = model.size();
        switch (op)
        {
        case OP_PUTC:
        {
            int ret = ring_putc(&r, b(), (char)bytes[0]);
            if (room == 0)
            {
                if (ret != 0)
                    CR_FAIL("putc:full-not-rejected", on, k, "ret=%d", ret);
                if (r.head != r0.head || r.tail != r0.tail)
                    CR_FAIL("reject:state-changed", on, k, "head %u->%u tail %u->%u", r0.head, r.head, r0.tail, r.tail);
                VF_OK("cring: putc on a full ring returns 0, state unchanged");
            }
            else
            {
                if (ret != 1)
                    CR_FAIL("putc:rejected-with-room", on, k, "ret=%d room=%zu", ret, room);
                expect[r0.head] = bytes[0];
                model.push_back(bytes[0]);
                VF_OK("cring: putc with room returns 1");
            }
            break;
        }
        case OP_GETC:
        {
            int ret = ring_getc(&r, b());
            if (avail == 0)
            {
                if (ret != -1)
                    CR_FAIL("getc:empty-not-rejected", on, k, "ret=%d", ret);
                if (r.head != r0.head || r.tail != r0.tail)
                    CR_FAIL("reject:state-changed", on, k, "head %u->%u tail %u->%u", r0.head, r.head, r0.tail, r.tail);
                VF_OK("cring: getc on an empty ring returns -1, state unchanged");
            }
            else
            {
                uint8_t want = model.front();
                if (ret == -1)
                    CR_FAIL("getc:reports-empty-on-nonempty", on, k, "stored byte %02x, ret=-1 (the empty indication)", want);
                if ((uint8_t)ret != want)
                    CR_FAIL("getc:byte-altered", on, k, "stored %02x, ret=%d", want, ret);
                model.pop_front();
                VF_OK("cring: getc returns the oldest byte, distinguishable from empty");
            }
            break;
        }
        case OP_WRITE:
        {
            vf::Exact src(bytes, k, 1);
            int ret = ring_write(&r, b(), src.cc(), k);
            size_t want = k < room ? k : room;
            if ((size_t)ret != want)
                CR_FAIL("write:count", on, k, "ret=%d expected=%zu room=%zu", ret, want, room);
            for (size_t i = 0; i < want; i++)
            {
                expect[(r0.head + i) % size] = bytes[i];
                model.push_back(bytes[i]);
            }
            if (want == 0 && k > 0)
            {
                if (r.head != r0.head || r.tail != r0.tail)
                    CR_FAIL("reject:state-changed", on, k, "head %u->%u tail %u->%u", r0.head, r.head, r0.tail, r.tail);
                VF_OK("cring: write to a full ring returns 0, state unchanged");
            }
            VF_OK("cring: write returns min(len, room)");
            break;
        }
        case OP_READ:
        {
            vf::Exact dst(nullptr, k, 2); // filled with 0xA5
            int ret = ring_read(&r, b(), dst.c(), k);
            size_t want = k < avail ? k : avail;
            if ((size_t)ret != want)
                CR_FAIL("read:count", on, k, "ret=%d expected=%zu avail=%zu (first byte of the ring was %02x)", ret, want, avail,
                        avail ? model.front() : 0);
            for (size_t i = 0; i < want; i++)
            {
                if (dst.p[i] != model.front())
                    CR_FAIL("read:data", on, k, "byte %zu: got %02x expected %02x", i, dst.p[i], model.front());
                model.pop_front();
            }
            for (size_t i = want; i < k; i++)
                if (dst.p[i] != 0xA5)
                    CR_FAIL("read:wrote-beyond-count", on, k, "destination byte %zu modified", i);
            if (want == 0 && k > 0)
            {
                if (r.head != r0.head || r.tail != r0.tail)
                    CR_FAIL("reject:state-changed", on, k, "head %u->%u tail %u->%u", r0.head, r.head, r0.tail, r.tail);
                VF_OK("cring: read from an empty ring returns 0, state unchanged");
            }
            VF_OK("cring: read returns min(len, avail) bytes == reference");
            break;
        }
        case OP_MOVE_HEAD: // producer filled k <= room slots directly, then publishes them
        case OP_MOVE_HEAD_ONE:
        {
            unsigned n = op == OP_MOVE_HEAD ? k : 1;
            for (unsigned i = 0; i < n; i++)
            {
                buf.p[(r0.head + i) % size] = bytes[i];
                expect[(r0.head + i) % size] = bytes[i];
                model.push_back(bytes[i]);
            }
            if (op == OP_MOVE_HEAD)
                ring_move_head(&r, k);
            else
                ring_move_head_one(&r);
            VF_OK("cring: bulk/single head move publishes directly written slots");
            break;
        }
        case OP_MOVE_TAIL: // consumer looked at k <= avail slots directly, then releases them
        case OP_MOVE_TAIL_ONE:
        {
            unsigned n = op == OP_MOVE_TAIL ? k : 1;
            for (unsigned i = 0; i < n; i++)
                model.pop_front();
            if (op == OP_MOVE_TAIL)
                ring_move_tail(&r, k);
            else
                ring_move_tail_one(&r);
            VF_OK("cring: bulk/single tail move releases the oldest slots");
            break;
        }
        case OP_CLEAN:
            ring_clean(&r);
            model.clear();
            break;
        case OP_INIT:
            ring_init(&r, size);
            model.clear();
            break;
        }
        // a consumer operation only moves the tail, a producer operation only the head (the basis of zero-copy
        // producers/consumers that hold an index across the other side's operation)
        if ((op == OP_GETC || op == OP_READ || op == OP_MOVE_TAIL || op == OP_MOVE_TAIL_ONE) && r.head != r0.head)
            CR_FAIL("consumer-op-moved-head", on, k, "head %u -> %u", r0.head, r.head);
        if ((op == OP_PUTC || op == OP_WRITE || op == OP_MOVE_HEAD || op == OP_MOVE_HEAD_ONE) && r.tail != r0.tail)
            CR_FAIL("producer-op-moved-tail", on, k, "tail %u -> %u", r0.tail, r.tail);
        VF_OK("cring: read/getc/move_tail leave head unchanged, write/putc/move_head leave tail unchanged");
        if (memcmp(buf.p, expect.data(), size) != 0)
        {
            unsigned at = 0;
            while (buf.p[at] == expect[at])
                at++;
            CR_FAIL("buffer:stray-or-missing-write", on, k, "slot %u holds %02x, expected %02x", at, buf.p[at], expect[at]);
        }
        VF_OK("cring: backing buffer changed only in the written slots");
        check_state(on, k);
    }
#undef CR_FAIL
};

// byte supply: 4 constant patterns + a counter that keeps running through 0xFF/0x00
struct Bytes
{
    int pattern; // 0..3 constant, 4 counter
    uint8_t ctr = 0xF9;
    std::vector<uint8_t> v;
    const uint8_t *take(unsigned n)
    {
        static const uint8_t K[4] = {0x00, 0x7F, 0x80, 0xFF};
        v.assign(n ? n : 1, 0);
        for (auto &x : v)
            x = pattern < 4 ? K[pattern] : ctr++;
        return v.data();
    }
};

static unsigned bfs_max_size() { return vf::thorough() ? 40 : 20; }
static uint64_t bfs_count() { return (uint64_t)(bfs_max_size() - 1) * 5 * 2; }
static void bfs_run(uint64_t idx)
{
    bool mirror = idx & 1;
    int pattern = (idx / 2) % 5;
    unsigned size = 2 + (unsigned)(idx / 10);
    char cls[64];
    snprintf(cls, sizeof cls, "cring-bfs:size=%u", size);
    vf::cls(cls);
    Bytes bytes{pattern};
    CRing ring(size, mirror, vf::verbose());
    ring.check_state("init", 0);

    struct Snap
    {
        ring_head r;
        std::vector<uint8_t> buf;
        std::deque<uint8_t> model;
    };
    std::map<std::pair<unsigned, unsigned>, Snap> seen;
    std::deque<std::pair<unsigned, unsigned>> todo;
    auto visit = [&]() {
        auto k = std::make_pair(ring.r.head, ring.r.tail);
        if (seen.count(k))
            return;
        seen[k] = Snap{ring.r, std::vector<uint8_t>(ring.buf.p, ring.buf.p + size), ring.model};
        todo.push_back(k);
    };
    auto restore = [&](const Snap &s) {
        ring.r = s.r;
        memcpy(ring.buf.p, s.buf.data(), size);
        ring.model = s.model;
        ring.trace.clear();
    };
    visit();
    uint64_t transitions = 0, moving = 0;
    while (!todo.empty())
    {
        auto k = todo.front();
        todo.pop_front();
        const Snap s = seen[k];
        unsigned avail = (unsigned)s.model.size(), room = size - 1 - avail;
        auto go = [&](int op, unsigned n) {
            restore(s);
            ring.apply(op, n, bytes.take(n));
            visit();
            transitions++;
            moving += n > 0 || op == OP_PUTC || op == OP_GETC;
        };
        go(OP_PUTC, 0);
        go(OP_GETC, 0);
        for (unsigned n = 0; n <= room + 2; n++) // every legal length and two over-long ones (partial / rejected)
            go(OP_WRITE, n);
        for (unsigned n = 0; n <= avail + 2; n++)
            go(OP_READ, n);
        for (unsigned n = 0; n <= room; n++)
            go(OP_MOVE_HEAD, n);
        for (unsigned n = 0; n <= avail; n++)
            go(OP_MOVE_TAIL, n);
        if (room)
            go(OP_MOVE_HEAD_ONE, 1);
        if (avail)
            go(OP_MOVE_TAIL_ONE, 1);
        go(OP_CLEAN, 0);
        go(OP_INIT, 0);
    }
    if (seen.size() != (size_t)size * size)
        vf::fail("cring:bfs:state-count", "size=%u: %zu (head,tail) states reached, expected %u", size, seen.size(), size * size);
    VF_OK("cring: BFS reached all size^2 (head,tail) states, every op from each");
    VF_MAX("cring: largest ring size in BFS", size);
    vf::count_bulk(transitions, moving);
    if (size == 5 && pattern == 3 && !mirror)
        vf::sample("cring BFS: size=5 bytes=0xFF: %zu states, %llu transitions (putc,getc,write 0..room+2,read 0..avail+2,move_head 0..room,move_tail 0..avail,*_one,clean,init)",
                   seen.size(), (unsigned long long)transitions);
}
VF_SUITE(cring_bfs, bfs_count, bfs_run)

// ---- random long histories, sizes up to 67 including primes
static const unsigned RSIZES[] = {2, 3, 4, 5, 6, 7, 8, 9, 10, 11, 13, 16, 17, 23, 31, 32, 33, 47, 61, 64, 65, 67};
static uint64_t rnd_count() { return vf::thorough() ? 50000 : 500; }
static void rnd_run(uint64_t idx)
{
    vf::Rng rg(vf::seed(), 0xC03, idx);
    unsigned size = RSIZES[idx % (sizeof RSIZES / sizeof *RSIZES)];
    char cls[64];
    snprintf(cls, sizeof cls, "cring-random:size=%u", size);
    vf::cls(cls);
    CRing ring(size, (idx / 22) & 1, true);
    static const uint8_t K[4] = {0x00, 0x7F, 0x80, 0xFF};
    int bytemode = (int)rg.below(3);
    uint8_t ctr = (uint8_t)rg.next();
    uint64_t h = vf::mix(size, idx & 1);
    std::vector<uint8_t> data;
    bool wrapped = false;
    for (int step = 0; step < 2000; step++)
    {
        unsigned avail = (unsigned)ring.model.size(), room = size - 1 - avail;
        int op = (int)rg.below(100);
        unsigned n = 0;
        int o;
        if (op < 14)
            o = OP_PUTC;
        else if (op < 28)
            o = OP_GETC;
        else if (op < 48)
            o = OP_WRITE, n = (unsigned)rg.below(rg.chance(1, 4) ? size + 3 : room + 2);
        else if (op < 68)
            o = OP_READ, n = (unsigned)rg.below(rg.chance(1, 4) ? size + 3 : avail + 2);
        else if (op < 78)
            o = OP_MOVE_HEAD, n = (unsigned)rg.below(room + 1);
        else if (op < 88)
            o = OP_MOVE_TAIL, n = (unsigned)rg.below(avail + 1);
        else if (op < 93)
            o = room ? OP_MOVE_HEAD_ONE : OP_PUTC, n = room ? 1 : 0;
        else if (op < 98)
            o = avail ? OP_MOVE_TAIL_ONE : OP_GETC, n = avail ? 1 : 0;
        else if (op < 99)
            o = OP_CLEAN;
        else
            o = OP_INIT;
        data.assign(n ? n : 1, 0);
        for (auto &x : data)
            x = bytemode == 0 ? (uint8_t)rg.next() : bytemode == 1 ? K[rg.below(4)] : ctr++;
        unsigned h0 = ring.r.head;
        ring.apply(o, n, data.data());
        wrapped |= ring.r.head < h0 && o != OP_CLEAN && o != OP_INIT;
        h = vf::mix(h, vf::hash_bytes(data.data(), data.size(), (uint64_t)o << 32 | n));
    }
    vf::count_case(h, wrapped);
    if (vf::want_sample() && size == 7)
        vf::sample("cring random: size=7, 2000 ops, tail of trace: %s", ring.trace.substr(ring.trace.size() > 200 ? ring.trace.size() - 200 : 0).c_str());
}
VF_SUITE(cring_random, rnd_count, rnd_run)

// ============================================================================================
// 2. typed igris::ring<T>
// ============================================================================================
struct Sample // 12 bytes: slot addresses are not a power of two apart
{
    uint32_t id = 0;
    uint32_t inv = 0;
    uint8_t tag = 0;
    bool operator==(const Sample &o) const { return id == o.id && inv == o.inv && tag == o.tag; }
    bool operator!=(const Sample &o) const { return !(*this == o); }
};
static Sample mk(uint32_t id)
{
    static const uint8_t K[4] = {0x00, 0x7F, 0x80, 0xFF};
    Sample s;
    s.id = id;
    s.inv = ~id;
    s.tag = K[id & 3];
    return s;
}

struct TypedChk
{
    igris::ring<Sample> &rg;
    std::deque<Sample> model;
    unsigned n; // usable slots
    const char *mode;
    bool full_getlast;
    TypedChk(igris::ring<Sample> &r, unsigned n_, const char *m) : rg(r), n(n_), mode(m), full_getlast(n_ <= 16) {}

    std::string where(const char *op)
    {
        char t[200];
        snprintf(t, sizeof t, "capacity=%u (%s) head=%d tail=%d model_len=%zu after %s", n, mode, rg.head_index(), rg.tail_index(), model.size(), op);
        return t;
    }
#define TR_FAIL(clause, op, fmt, ...)                                                       \
    do                                                                                      \
    {                                                                                       \
        char key_[120];                                                                     \
        snprintf(key_, sizeof key_, "ring<T>:%s", clause);                                  \
        vf::fail(key_, "%s | " fmt, where(op).c_str(), ##__VA_ARGS__);                      \
    } while (0)

    void check(const char *op)
    {
        int size = (int)n + 1;
        size_t L = model.size();
        int hd = rg.head_index(), tl = rg.tail_index();
        if (hd < 0 || hd >= size || tl < 0 || tl >= size)
            TR_FAIL("index-range", op, "head=%d tail=%d size=%d", hd, tl, size);
        VF_OK("ring<T>: head,tail in [0,size)");
        if (rg.avail() != L)
            TR_FAIL("avail", op, "avail=%u reference=%zu", rg.avail(), L);
        if (rg.room() != n - L)
            TR_FAIL("room", op, "room=%u reference=%zu (n usable slots = %u)", rg.room(), n - L, n);
        if (rg.empty() != (L == 0))
            TR_FAIL("empty", op, "empty=%d", (int)rg.empty());
        VF_OK("ring<T>: avail/room/empty == reference, room()==n when empty");
        if (&rg.head_place() != &rg.get(hd))
            TR_FAIL("head_place", op, "head_place is not slot head_index");
        if (rg.distance(hd, tl) != (int)L)
            TR_FAIL("distance", op, "distance(head,tail)=%d reference=%zu", rg.distance(hd, tl), L);
        VF_OK("ring<T>: distance(head,tail) == |reference|");
        vf::state(vf::mix(vf::mix(2, size), (uint64_t)hd << 20 | tl));
        if (L == 0)
            return;
        if (rg.tail() != model.front())
            TR_FAIL("tail", op, "tail().id=%u reference=%u", rg.tail().id, model.front().id);
        if (rg.index_of(&rg.tail()) != tl)
            TR_FAIL("index_of", op, "index_of(&tail())=%d tail_index=%d", rg.index_of(&rg.tail()), tl);
        VF_OK("ring<T>: tail() == oldest, index_of(&tail()) == tail_index");
        Sample &l = rg.last();
        int li = rg.index_of(&l);
        if (li != (int)mmod(hd - 1, size))
            TR_FAIL("last:slot", op, "last() addresses slot %d, newest element is in slot %ld", li, mmod(hd - 1, size));
        if (l != model.back())
            TR_FAIL("last", op, "last().id=%u reference=%u", l.id, model.back().id);
        VF_OK("ring<T>: last() == newest");
        // every (offset,count) window of the stored elements, both orders
        for (size_t off = 0; off <= L; off++)
            for (size_t cnt = 0; off + cnt <= L; cnt++)
            {
                if (!full_getlast && !(off <= 1 || off + cnt == L || cnt <= 1))
                    continue;
                for (int from_end = 0; from_end < 2; from_end++)
                {
                    std::vector<Sample> v = rg.get_last((int)off, (int)cnt, from_end);
                    if (v.size() != cnt)
                        TR_FAIL("get_last:size", op, "offset=%zu count=%zu -> %zu elements", off, cnt, v.size());
                    for (size_t i = 0; i < cnt; i++)
                    {
                        const Sample &want = from_end ? model[L - 1 - off - i] : model[L - cnt - off + i];
                        if (v[i] != want)
                            TR_FAIL(from_end ? "get_last:from_end" : "get_last:in_order", op, "offset=%zu count=%zu i=%zu: id=%u reference=%u", off, cnt, i,
                                    v[i].id, want.id);
                    }
                }
                VF_OK("ring<T>: get_last(offset,count,order) == reference window");
            }
    }
    void push(uint32_t id, bool emplace)
    {
        Sample s = mk(id);
        if (vf::verbose())
            printf("  %s(id=%u) [head=%d tail=%d]\n", emplace ? "emplace" : "push", id, rg.head_index(), rg.tail_index());
        if (emplace)
            rg.emplace(s);
        else
            rg.push(s);
        model.push_back(s);
        check(emplace ? "emplace" : "push");
    }
    void pop()
    {
        if (vf::verbose())
            printf("  pop [head=%d tail=%d]\n", rg.head_index(), rg.tail_index());
        if (rg.tail() != model.front())
            TR_FAIL("pop:order", "pop", "element leaving has id=%u, reference=%u", rg.tail().id, model.front().id);
        rg.pop();
        model.pop_front();
        VF_OK("ring<T>: pop order == reference (FIFO)");
        check("pop");
    }
    // index arithmetic that depends on the size only
    void check_index_functions()
    {
        int size = (int)n + 1;
        for (int k = -size; k < 2 * size; k++)
        {
            int got = rg.fixup_index(k);
            if (got != (int)mmod(k, size))
                TR_FAIL("fixup_index", "fixup_index", "fixup_index(%d) with size %d = %d, expected %ld", k, size, got, mmod(k, size));
        }
        VF_OK("ring<T>: fixup_index(k) == k mod size for k in [-size, 2*size)");
        for (int a = 0; a < size; a++)
            for (int b = 0; b < size; b++)
                if (rg.distance(a, b) != (int)mmod(a - b, size))
                    TR_FAIL("distance", "distance", "distance(%d,%d) with size %d = %d", a, b, size, rg.distance(a, b));
        VF_OK("ring<T>: distance(a,b) == (a-b) mod size for all slots");
    }
    // one sweep: from every start slot fill to capacity and drain, checking every accessor in every (head,tail)
    void sweep(uint32_t &id)
    {
        for (unsigned round = 0; round <= n; round++)
        {
            for (unsigned i = 0; i < n; i++)
                push(id++, (i + round) & 1);
            if (rg.room() != 0)
                TR_FAIL("room", "fill", "room=%u after %u pushes into %u slots", rg.room(), n, n);
            for (unsigned i = 0; i < n; i++)
                pop();
        }
    }
#undef TR_FAIL
};

static unsigned typed_max() { return vf::thorough() ? 40 : 20; }
enum
{
    TYPED_MODES = 5
};
static uint64_t typed_count() { return (uint64_t)typed_max() * TYPED_MODES; }
static void typed_run(uint64_t idx)
{
    unsigned n = 1 + (unsigned)(idx / TYPED_MODES);
    int mode = idx % TYPED_MODES;
    static const char *MN[TYPED_MODES] = {"ctor(n)", "default+resize(n)", "ctor(n+5),traffic,resize(n)", "ctor(n),traffic,reset()", "ctor(2),resize(n)"};
    char cls[80];
    snprintf(cls, sizeof cls, "typed:%s", mode == 0 ? "ctor" : mode == 3 ? "reset" : "resize");
    vf::cls(cls);
    if (vf::verbose())
        printf("typed ring: n=%u mode=%s\n", n, MN[mode]);
    uint32_t id = 1000 * n;
    igris::ring<Sample> *rp = nullptr;
    switch (mode)
    {
    case 0:
        rp = new igris::ring<Sample>((int)n);
        break;
    case 1:
        rp = new igris::ring<Sample>();
        rp->resize(n);
        break;
    case 2:
        rp = new igris::ring<Sample>((int)n + 5);
        for (unsigned i = 0; i < n + 3; i++)
            rp->push(mk(7));
        rp->pop();
        rp->clear();
        rp->resize(n);
        break;
    case 3:
        rp = new igris::ring<Sample>((int)n);
        for (unsigned i = 0; i < n; i++)
            rp->push(mk(9));
        if (n > 1)
            rp->pop();
        rp->reset();
        break;
    case 4:
        rp = new igris::ring<Sample>(2);
        rp->push(mk(1));
        rp->resize(n);
        break;
    }
    std::unique_ptr<igris::ring<Sample>> holder(rp);
    TypedChk c(*rp, n, MN[mode]);
    c.check("construction");
    if (rp->room() != n)
        vf::fail("ring<T>:room", "%s: room()=%u on the empty ring, %u usable slots requested", MN[mode], rp->room(), n);
    c.check_index_functions();
    c.sweep(id);
    // direct control: set_last_index(i) makes slot i the newest element
    for (int i = 0; i <= (int)n; i++)
    {
        rp->set_last_index(i);
        if (rp->head_index() != (int)mmod(i + 1, n + 1))
            vf::fail("ring<T>:set_last_index", "capacity=%u set_last_index(%d): head_index=%d", n, i, rp->head_index());
        if (&rp->last() != &rp->get(i))
            vf::fail("ring<T>:last:slot", "capacity=%u (%s) after set_last_index(%d): last() addresses slot %d", n, MN[mode], i, rp->index_of(&rp->last()));
        VF_OK("ring<T>: after set_last_index(i), last() is slot i (every head position)");
    }
    VF_MAX("ring<T>: largest capacity", n);
    vf::count_bulk((uint64_t)(n + 1) * 2 * n, (uint64_t)(n + 1) * 2 * n);
    if (n == 9 && mode == 1)
        vf::sample("ring<Sample>: default+resize(9): from each of 10 start slots push/emplace 9, pop 9; tail/last/get_last(all windows)/fixup_index/distance/index_of after every op");
}
VF_SUITE(typed_ring, typed_count, typed_run)

// ---- igris::ring<char> bulk read/write (the typed wrapper around ring_read/ring_write)
static uint64_t tchar_count() { return (uint64_t)typed_max() * 2; }
static void tchar_run(uint64_t idx)
{
    unsigned n = 1 + (unsigned)(idx / 2);
    bool via_resize = idx & 1;
    vf::cls(via_resize ? "typed-char:resize" : "typed-char:ctor");
    igris::ring<char> rg = via_resize ? igris::ring<char>() : igris::ring<char>((int)n);
    if (via_resize)
        rg.resize(n);
    std::deque<uint8_t> model;
    uint8_t ctr = 0xFB;
    static const uint8_t K[4] = {0x00, 0x7F, 0x80, 0xFF};
    uint64_t ops = 0;
    for (unsigned round = 0; round <= n + 1; round++)
        for (unsigned k = 0; k <= n + 2; k++)
        {
            std::vector<uint8_t> d(k);
            for (unsigned i = 0; i < k; i++)
                d[i] = (round & 1) ? K[(i + k) & 3] : ctr++;
            vf::Exact src(d.data(), k, 1);
            size_t room = n - model.size();
            size_t w = rg.write(src.cc(), k);
            if (w != (k < room ? k : room))
                vf::fail("ring<char>:write:count", "capacity=%u head=%d tail=%d write(%u) = %zu, room was %zu", n, rg.head_index(), rg.tail_index(), k, w, room);
            for (size_t i = 0; i < w; i++)
                model.push_back(d[i]);
            if (rg.avail() != model.size() || rg.room() != n - model.size())
                vf::fail("ring<char>:counts", "capacity=%u avail=%u room=%u reference=%zu", n, rg.avail(), rg.room(), model.size());
            // read back all but (round % 2) bytes so the fill level and the positions both vary
            size_t want = model.size() > (round % 2) ? model.size() - (round % 2) : model.size();
            vf::Exact dst(nullptr, want + 1, 0);
            size_t asked = (k & 1) ? want + 1 : want;
            size_t expect = asked < model.size() ? asked : model.size();
            size_t got = rg.read(dst.c(), asked);
            if (got != expect)
                vf::fail("ring<char>:read:count", "capacity=%u head=%d tail=%d read(%zu) = %zu, avail was %zu, first byte %02x", n, rg.head_index(),
                         rg.tail_index(), asked, got, model.size(), model.empty() ? 0 : model.front());
            for (size_t i = 0; i < got; i++)
            {
                if (dst.p[i] != model.front())
                    vf::fail("ring<char>:read:data", "capacity=%u byte %zu: %02x, reference %02x", n, i, dst.p[i], model.front());
                model.pop_front();
            }
            VF_OK("ring<char>: write/read counts and data == reference");
            vf::state(vf::mix(vf::mix(4, n + 1), (uint64_t)rg.head_index() << 20 | rg.tail_index()));
            ops += 2;
        }
    vf::count_bulk(ops, ops);
}
VF_SUITE(typed_char_ring, tchar_count, tchar_run)

// ============================================================================================
// 3. ring_counter and cyclic_buffer
// ============================================================================================
static unsigned cyc_max() { return vf::thorough() ? 64 : 24; }
static uint64_t cyc_count() { return (uint64_t)cyc_max() * 3; }
static void cyc_run(uint64_t idx)
{
    int N = 1 + (int)(idx / 3);
    int mode = idx % 3; // 0: ring_counter functions, 1: cyclic_buffer(N), 2: cyclic_buffer(M) then resize(N)
    if (mode == 0)
    {
        vf::cls("ring_counter");
        ring_counter rc;
        ring_counter_init(&rc, N);
        if (ring_counter_get(&rc) != 0)
            vf::fail("ring_counter:init", "counter=%d after init", ring_counter_get(&rc));
        for (int c = 0; c < N; c++)
        {
            ring_counter_set(&rc, c);
            if (ring_counter_get(&rc) != c)
                vf::fail("ring_counter:set", "size=%d set(%d) -> %d", N, c, ring_counter_get(&rc));
            for (int i = 0; i <= 3 * N; i++)
            {
                int p = ring_counter_prev(&rc, i);
                if (p != (int)mmod(c - i, N))
                    vf::fail("ring_counter:prev", "size=%d counter=%d prev(%d) = %d, expected %ld", N, c, i, p, mmod(c - i, N));
            }
            VF_OK("ring_counter: prev(i) == (counter-i) mod size, i in [0,3*size]");
            for (int no = -2 * N; no <= 3 * N; no++)
            {
                int p = ring_counter_last(&rc, no);
                if (p != (int)mmod(c - no, N))
                    vf::fail("ring_counter:last", "size=%d counter=%d last(%d) = %d, expected %ld", N, c, no, p, mmod(c - no, N));
            }
            VF_OK("ring_counter: last(no) == (counter-no) mod size");
            for (int arg = 0; arg <= 2 * N; arg++)
            {
                ring_counter t = rc;
                ring_counter_increment(&t, arg);
                if (ring_counter_get(&t) != (int)mmod(c + arg, N))
                    vf::fail("ring_counter:increment", "size=%d counter=%d increment(%d) -> %d", N, c, arg, ring_counter_get(&t));
            }
            VF_OK("ring_counter: increment wraps into [0,size)");
            vf::state(vf::mix(vf::mix(5, N), c));
        }
        for (int pos = -3 * N; pos <= 3 * N; pos++)
        {
            int p = ring_counter_fixup_pos(&rc, pos);
            if (p != (int)mmod(pos, N))
                vf::fail("ring_counter:fixup_pos", "size=%d fixup_pos(%d) = %d, expected %ld", N, pos, p, mmod(pos, N));
        }
        VF_OK("ring_counter: fixup_pos(p) == p mod size, p in [-3*size,3*size]");
        for (int v = 0; v < 3 * N; v++)
        {
            ring_counter_set(&rc, v);
            if (ring_counter_get(&rc) != v % N)
                vf::fail("ring_counter:set", "size=%d set(%d) -> %d", N, v, ring_counter_get(&rc));
        }
        vf::count_bulk((uint64_t)N * (8 * N + 4), (uint64_t)N * (8 * N + 4));
        return;
    }
    vf::cls(mode == 1 ? "cyclic_buffer:ctor" : "cyclic_buffer:resize");
    std::unique_ptr<igris::cyclic_buffer<Sample>> cb;
    if (mode == 1)
        cb.reset(new igris::cyclic_buffer<Sample>(N));
    else
    {
        int M = N % 2 ? N + 3 : (N > 2 ? N - 2 : N + 1);
        cb.reset(new igris::cyclic_buffer<Sample>(M));
        for (int i = 0; i < M + 1; i++)
            cb->push(mk(5));
        cb->resize(N);
    }
    std::deque<Sample> model; // newest first
    if (cb->size() != 0)
        vf::fail("cyclic_buffer:size", "N=%d (%s): size()=%zu before the first push", N, mode == 1 ? "ctor" : "after resize", cb->size());
    uint32_t id = 77 * N;
    for (int step = 0; step < 3 * N + 2; step++)
    {
        Sample s = mk(id++);
        if (vf::verbose())
            printf("  push(id=%u) counter=%d\n", s.id, cb->counter.counter);
        Sample ret = cb->push(s);
        bool was_full = (int)model.size() == N;
        if (was_full)
        {
            if (ret != model.back())
                vf::fail("cyclic_buffer:push:overwritten", "N=%d step=%d: push returned id=%u, overwritten sample is id=%u", N, step, ret.id, model.back().id);
            model.pop_back();
            VF_OK("cyclic_buffer: push on a full buffer returns the overwritten (oldest) sample");
        }
        model.push_front(s);
        if (cb->size() != model.size())
            vf::fail("cyclic_buffer:size", "N=%d step=%d: size()=%zu reference=%zu", N, step, cb->size(), model.size());
        VF_OK("cyclic_buffer: size() == min(pushed, capacity)");
        const igris::cyclic_buffer<Sample> &ccb = *cb;
        for (int i = 0; i < (int)model.size(); i++)
        {
            Sample a = (*cb)[i], b = ccb[i];
            if (a != model[i] || b != model[i])
                vf::fail("cyclic_buffer:index", "N=%d counter=%d: [%d] has id=%u (const: %u), %d-th previous sample is id=%u", N, cb->counter.counter, i, a.id,
                         b.id, i, model[i].id);
        }
        VF_OK("cyclic_buffer: [i] == i-th previous sample for every i < size()");
        if (cb->counter.counter < 0 || cb->counter.counter >= N)
            vf::fail("cyclic_buffer:counter-range", "N=%d counter=%d", N, cb->counter.counter);
        vf::state(vf::mix(vf::mix(6, N), (uint64_t)cb->counter.counter << 20 | model.size()));
    }
    VF_MAX("cyclic_buffer: largest size", N);
    vf::count_bulk(3 * N + 2, 3 * N + 2);
    if (N == 7 && mode == 1)
        vf::sample("cyclic_buffer<Sample>(7): 23 pushes, after each: returned sample, size(), [0..size) const and non-const vs deque");
}
VF_SUITE(cyclic, cyc_count, cyc_run)

// ---- zero-copy producer / consumer across the other side's operation (C ring)
// producer: takes the head index, (consumer reads meanwhile), fills the reserved slots at the recorded index, commits
// with ring_move_head. consumer: takes the tail index, (producer writes meanwhile), looks at the slots, releases.
static uint64_t zc_count() { return vf::thorough() ? 30 : 14; }
static void zc_run(uint64_t idx)
{
    unsigned size = 2 + (unsigned)idx;
    vf::cls("cring-zero-copy");
    uint8_t ctr = 0xF1;
    uint64_t n = 0;
    for (unsigned start = 0; start < size; start++)         // head == tail == start, then `pre` bytes stored
        for (unsigned pre = 0; pre <= size - 1; pre++)
            for (unsigned rd = 0; rd <= pre + 1; rd++)      // how much the consumer reads meanwhile (incl. draining and over-long)
                for (unsigned m = 1; m <= size - 1 - pre + (rd < pre ? rd : pre); m += (size > 9 ? 3 : 1)) // reserved block, fits after the read
                {
                    vf::Exact buf(nullptr, size, 3);
                    ring_head r;
                    ring_init(&r, size);
                    ring_move_head(&r, start);
                    ring_move_tail(&r, start);
                    std::deque<uint8_t> model;
                    for (unsigned i = 0; i < pre; i++)
                    {
                        uint8_t b = ctr++;
                        ring_putc(&r, buf.c(), (char)b);
                        model.push_back(b);
                    }
                    unsigned reserved = r.head; // producer reserves at the head ...
                    std::vector<char> out(rd + 1);
                    int got = ring_read(&r, buf.cc(), out.data(), rd); // ... the consumer reads ...
                    for (int i = 0; i < got; i++)
                    {
                        if ((uint8_t)out[i] != model.front())
                            vf::fail("cring:zero-copy:read:data", "size=%u start=%u stored=%u read(%u): byte %d is %02x, reference %02x", size, start, pre, rd, i, (uint8_t)out[i],
                                     model.front());
                        model.pop_front();
                    }
                    if (m > size - 1 - model.size())
                        continue;
                    for (unsigned i = 0; i < m; i++) // ... the producer fills at the recorded index and commits
                    {
                        uint8_t b = ctr++;
                        buf.p[(reserved + i) % size] = b;
                        model.push_back(b);
                    }
                    ring_move_head(&r, m);
                    if (ring_avail(&r) != model.size())
                        vf::fail("cring:zero-copy:avail", "size=%u start=%u stored=%u read(%u) commit(%u): avail=%u reference=%zu", size, start, pre, rd, m, ring_avail(&r), model.size());
                    std::vector<char> back(size);
                    int n2 = ring_read(&r, buf.cc(), back.data(), size);
                    if ((size_t)n2 != model.size())
                        vf::fail("cring:zero-copy:read:count", "size=%u start=%u stored=%u read(%u) commit(%u): final read = %d, reference %zu", size, start, pre, rd, m, n2, model.size());
                    for (int i = 0; i < n2; i++)
                        if ((uint8_t)back[i] != model[i])
                            vf::fail("cring:zero-copy:data", "size=%u start=%u stored=%u, head index %u recorded, read(%u)=%d, %u bytes filled at the recorded index and committed: "
                                                              "byte %d reads back %02x, written %02x",
                                     size, start, pre, reserved, rd, got, m, i, (uint8_t)back[i], model[i]);
                    VF_OK("cring: zero-copy producer (reserve at head, concurrent read, fill, commit) reads back intact");
                    n++;
                }
    vf::count_bulk(n, n);
}
VF_SUITE(cring_zero_copy, zc_count, zc_run)

// ============================================================================================
// 4. histories in which re-initialising members are ordinary operations
//    (resize up/down/same, reset, clear on igris::ring; ring_init with another size/buffer on the C ring;
//    cyclic_buffer::resize; ring_counter_init) followed by continued use. Capacity of the reference follows
//    DESIGN 3a: ring(n) / resize(n) = n usable slots, the ring is empty afterwards; reset()/clear() empty the
//    ring and keep the capacity.
// ============================================================================================
static int hist_len() { return vf::thorough() ? 6 : 5; }
static uint64_t ipow(uint64_t b, int e)
{
    uint64_t r = 1;
    while (e-- > 0)
        r *= b;
    return r;
}

// ---- igris::ring<Sample>
static const unsigned TCAPS[4] = {1, 2, 3, 5}; // resize targets
enum
{
    TH_PUSH,
    TH_EMPLACE,
    TH_POP,
    TH_HEAD, // write head_place() directly, then move_head_one()
    TH_TAIL, // move_tail_one()
    TH_RESIZE0,
    TH_RESIZE1,
    TH_RESIZE2,
    TH_RESIZE3,
    TH_RESET,
    TH_CLEAR,
    TH_N
};
static const char *THNAME[TH_N] = {"push", "emplace", "pop", "head_place+move_head_one", "move_tail_one", "resize(1)", "resize(2)", "resize(3)", "resize(5)", "reset", "clear"};
struct TypedHist
{
    std::unique_ptr<igris::ring<Sample>> rg;
    std::unique_ptr<TypedChk> c;
    std::string hist;
    uint32_t id = 1;
    // start: 0 ring(4); 1 ring(1); 2 ring() + resize(3); 3 ring(6) with traffic
    explicit TypedHist(int start)
    {
        static const char *SN[4] = {"ring(4)", "ring(1)", "ring()+resize(3)", "ring(6)+4 push+2 pop"};
        hist = SN[start];
        unsigned n = start == 0 ? 4 : start == 1 ? 1 : start == 2 ? 3 : 6;
        if (start == 2)
        {
            rg.reset(new igris::ring<Sample>());
            rg->resize(3);
        }
        else
            rg.reset(new igris::ring<Sample>((int)n));
        c.reset(new TypedChk(*rg, n, hist.c_str()));
        c->check("construction");
        if (start == 3)
        {
            for (int i = 0; i < 4; i++)
                c->push(id++, false);
            c->pop();
            c->pop();
        }
    }
    void recap(unsigned n)
    {
        c->n = n;
        c->full_getlast = n <= 16;
        c->model.clear();
    }
    void op(int o)
    {
        hist += ' ';
        hist += THNAME[o];
        c->mode = hist.c_str();
        if (vf::verbose())
            printf("  %s\n", THNAME[o]);
        bool full = c->model.size() == c->n, empty = c->model.empty();
        switch (o)
        {
        case TH_PUSH:
        case TH_EMPLACE:
            if (full)
            { // push on a full typed ring is outside the contract: the ring must report that it is full
                if (rg->room() != 0)
                    vf::fail("ring<T>:room", "%s | full ring (capacity %u) reports room()=%u", hist.c_str(), c->n, rg->room());
                VF_OK("ring<T> history: a full ring reports room()==0");
            }
            else
                c->push(id++, o == TH_EMPLACE);
            break;
        case TH_POP:
            if (!empty)
                c->pop();
            break;
        case TH_HEAD:
            if (!full)
            {
                Sample s = mk(id++);
                rg->head_place() = s;
                rg->move_head_one();
                c->model.push_back(s);
                c->check("move_head_one");
            }
            break;
        case TH_TAIL:
            if (!empty)
            {
                rg->move_tail_one();
                c->model.pop_front();
                c->check("move_tail_one");
            }
            break;
        case TH_RESIZE0:
        case TH_RESIZE1:
        case TH_RESIZE2:
        case TH_RESIZE3:
            rg->resize(TCAPS[o - TH_RESIZE0]);
            recap(TCAPS[o - TH_RESIZE0]);
            c->check("resize");
            VF_OK("ring<T> history: after resize(k) the ring is empty with room()==k");
            break;
        case TH_RESET:
            rg->reset();
            c->model.clear();
            c->check("reset");
            VF_OK("ring<T> history: after reset() the ring is empty with room()==capacity");
            break;
        case TH_CLEAR:
            rg->clear();
            c->model.clear();
            c->check("clear");
            break;
        }
    }
};
static uint64_t thist_count() { return 4ull * TH_N * TH_N; }
static void thist_run(uint64_t idx)
{
    int start = idx % 4, a = (idx / 4) % TH_N, b = (idx / 4 / TH_N) % TH_N;
    vf::cls("typed-history");
    int rest = hist_len() - 2;
    uint64_t total = ipow(TH_N, rest);
    for (uint64_t h = 0; h < total; h++)
    {
        TypedHist t(start);
        t.op(a);
        t.op(b);
        uint64_t x = h;
        for (int i = 0; i < rest; i++, x /= TH_N)
            t.op((int)(x % TH_N));
        // continued use: fill to the brim and drain
        while (t.c->model.size() < t.c->n)
            t.c->push(t.id++, false);
        if (t.rg->room() != 0)
            vf::fail("ring<T>:room", "%s | filled to capacity %u, room()=%u", t.hist.c_str(), t.c->n, t.rg->room());
        while (!t.c->model.empty())
            t.c->pop();
        if (h == 7 && idx == 150 && vf::want_sample())
            vf::sample("typed history: %s, then fill to capacity and drain", t.hist.c_str());
    }
    VF_OK("ring<T> history: every short history over push/pop/moves/resize/reset/clear, then fill and drain");
    vf::count_bulk(total, total);
}
VF_SUITE(typed_history, thist_count, thist_run)

static uint64_t thrand_count() { return vf::thorough() ? 20000 : 300; }
static void thrand_run(uint64_t idx)
{
    vf::cls("typed-history-random");
    vf::Rng rg(vf::seed(), 0xC031, idx);
    TypedHist t((int)(idx % 4));
    uint64_t h = idx % 4;
    for (int step = 0; step < 300; step++)
    {
        int r = (int)rg.below(100), o;
        if (r < 8 && !t.c->model.empty() && t.c->model.size() < t.c->n)
        { // self-aliasing argument: push a reference to the ring's own oldest / newest element
            bool oldest = rg.chance(1, 2);
            Sample want = oldest ? t.c->model.front() : t.c->model.back();
            t.hist += oldest ? " push(tail())" : " push(last())";
            t.c->mode = t.hist.c_str();
            if (oldest)
                t.rg->push(t.rg->tail());
            else
                t.rg->push(t.rg->last());
            t.c->model.push_back(want);
            t.c->check("push(own element)");
            VF_OK("ring<T> history: push of a reference to the ring's own element stores that element");
            h = vf::mix(h, 50 + oldest);
            continue;
        }
        if (r < 30)
            o = rg.chance(1, 2) ? TH_PUSH : TH_EMPLACE;
        else if (r < 50)
            o = TH_POP;
        else if (r < 62)
            o = TH_HEAD;
        else if (r < 72)
            o = TH_TAIL;
        else if (r < 84)
        { // resize to any capacity 1..12 (up, down, same)
            unsigned k = 1 + (unsigned)rg.below(12);
            t.hist += " resize(" + std::to_string(k) + ")";
            if (t.hist.size() > 700)
                t.hist.erase(0, t.hist.size() - 500);
            t.c->mode = t.hist.c_str();
            t.rg->resize(k);
            t.recap(k);
            t.c->check("resize");
            h = vf::mix(h, 100 + k);
            continue;
        }
        else if (r < 94)
            o = TH_RESET;
        else
            o = TH_CLEAR;
        if (t.hist.size() > 700)
            t.hist.erase(0, t.hist.size() - 500);
        t.op(o);
        h = vf::mix(h, o);
    }
    vf::count_case(h, true);
}
VF_SUITE(typed_history_random, thrand_count, thrand_run)

// ---- igris::ring<char>: bulk write/read with rejection on a full ring, across resize / reset / clear
enum
{
    CH_W1,
    CH_W9, // longer than any capacity used: must stop at full
    CH_R1,
    CH_R9,
    CH_RESIZE1,
    CH_RESIZE2,
    CH_RESIZE4,
    CH_RESET,
    CH_CLEAR,
    CH_N
};
static const char *CHNAME[CH_N] = {"write(1)", "write(9)", "read(1)", "read(9)", "resize(1)", "resize(2)", "resize(4)", "reset", "clear"};
struct CharHist
{
    std::unique_ptr<igris::ring<char>> rg;
    std::deque<uint8_t> model;
    unsigned n;
    uint8_t ctr = 0xFC;
    std::string hist;
    explicit CharHist(int start)
    {
        static const char *SN[3] = {"ring<char>(5)", "ring<char>(1)", "ring<char>()+resize(3)"};
        hist = SN[start];
        n = start == 0 ? 5 : start == 1 ? 1 : 3;
        if (start == 2)
        {
            rg.reset(new igris::ring<char>());
            rg->resize(3);
        }
        else
            rg.reset(new igris::ring<char>((int)n));
        counts("construction");
    }
    void counts(const char *op)
    {
        if (rg->avail() != model.size() || rg->room() != n - model.size() || rg->avail() + rg->room() != n)
            vf::fail("ring<char>:counts", "%s | after %s: avail=%u room=%u, reference %zu of capacity %u", hist.c_str(), op, rg->avail(), rg->room(), model.size(), n);
        if (rg->head_index() < 0 || rg->head_index() > (int)n || rg->tail_index() < 0 || rg->tail_index() > (int)n)
            vf::fail("ring<char>:index-range", "%s | after %s: head=%d tail=%d capacity %u", hist.c_str(), op, rg->head_index(), rg->tail_index(), n);
        if (rg->empty() != model.empty())
            vf::fail("ring<char>:empty", "%s | after %s: empty()=%d reference %zu", hist.c_str(), op, (int)rg->empty(), model.size());
        VF_OK("ring<char> history: avail+room == capacity, counts == reference after every op");
        vf::state(vf::mix(vf::mix(7, n + 1), (uint64_t)rg->head_index() << 20 | rg->tail_index()));
    }
    void write(unsigned k)
    {
        std::vector<uint8_t> d(k);
        for (auto &x : d)
            x = ctr++;
        vf::Exact src(d.data(), k, 1);
        size_t room = n - model.size();
        int h0 = rg->head_index(), t0 = rg->tail_index();
        size_t w = rg->write(src.cc(), k);
        if (w != (k < room ? k : room))
            vf::fail(room == 0 ? "ring<char>:write:full-not-rejected" : "ring<char>:write:count", "%s | write(%u) = %zu, room was %zu of capacity %u", hist.c_str(), k, w, room, n);
        if (room == 0 && (rg->head_index() != h0 || rg->tail_index() != t0))
            vf::fail("ring<char>:write:full-not-rejected", "%s | rejected write moved head/tail", hist.c_str());
        if (rg->tail_index() != t0)
            vf::fail("ring<char>:write-moved-tail", "%s | write(%u) moved the tail %d -> %d", hist.c_str(), k, t0, rg->tail_index());
        if (room == 0)
            VF_OK("ring<char> history: a full ring rejects writes, state unchanged");
        for (size_t i = 0; i < w; i++)
            model.push_back(d[i]);
    }
    void read(unsigned k)
    {
        vf::Exact dst(nullptr, k, 0);
        size_t av = model.size();
        int h0 = rg->head_index();
        size_t got = rg->read(dst.c(), k);
        if (got != (k < av ? k : av))
            vf::fail("ring<char>:read:count", "%s | read(%u) = %zu, avail was %zu", hist.c_str(), k, got, av);
        if (rg->head_index() != h0)
            vf::fail("ring<char>:read-moved-head", "%s | read(%u) moved the head %d -> %d", hist.c_str(), k, h0, rg->head_index());
        VF_OK("ring<char> history: read leaves head_index unchanged, write leaves tail_index unchanged");
        for (size_t i = 0; i < got; i++)
        {
            if (dst.p[i] != model.front())
                vf::fail("ring<char>:read:data", "%s | byte %zu: %02x, reference %02x", hist.c_str(), i, dst.p[i], model.front());
            model.pop_front();
        }
        VF_OK("ring<char> history: data out == data in (FIFO)");
    }
    void op(int o)
    {
        hist += ' ';
        hist += CHNAME[o];
        if (hist.size() > 700)
            hist.erase(0, hist.size() - 500);
        if (vf::verbose())
            printf("  %s\n", CHNAME[o]);
        switch (o)
        {
        case CH_W1:
            write(1);
            break;
        case CH_W9:
            write(9);
            break;
        case CH_R1:
            read(1);
            break;
        case CH_R9:
            read(9);
            break;
        case CH_RESIZE1:
        case CH_RESIZE2:
        case CH_RESIZE4:
            n = o == CH_RESIZE1 ? 1 : o == CH_RESIZE2 ? 2 : 4;
            rg->resize(n);
            model.clear();
            break;
        case CH_RESET:
            rg->reset();
            model.clear();
            break;
        case CH_CLEAR:
            rg->clear();
            model.clear();
            break;
        }
        counts(CHNAME[o]);
    }
};
static uint64_t chist_count() { return 3ull * CH_N * CH_N; }
static void chist_run(uint64_t idx)
{
    int start = idx % 3, a = (idx / 3) % CH_N, b = (idx / 3 / CH_N) % CH_N;
    vf::cls("typed-char-history");
    int rest = hist_len() - 2;
    uint64_t total = ipow(CH_N, rest);
    for (uint64_t h = 0; h < total; h++)
    {
        CharHist t(start);
        t.op(a);
        t.op(b);
        uint64_t x = h;
        for (int i = 0; i < rest; i++, x /= CH_N)
            t.op((int)(x % CH_N));
        t.op(CH_W9); // continued use: fill to the brim, one more write must be rejected, drain
        t.op(CH_W1);
        t.op(CH_R9);
    }
    VF_OK("ring<char> history: every short history over write/read/resize/reset/clear, then fill, reject, drain");
    vf::count_bulk(total, total);
    if (idx < 300)
    { // plus one random long history per case
        vf::Rng rg(vf::seed(), 0xC032, idx);
        CharHist t(start);
        for (int step = 0; step < 400; step++)
        {
            int r = (int)rg.below(100);
            t.op(r < 25 ? CH_W1 : r < 40 ? CH_W9 : r < 60 ? CH_R1 : r < 70 ? CH_R9 : r < 76 ? CH_RESIZE1 : r < 82 ? CH_RESIZE2 : r < 88 ? CH_RESIZE4 : r < 95 ? CH_RESET : CH_CLEAR);
        }
    }
}
VF_SUITE(typed_char_history, chist_count, chist_run)

// ---- C ring: ring_init on a used ring with another size and another (exactly sized) buffer
static const unsigned CSIZES[3] = {2, 3, 5};
enum
{
    CI_PUTC,
    CI_GETC,
    CI_WRITE9,
    CI_READ9,
    CI_MOVE_HEAD2,
    CI_MOVE_TAIL2,
    CI_INIT0,
    CI_INIT1,
    CI_INIT2,
    CI_CLEAN,
    CI_N
};
static void cinit_op(CRing &ring, int o, uint8_t &ctr, bool mirror)
{
    uint8_t d[9];
    for (auto &x : d)
        x = ctr++;
    unsigned avail = (unsigned)ring.model.size(), room = ring.cap() - avail;
    switch (o)
    {
    case CI_PUTC:
        ring.apply(OP_PUTC, 0, d);
        break;
    case CI_GETC:
        ring.apply(OP_GETC, 0, d);
        break;
    case CI_WRITE9:
        ring.apply(OP_WRITE, 9, d);
        break;
    case CI_READ9:
        ring.apply(OP_READ, 9, d);
        break;
    case CI_MOVE_HEAD2:
        ring.apply(OP_MOVE_HEAD, room < 2 ? room : 2, d);
        break;
    case CI_MOVE_TAIL2:
        ring.apply(OP_MOVE_TAIL, avail < 2 ? avail : 2, d);
        break;
    case CI_INIT0:
    case CI_INIT1:
    case CI_INIT2:
    { // re-initialise the same ring_head for another size over a fresh buffer of exactly that size
        unsigned ns = CSIZES[o - CI_INIT0];
        ring.size = ns;
        ring.buf.init(nullptr, ns, mirror ? 5 : 3, mirror);
        ring_init(&ring.r, ns);
        ring.model.clear();
        if (ring.keep_trace)
            ring.trace += " ring_init(size " + std::to_string(ns) + ")";
        ring.check_state("init", ns);
        VF_OK("cring history: ring_init with another size on a used ring gives an empty ring of that size");
        break;
    }
    case CI_CLEAN:
        ring.apply(OP_CLEAN, 0, d);
        break;
    }
}
static uint64_t cinit_count() { return 2ull * 3 * CI_N * CI_N; }
static void cinit_run(uint64_t idx)
{
    bool mirror = idx & 1;
    unsigned s0 = CSIZES[(idx / 2) % 3];
    int a = (idx / 6) % CI_N, b = (idx / 6 / CI_N) % CI_N;
    vf::cls("cring-reinit-history");
    int rest = hist_len() - 2;
    uint64_t total = ipow(CI_N, rest);
    uint8_t ctr = 0xF7;
    for (uint64_t h = 0; h < total; h++)
    {
        CRing ring(s0, mirror, true);
        cinit_op(ring, a, ctr, mirror);
        cinit_op(ring, b, ctr, mirror);
        uint64_t x = h;
        for (int i = 0; i < rest; i++, x /= CI_N)
            cinit_op(ring, (int)(x % CI_N), ctr, mirror);
        cinit_op(ring, CI_WRITE9, ctr, mirror); // continued use: fill, reject, drain
        cinit_op(ring, CI_PUTC, ctr, mirror);
        cinit_op(ring, CI_READ9, ctr, mirror);
    }
    vf::count_bulk(total, total);
}
VF_SUITE(cring_reinit_history, cinit_count, cinit_run)

// ---- cyclic_buffer::resize and ring_counter_init as operations
enum
{
    CY_PUSH,
    CY_PUSH2,
    CY_RESIZE1,
    CY_RESIZE2,
    CY_RESIZE3,
    CY_RESIZE5,
    CY_N
};
static uint64_t cyhist_count() { return 3ull * CY_N * CY_N; }
static void cyhist_run(uint64_t idx)
{
    static const int CYS[4] = {1, 2, 3, 5};
    int N0 = idx % 3 == 0 ? 1 : idx % 3 == 1 ? 3 : 4, a = (idx / 3) % CY_N, b = (idx / 3 / CY_N) % CY_N;
    vf::cls("cyclic-history");
    int rest = hist_len() - 1;
    uint64_t total = ipow(CY_N, rest - 1);
    uint32_t id = 1;
    for (uint64_t h = 0; h < total; h++)
    {
        igris::cyclic_buffer<Sample> cb(N0);
        ring_counter rc; // driven in lock step: init on resize, increment on push
        ring_counter_init(&rc, N0);
        int N = N0;
        std::deque<Sample> model; // newest first
        std::string hist = "cyclic_buffer(" + std::to_string(N0) + ")";
        auto check = [&](const char *op) {
            if (cb.size() != model.size())
                vf::fail("cyclic_buffer:size", "%s | after %s: size()=%zu reference=%zu (capacity %d)", hist.c_str(), op, cb.size(), model.size(), N);
            const igris::cyclic_buffer<Sample> &ccb = cb;
            for (int i = 0; i < (int)model.size(); i++)
                if (cb[i] != model[i] || ccb[i] != model[i])
                    vf::fail("cyclic_buffer:index", "%s | after %s: [%d] has id=%u, %d-th previous sample is id=%u", hist.c_str(), op, i, cb[i].id, i, model[i].id);
            if (cb.counter.counter < 0 || cb.counter.counter >= N || cb.counter.size != N)
                vf::fail("cyclic_buffer:counter-range", "%s | after %s: counter=%d size=%d capacity %d", hist.c_str(), op, cb.counter.counter, cb.counter.size, N);
            if (ring_counter_get(&rc) != cb.counter.counter)
                vf::fail("ring_counter:lockstep", "%s | after %s: free-standing ring_counter at %d, buffer's at %d", hist.c_str(), op, ring_counter_get(&rc), cb.counter.counter);
            for (int i = 0; i <= 2 * N; i++)
                if (ring_counter_prev(&rc, i) != (int)mmod(ring_counter_get(&rc) - i, N) || ring_counter_last(&rc, i) != (int)mmod(ring_counter_get(&rc) - i, N))
                    vf::fail("ring_counter:prev", "%s | after %s: size=%d counter=%d prev(%d)=%d", hist.c_str(), op, N, ring_counter_get(&rc), i, ring_counter_prev(&rc, i));
            VF_OK("cyclic history: size(), [i], counter range == reference after every op incl. resize");
            vf::state(vf::mix(vf::mix(8, N), (uint64_t)cb.counter.counter << 20 | model.size()));
        };
        auto op = [&](int o) {
            static const char *NM[CY_N] = {"push", "push x2", "resize(1)", "resize(2)", "resize(3)", "resize(5)"};
            hist += ' ';
            hist += NM[o];
            if (vf::verbose())
                printf("  %s\n", NM[o]);
            if (o <= CY_PUSH2)
                for (int k = 0; k <= o; k++)
                {
                    Sample s = mk(id++);
                    Sample ret = cb.push(s);
                    ring_counter_increment(&rc, 1);
                    if ((int)model.size() == N)
                    {
                        if (ret != model.back())
                            vf::fail("cyclic_buffer:push:overwritten", "%s | push returned id=%u, overwritten sample is id=%u", hist.c_str(), ret.id, model.back().id);
                        model.pop_back();
                    }
                    model.push_front(s);
                    check("push");
                }
            else
            {
                N = CYS[o - CY_RESIZE1];
                cb.resize(N);
                ring_counter_init(&rc, N);
                model.clear();
                check("resize");
            }
        };
        op(a);
        op(b);
        uint64_t x = h;
        for (int i = 0; i < rest - 1; i++, x /= CY_N)
            op((int)(x % CY_N));
        for (int i = 0; i < N + 1; i++) // continued use: more than one full turn
            op(CY_PUSH);
    }
    vf::count_bulk(total, total);
}
VF_SUITE(cyclic_history, cyhist_count, cyhist_run)

extern "C" void vf_setup()
{
    for (const char *c :
         {"cring: head,tail in [0,size)", "cring: avail == |reference|", "cring: room == capacity - |reference|", "cring: avail + room == size-1",
          "cring: empty == reference empty", "cring: full == reference full", "cring: live content == reference, in order",
          "cring: ring_for_each visits exactly the live elements", "cring: putc on a full ring returns 0, state unchanged", "cring: putc with room returns 1",
          "cring: getc on an empty ring returns -1, state unchanged", "cring: getc returns the oldest byte, distinguishable from empty",
          "cring: write to a full ring returns 0, state unchanged", "cring: write returns min(len, room)", "cring: read from an empty ring returns 0, state unchanged",
          "cring: read returns min(len, avail) bytes == reference", "cring: bulk/single head move publishes directly written slots",
          "cring: bulk/single tail move releases the oldest slots", "cring: backing buffer changed only in the written slots",
          "cring: BFS reached all size^2 (head,tail) states, every op from each", "ring<T>: head,tail in [0,size)",
          "ring<T>: avail/room/empty == reference, room()==n when empty", "ring<T>: distance(head,tail) == |reference|",
          "ring<T>: tail() == oldest, index_of(&tail()) == tail_index", "ring<T>: last() == newest", "ring<T>: get_last(offset,count,order) == reference window",
          "ring<T>: pop order == reference (FIFO)", "ring<T>: fixup_index(k) == k mod size for k in [-size, 2*size)",
          "ring<T>: distance(a,b) == (a-b) mod size for all slots", "ring<T>: after set_last_index(i), last() is slot i (every head position)",
          "ring<char>: write/read counts and data == reference", "ring_counter: prev(i) == (counter-i) mod size, i in [0,3*size]",
          "ring_counter: last(no) == (counter-no) mod size", "ring_counter: increment wraps into [0,size)",
          "ring_counter: fixup_pos(p) == p mod size, p in [-3*size,3*size]", "cyclic_buffer: push on a full buffer returns the overwritten (oldest) sample",
          "cyclic_buffer: size() == min(pushed, capacity)", "cyclic_buffer: [i] == i-th previous sample for every i < size()",
          "ring<T> history: a full ring reports room()==0", "ring<T> history: after resize(k) the ring is empty with room()==k",
          "ring<T> history: after reset() the ring is empty with room()==capacity",
          "ring<T> history: every short history over push/pop/moves/resize/reset/clear, then fill and drain",
          "ring<char> history: avail+room == capacity, counts == reference after every op", "ring<char> history: a full ring rejects writes, state unchanged",
          "ring<char> history: data out == data in (FIFO)", "ring<char> history: every short history over write/read/resize/reset/clear, then fill, reject, drain",
          "cring history: ring_init with another size on a used ring gives an empty ring of that size",
          "cyclic history: size(), [i], counter range == reference after every op incl. resize",
          "ring<T> history: push of a reference to the ring's own element stores that element",
          "cring: read/getc/move_tail leave head unchanged, write/putc/move_head leave tail unchanged",
          "ring<char> history: read leaves head_index unchanged, write leaves tail_index unchanged",
          "cring: zero-copy producer (reserve at head, concurrent read, fill, commit) reads back intact",
          "unwritten slots: unbounded_array(n) / resize(n) value-initialise every element", "unwritten slots: cyclic_buffer first lap evicts T{}, [i] beyond the pushes is T{}",
          "unwritten slots: igris::ring slots and get_last past the written part are T{}",
          "large cring: size, index range, avail/room/empty/full == reference", "large cring: live content == position-dependent pattern",
          "large cring: bulk read returns the written bytes in order", "large cring: bulk head/tail moves from every boundary slot with every boundary bias",
          "large ring<char>: room()==n when empty, avail/room == reference", "large ring<T>: counts, distance, tail/last/get_last at boundary offsets == reference",
          "large cyclic_buffer / ring_counter: [i], prev, last, fixup_pos at boundary offsets == reference",
          "cyclic_buffer<non-trivial T>: size(), [i] == reference after every push", "cyclic_buffer<non-trivial T>: push returns the overwritten sample",
          "cyclic_buffer<non-trivial T>: push(cb[i]) of its own i-th sample stores that sample",
          "cyclic_buffer<non-trivial T>: evicted / moved-from / rvalue arguments and rotation through itself",
          "cyclic_buffer<Tracked>: no element constructed over a live one, assigned to or read from raw storage, or left undestroyed"})
        vf::require(c);
}
