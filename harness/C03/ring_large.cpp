// C03 (second TU, compiled in parallel with ring.cpp): large rings around the 2^15 / 2^16 index boundaries,
// and cyclic_buffer with non-trivial element types and self-aliasing arguments.
#include "vf.h"
#include "guard.h"
#include "tracked.h"
#include <deque>
#include <memory>
#include <new>
#include <string>
#include <type_traits>
#include <vector>
#include <igris/container/cyclic_buffer.h>
#include <igris/container/ring.h>
#include <igris/datastruct/ring.h>
#include <igris/datastruct/ring_counter.h>

static inline long mmod(long a, long n)
{
    long m = a % n;
    return m < 0 ? m + n : m;
}

// ============================================================================================
// 5. large rings: sizes around the 2^15 / 2^16 index boundaries and beyond, reduced workload
//    (bulk moves / writes / reads that cross the wrap and those boundaries; position-dependent byte pattern;
//    the reference queue is a pair of stream positions W (written) and R (read), capacity size-1)
// ============================================================================================
static const unsigned LSIZES[] = {32767, 32768, 32769, 50000, 65535, 65536, 65537, 100000, (1u << 20) + 3};
enum
{
    NLSIZES = sizeof LSIZES / sizeof *LSIZES
};
static inline uint8_t lpat(uint64_t pos) { return (uint8_t)(pos * 167 + (pos >> 8) * 13 + (pos >> 16) * 5 + 0x5B); }

struct LargeCRing
{
    unsigned size;
    ring_head r;
    vf::Exact buf;
    uint64_t W = 0, R = 0;
    std::string trace;
    LargeCRing(unsigned sz, bool mirror) : size(sz)
    {
        buf.init(nullptr, sz, mirror ? 5 : 3, mirror);
        ring_init(&r, sz);
        chk("ring_init");
    }
    [[noreturn]] void bad(const char *clause, const char *fmt, ...) __attribute__((format(printf, 3, 4)))
    {
        char key[120], det[500];
        snprintf(key, sizeof key, "cring-large:%s", clause);
        va_list ap;
        va_start(ap, fmt);
        vsnprintf(det, sizeof det, fmt, ap);
        va_end(ap);
        vf::fail(key, "size=%u head=%u tail=%u r.size=%u reference avail=%llu | %s | ops:%s", size, (unsigned)r.head, (unsigned)r.tail, (unsigned)r.size,
                 (unsigned long long)(W - R), det, trace.c_str());
    }
    void note(const char *op, unsigned k)
    {
        char t[48];
        snprintf(t, sizeof t, " %s(%u)", op, k);
        trace += t;
        if (trace.size() > 500)
            trace.erase(0, trace.size() - 380);
        if (vf::verbose())
            printf(" %s head=%u tail=%u\n", t, (unsigned)r.head, (unsigned)r.tail);
    }
    void chk(const char *op)
    {
        uint64_t av = W - R;
        if (r.size != size)
            bad("size", "after %s: ring reports size %u", op, (unsigned)r.size);
        if (r.head >= size || r.tail >= size)
            bad("index-range", "after %s", op);
        if (ring_avail(&r) != av || ring_room(&r) != size - 1 - av || ring_avail(&r) + ring_room(&r) != size - 1)
            bad("counts", "after %s: avail=%u room=%u, reference avail=%llu room=%llu", op, ring_avail(&r), ring_room(&r), (unsigned long long)av,
                (unsigned long long)(size - 1 - av));
        if ((ring_empty(&r) != 0) != (av == 0) || (ring_full(&r) != 0) != (av == size - 1))
            bad("empty-full", "after %s: empty=%d full=%d", op, ring_empty(&r), ring_full(&r));
        VF_OK("large cring: size, index range, avail/room/empty/full == reference");
    }
    void verify_live(const char *op)
    {
        uint64_t av = W - R;
        for (uint64_t i = 0; i < av; i++)
            if (buf.p[(r.tail + i) % size] != lpat(R + i))
                bad("content", "after %s: element %llu from tail holds %02x, written %02x", op, (unsigned long long)i, buf.p[(r.tail + i) % size], lpat(R + i));
        VF_OK("large cring: live content == position-dependent pattern");
    }
    void skip(unsigned d) // move an EMPTY ring's head and tail forward by d without data
    {
        note("skip", d);
        ring_move_head(&r, d);
        ring_move_tail(&r, d);
        W += d;
        R += d;
        chk("skip");
    }
    void write_direct(unsigned k)
    {
        note("move_head", k);
        unsigned h = r.head < size ? r.head : 0;
        for (unsigned i = 0; i < k; i++)
            buf.p[(h + (uint64_t)i) % size] = lpat(W + i);
        ring_move_head(&r, k);
        W += k;
        chk("move_head");
    }
    void release(unsigned k)
    {
        note("move_tail", k);
        ring_move_tail(&r, k);
        R += k;
        chk("move_tail");
    }
    void bulk_write(unsigned k)
    {
        note("write", k);
        std::vector<uint8_t> src(k);
        for (unsigned i = 0; i < k; i++)
            src[i] = lpat(W + i);
        uint64_t room = size - 1 - (W - R);
        int ret = ring_write(&r, (char *)buf.p, (const char *)src.data(), k);
        if ((uint64_t)ret != (k < room ? k : room))
            bad("write:count", "write(%u) = %d, room was %llu", k, ret, (unsigned long long)room);
        W += ret;
        chk("write");
    }
    void bulk_read(unsigned k)
    {
        note("read", k);
        vf::Exact dst(nullptr, k, 0);
        uint64_t av = W - R;
        int ret = ring_read(&r, (const char *)buf.p, dst.c(), k);
        if ((uint64_t)ret != (k < av ? k : av))
            bad("read:count", "read(%u) = %d, avail was %llu", k, ret, (unsigned long long)av);
        for (int i = 0; i < ret; i++)
            if (dst.p[i] != lpat(R + i))
                bad("read:data", "byte %d of read(%u): %02x, written %02x", i, k, dst.p[i], lpat(R + i));
        R += ret;
        chk("read");
        VF_OK("large cring: bulk read returns the written bytes in order");
    }
    void goto_slot(unsigned p) // ring must be empty
    {
        unsigned d = (unsigned)mmod((long)p - (long)r.head, size);
        if (d)
            skip(d);
    }
};

static void large_cring(unsigned size, bool mirror)
{
    LargeCRing g(size, mirror);
    // fill to the brim with an over-long write, reject one more byte, drain with an over-long read
    g.bulk_write(size + 5);
    if (ring_putc(&g.r, (char *)g.buf.p, 'x') != 0)
        g.bad("putc:full-not-rejected", "putc on the full ring was accepted");
    g.chk("rejected putc");
    g.verify_live("fill");
    g.bulk_read(size + 5);
    if (ring_getc(&g.r, (const char *)g.buf.p) != -1)
        g.bad("getc:empty-not-rejected", "getc on the empty ring returned data");
    g.chk("rejected getc");
    const unsigned starts[] = {0, 1, 32767, 32768, 65535, 65536, size - 2, size - 1, size / 2};
    const unsigned biases[] = {1, 2, 32767, 32768, 32769, 65535, 65536, 65537, size / 2, size - 2, size - 1};
    for (unsigned p : starts)
        for (unsigned b : biases)
        {
            if (p >= size || b > size - 1)
                continue;
            g.goto_slot(p);
            g.write_direct(b);
            g.verify_live("move_head");
            g.release(b);
        }
    VF_OK("large cring: bulk head/tail moves from every boundary slot with every boundary bias");
    // partly filled ring: two producers' worth, partial release, bulk read of the rest, bulk write across the wrap
    g.goto_slot(size - 7);
    g.write_direct(size / 3);
    g.write_direct(size / 3);
    g.verify_live("two bulk head moves");
    g.release(size / 4);
    g.verify_live("partial release");
    g.bulk_read(size);
    g.goto_slot(size - 3);
    g.bulk_write(size / 2 + 9);
    g.verify_live("bulk write across the wrap");
    g.bulk_read(11);
    g.bulk_write(size);
    g.verify_live("refill to full");
    g.bulk_read(size + 1);
    vf::state(vf::mix(vf::mix(9, size), 0));
}
static void large_ring_char(unsigned size)
{
    unsigned n = size - 1; // usable slots
    igris::ring<char> rg((int)n);
    uint64_t W = 0, R = 0;
    auto counts = [&](const char *op) {
        if (rg.room() != n - (W - R) || rg.avail() != W - R || rg.head_index() < 0 || rg.head_index() >= (int)size || rg.tail_index() < 0 || rg.tail_index() >= (int)size)
            vf::fail("ring<char>-large:counts", "capacity %u after %s: avail=%u room=%u head=%d tail=%d, reference avail=%llu", n, op, rg.avail(), rg.room(), rg.head_index(),
                     rg.tail_index(), (unsigned long long)(W - R));
        VF_OK("large ring<char>: room()==n when empty, avail/room == reference");
    };
    counts("ring(n)");
    auto wr = [&](unsigned k) {
        std::vector<uint8_t> src(k);
        for (unsigned i = 0; i < k; i++)
            src[i] = lpat(W + i);
        uint64_t room = n - (W - R);
        size_t w = rg.write((const char *)src.data(), k);
        if (w != (k < room ? k : room))
            vf::fail("ring<char>-large:write:count", "capacity %u write(%u) = %zu, room was %llu", n, k, w, (unsigned long long)room);
        W += w;
        counts("write");
    };
    auto rd = [&](unsigned k) {
        vf::Exact dst(nullptr, k, 0);
        uint64_t av = W - R;
        size_t got = rg.read(dst.c(), k);
        if (got != (k < av ? k : av))
            vf::fail("ring<char>-large:read:count", "capacity %u read(%u) = %zu, avail was %llu", n, k, got, (unsigned long long)av);
        for (size_t i = 0; i < got; i++)
            if (dst.p[i] != lpat(R + i))
                vf::fail("ring<char>-large:read:data", "capacity %u byte %zu: %02x, written %02x", n, i, dst.p[i], lpat(R + i));
        R += got;
        counts("read");
    };
    wr(size + 3);
    rd(size + 3);
    wr(size / 2);
    rd(size / 2 - 5);
    wr(size); // crosses the wrap, stops at full
    rd(size);
    rg.resize(n);
    W = R = 0;
    counts("resize(n)");
    wr(40000);
    rd(39999);
    wr(n);
    rd(n + 1);
    rg.reset();
    W = R = 0;
    counts("reset");
    vf::state(vf::mix(vf::mix(10, size), 0));
}
static void large_ring_u32(unsigned size)
{
    unsigned n = size - 1;
    igris::ring<uint32_t> rg((int)n);
    uint64_t W = 0, R = 0; // ids pushed / popped; element value = id * 2654435761
    auto val = [](uint64_t id) { return (uint32_t)(id * 2654435761u + 7); };
    auto chk = [&](const char *op) {
        uint64_t L = W - R;
        int hd = rg.head_index(), tl = rg.tail_index();
        if (rg.avail() != L || rg.room() != n - L || hd < 0 || hd >= (int)size || tl < 0 || tl >= (int)size || rg.distance(hd, tl) != (int)L)
            vf::fail("ring<T>-large:counts", "capacity %u after %s: avail=%u room=%u head=%d tail=%d distance=%d, reference avail=%llu", n, op, rg.avail(), rg.room(), hd, tl,
                     rg.distance(hd, tl), (unsigned long long)L);
        if (L)
        {
            if (rg.tail() != val(R) || rg.last() != val(W - 1))
                vf::fail("ring<T>-large:tail-last", "capacity %u after %s: tail()=%u last()=%u, reference %u / %u", n, op, rg.tail(), rg.last(), val(R), val(W - 1));
            const uint64_t offs[] = {0, 1, 32766, 32767, 32768, 65534, 65535, 65536, L - 3, L / 2};
            for (uint64_t off : offs)
                for (int from_end = 0; from_end < 2; from_end++)
                {
                    unsigned cnt = 3;
                    if (off + cnt > L)
                        continue;
                    std::vector<uint32_t> v = rg.get_last((int)off, (int)cnt, from_end);
                    for (unsigned i = 0; i < cnt; i++)
                    {
                        uint32_t want = from_end ? val(W - 1 - off - i) : val(W - cnt - off + i);
                        if (v.size() != cnt || v[i] != want)
                            vf::fail("ring<T>-large:get_last", "capacity %u after %s: get_last(%llu,3,%d)[%u] = %u, reference %u", n, op, (unsigned long long)off, from_end, i,
                                     v.size() == cnt ? v[i] : 0, want);
                    }
                }
        }
        VF_OK("large ring<T>: counts, distance, tail/last/get_last at boundary offsets == reference");
    };
    chk("ring(n)");
    if (rg.fixup_index(-1) != (int)size - 1 || rg.fixup_index((int)size) != 0 || rg.fixup_index((int)size + 5) != 5 || rg.fixup_index(-(int)size) != 0)
        vf::fail("ring<T>-large:fixup_index", "size %u: fixup_index(-1)=%d fixup_index(size)=%d", size, rg.fixup_index(-1), rg.fixup_index((int)size));
    auto push = [&](uint64_t k) {
        for (uint64_t i = 0; i < k; i++)
            rg.push(val(W++));
    };
    auto pop = [&](uint64_t k) {
        for (uint64_t i = 0; i < k; i++)
        {
            if (rg.tail() != val(R))
                vf::fail("ring<T>-large:pop:order", "capacity %u: element leaving is %u, reference %u", n, rg.tail(), val(R));
            rg.pop();
            R++;
        }
    };
    push(n);
    chk("fill");
    pop(n / 2 + 1);
    chk("pop half");
    push(n / 2); // crosses the wrap
    chk("push across the wrap");
    pop(W - R);
    chk("drain");
    push(70000 < n ? 70000 : n);
    chk("push");
    vf::state(vf::mix(vf::mix(11, size), 0));
}
static void large_cyclic(unsigned N)
{
    igris::cyclic_buffer<uint32_t> cb(N);
    ring_counter rc;
    ring_counter_init(&rc, (int)N);
    auto val = [](uint64_t id) { return (uint32_t)(id * 2246822519u + 3); };
    const unsigned sp[] = {0, 1, 2, 32767, 32768, 65535, 65536, N / 2, N - 2, N - 1};
    uint64_t total = 2ull * N + 7;
    for (uint64_t id = 0; id < total; id++)
    {
        uint32_t ret = cb.push(val(id));
        ring_counter_increment(&rc, 1);
        if (id >= N && ret != val(id - N))
            vf::fail("cyclic_buffer-large:push:overwritten", "N=%u push #%llu returned %u, overwritten sample is %u", N, (unsigned long long)id, ret, val(id - N));
        uint64_t sz = id + 1 < N ? id + 1 : N;
        if (cb.size() != sz || cb[0] != val(id) || cb.counter.counter < 0 || cb.counter.counter >= (int)N || ring_counter_get(&rc) != cb.counter.counter)
            vf::fail("cyclic_buffer-large:state", "N=%u after push #%llu: size()=%zu [0]=%u counter=%d", N, (unsigned long long)id, cb.size(), cb[0], cb.counter.counter);
        if (id % (N / 5 + 1) == 0 || id + 1 == total || id == N - 1 || id == N)
        {
            for (unsigned i : sp)
            {
                if (i < sz && cb[(int)i] != val(id - i))
                    vf::fail("cyclic_buffer-large:index", "N=%u counter=%d: [%u] = %u, %u-th previous sample is %u", N, cb.counter.counter, i, cb[(int)i], i, val(id - i));
                int c = ring_counter_get(&rc);
                if (ring_counter_prev(&rc, (int)i) != (int)mmod((long)c - i, N) || ring_counter_last(&rc, (int)i) != (int)mmod((long)c - i, N) ||
                    ring_counter_prev(&rc, (int)(i + N)) != (int)mmod((long)c - i, N) || ring_counter_fixup_pos(&rc, -(int)i - 1) != (int)mmod(-(long)i - 1, N) ||
                    ring_counter_fixup_pos(&rc, (int)(i + N)) != (int)mmod(i, N))
                    vf::fail("ring_counter-large:prev", "size=%u counter=%d i=%u: prev=%d last=%d", N, c, i, ring_counter_prev(&rc, (int)i), ring_counter_last(&rc, (int)i));
            }
            VF_OK("large cyclic_buffer / ring_counter: [i], prev, last, fixup_pos at boundary offsets == reference");
        }
    }
    vf::state(vf::mix(vf::mix(12, N), 0));
}
static uint64_t large_count() { return (uint64_t)NLSIZES * 5; }
static void large_run(uint64_t idx)
{
    unsigned size = LSIZES[idx / 5];
    int kind = idx % 5;
    char cls[64];
    static const char *KN[5] = {"cring", "cring-mirror", "ring<char>", "ring<u32>", "cyclic"};
    snprintf(cls, sizeof cls, "large:%s:size=%u", KN[kind], size);
    vf::cls(cls);
    if (vf::verbose())
        printf("%s\n", cls);
    switch (kind)
    {
    case 0:
        large_cring(size, false);
        break;
    case 1:
        large_cring(size, true);
        break;
    case 2:
        large_ring_char(size);
        break;
    case 3:
        large_ring_u32(size);
        break;
    case 4:
        large_cyclic(size);
        break;
    }
    VF_MAX("large rings: largest size", size);
    vf::count_case(vf::mix(size, kind), true);
    if (idx == 16)
        vf::sample("large rings: sizes {32767,32768,32769,50000,65535,65536,65537,100000,2^20+3} x {C ring (2 placements), ring<char>, ring<uint32_t>, cyclic_buffer+ring_counter}");
}
VF_SUITE(large_rings, large_count, large_run)

// ============================================================================================
// 6. cyclic_buffer with non-trivially copyable / movable elements and self-aliasing arguments
// ============================================================================================
template <class T> struct Elem;
template <> struct Elem<std::string>
{
    static const char *name() { return "std::string"; }
    static std::string make(uint32_t id) { return "sample-" + std::to_string(id) + "-with-a-tail-long-enough-to-live-on-the-heap"; }
    static std::string show(const std::string &s) { return "\"" + s.substr(0, 14) + (s.size() > 14 ? "...\"" : "\""); }
};
template <> struct Elem<std::vector<uint32_t>>
{
    static const char *name() { return "std::vector"; }
    static std::vector<uint32_t> make(uint32_t id)
    {
        std::vector<uint32_t> v(20);
        for (unsigned i = 0; i < 20; i++)
            v[i] = id * 31 + i;
        return v;
    }
    static std::string show(const std::vector<uint32_t> &v) { return v.empty() ? "{}" : "{" + std::to_string(v[0]) + ",... x" + std::to_string(v.size()) + "}"; }
};
template <> struct Elem<vf::Tracked>
{
    static const char *name() { return "Tracked"; }
    static vf::Tracked make(uint32_t id) { return vf::Tracked((int)id); }
    static std::string show(const vf::Tracked &t) { return "#" + std::to_string(t.id()); }
};

template <class T> struct CycAlias
{
    using E = Elem<T>;
    std::unique_ptr<igris::cyclic_buffer<T>> cb;
    std::deque<T> model; // newest first
    int N;
    std::string hist;
    uint32_t id = 10;
    CycAlias(int N_, bool via_resize) : N(N_)
    {
        if (via_resize)
        {
            int M = N + 2;
            cb.reset(new igris::cyclic_buffer<T>(M));
            for (int i = 0; i < M + 1; i++)
                cb->push(E::make(3));
            cb->resize(N);
            hist = std::string("cyclic_buffer<") + E::name() + ">(" + std::to_string(M) + ") " + std::to_string(M + 1) + "xpush resize(" + std::to_string(N) + ")";
        }
        else
        {
            cb.reset(new igris::cyclic_buffer<T>(N));
            hist = std::string("cyclic_buffer<") + E::name() + ">(" + std::to_string(N) + ")";
        }
        verify("construction");
    }
    void verify(const char *op)
    {
        vf::Tracked::check();
        if (cb->size() != model.size())
            vf::fail("cyclic_buffer:size", "%s | after %s: size()=%zu reference=%zu", hist.c_str(), op, cb->size(), model.size());
        const igris::cyclic_buffer<T> &ccb = *cb;
        for (int j = 0; j < (int)model.size(); j++)
        {
            T a = (*cb)[j];
            T b = ccb[j];
            if (!(a == model[j]) || !(b == model[j]))
                vf::fail("cyclic_buffer:index", "%s | after %s: [%d] holds %s (const: %s), the %d-th previous sample is %s", hist.c_str(), op, j, E::show(a).c_str(),
                         E::show(b).c_str(), j, E::show(model[j]).c_str());
        }
        vf::Tracked::check();
        VF_OK("cyclic_buffer<non-trivial T>: size(), [i] == reference after every push");
    }
    // the value that the reference expects to be stored is captured BEFORE the call
    template <class F> void pushed(const T &expect, const char *what, F call)
    {
        hist += ' ';
        hist += what;
        if (vf::verbose())
            printf("  %s\n", what);
        T want = expect;
        bool was_full = (int)model.size() == N;
        T evicted = was_full ? model.back() : T();
        vf::Tracked::at(what);
        T ret = call();
        if (was_full)
        {
            if (!(ret == evicted))
                vf::fail("cyclic_buffer:push:overwritten", "%s | returned %s, the overwritten sample is %s", hist.c_str(), E::show(ret).c_str(), E::show(evicted).c_str());
            model.pop_back();
            VF_OK("cyclic_buffer<non-trivial T>: push returns the overwritten sample");
        }
        model.push_front(want);
        verify(what);
    }
    void fresh()
    {
        T v = E::make(id++);
        pushed(v, "push(fresh)", [&] { return cb->push(v); });
    }
    void alias(int i, bool through_const)
    {
        T v = model[i];
        std::string what = std::string(through_const ? "push(const cb[" : "push(cb[") + std::to_string(i) + "])";
        const igris::cyclic_buffer<T> &ccb = *cb;
        if (through_const)
            pushed(v, what.c_str(), [&] { return cb->push(ccb[i]); });
        else
            pushed(v, what.c_str(), [&] { return cb->push((*cb)[i]); });
        VF_OK("cyclic_buffer<non-trivial T>: push(cb[i]) of its own i-th sample stores that sample");
    }
};
template <class T> static void cyc_alias_case(int N, bool via_resize)
{
    char cls[80];
    snprintf(cls, sizeof cls, "cyclic-alias:%s:%s", Elem<T>::name(), via_resize ? "resize" : "ctor");
    vf::cls(cls);
    vf::Tracked::reset(via_resize ? "cyclic_buffer:resize" : "cyclic_buffer");
    uint64_t n = 0;
    for (int k = 0; k <= N + 2; k++)            // fresh pushes before the aliasing one (below, at and beyond full)
        for (int i = 0; i < (k < N ? k : N); i++) // its own i-th previous sample, incl. newest (0) and oldest (size-1)
            for (int c = 0; c < 2; c++)
            {
                {
                    CycAlias<T> t(N, via_resize);
                    for (int j = 0; j < k; j++)
                        t.fresh();
                    t.alias(i, c);
                    t.alias(i, !c); // and again on the new state
                    for (int j = 0; j < N + 1; j++)
                        t.fresh();
                }
                n++;
            }
    // other self-referencing arguments
    {
        CycAlias<T> t(N, via_resize);
        using E = Elem<T>;
        for (int j = 0; j < N + 1; j++)
            t.fresh();
        { // the value the previous push evicted
            T v = E::make(900);
            T ev = T();
            t.pushed(v, "push(fresh)", [&] { ev = t.cb->push(v); return ev; });
            t.pushed(ev, "push(evicted value)", [&] { return t.cb->push(ev); });
        }
        { // a moved-from object (valid but unspecified for std types: the reference copies it before the call)
            T a = E::make(901);
            T b = std::move(a);
            t.pushed(a, "push(moved-from)", [&] { return t.cb->push(a); });
            t.pushed(b, "push(move target)", [&] { return t.cb->push(b); });
        }
        { // an rvalue
            T v = E::make(902);
            t.pushed(v, "push(rvalue)", [&] { return t.cb->push(E::make(902)); });
        }
        for (int round = 0; round < 2 * N; round++) // rotate the buffer through itself: oldest re-inserted as newest
            t.alias((int)t.model.size() - 1, round & 1);
        n++;
        VF_OK("cyclic_buffer<non-trivial T>: evicted / moved-from / rvalue arguments and rotation through itself");
    }
    if (std::is_same<T, vf::Tracked>::value)
    {
        vf::Tracked::at("end of case");
        vf::Tracked::check_all_destroyed();
        VF_OK("cyclic_buffer<Tracked>: no element constructed over a live one, assigned to or read from raw storage, or left undestroyed");
    }
    vf::count_bulk(n, n);
}
static uint64_t cyca_count() { return 3ull * 6 * 2; }
static void cyca_run(uint64_t idx)
{
    int type = idx % 3, N = 1 + (idx / 3) % 6;
    bool via_resize = (idx / 18) & 1;
    if (type == 0)
        cyc_alias_case<std::string>(N, via_resize);
    else if (type == 1)
        cyc_alias_case<std::vector<uint32_t>>(N, via_resize);
    else
        cyc_alias_case<vf::Tracked>(N, via_resize);
}
VF_SUITE(cyclic_alias, cyca_count, cyca_run)


// ============================================================================================
// 7. unwritten slots: the containers value-construct every slot (T{}), so a slot that was never written reads as T{}
//    even when the storage is recycled, dirty memory. The containers take an allocator parameter: DirtyAlloc hands out
//    exactly sized heap blocks pre-filled with 0xCD (a zero-filling allocator or a fresh mmap page would hide the
//    difference between "constructed" and "left as found").
// ============================================================================================
template <class T> struct DirtyAlloc
{
    using value_type = T;
    DirtyAlloc() = default;
    template <class U> DirtyAlloc(const DirtyAlloc<U> &) {}
    T *allocate(size_t n)
    {
        size_t bytes = n * sizeof(T);
        void *p = ::operator new(bytes ? bytes : 1, std::align_val_t(alignof(T) > 16 ? alignof(T) : 16));
        memset(p, 0xCD, bytes);
        return (T *)p;
    }
    void deallocate(T *p, size_t) { ::operator delete((void *)p, std::align_val_t(alignof(T) > 16 ? alignof(T) : 16)); }
    template <class U> bool operator==(const DirtyAlloc<U> &) const { return true; }
    template <class U> bool operator!=(const DirtyAlloc<U> &) const { return false; }
};
struct Pod12
{
    uint32_t a;
    float f;
    uint8_t c;
    bool operator==(const Pod12 &o) const { return a == o.a && f == o.f && c == o.c; }
};
template <class T> static T uw_make(uint32_t id);
template <> uint32_t uw_make<uint32_t>(uint32_t id) { return id * 2654435761u | 1; }
template <> double uw_make<double>(uint32_t id) { return 1.5 + id; }
template <> Pod12 uw_make<Pod12>(uint32_t id) { return Pod12{id | 0x100, 2.5f + id, (uint8_t)(id | 1)}; }

template <class T> static void unwritten_case(int n, const char *tname)
{
    char cls[64];
    snprintf(cls, sizeof cls, "unwritten-slots:%s", tname);
    vf::cls(cls);
    const T zero{};
    auto is_zero = [&](const T &v) { return v == zero; };
    // unbounded_array: sized constructor and resize
    {
        igris::unbounded_array<T, DirtyAlloc<T>> arr(n);
        for (int i = 0; i < n; i++)
            if (!is_zero(arr[i]))
                vf::fail("unbounded_array:element-not-value-initialised", "%s: unbounded_array(%d): element %d is not T{} (storage was left as the allocator returned it)", tname, n, i);
        for (int i = 0; i < n; i++)
            arr[i] = uw_make<T>(i);
        arr.resize(n);
        for (int i = 0; i < n; i++)
            if (!is_zero(arr[i]))
                vf::fail("unbounded_array:element-not-value-initialised", "%s: after resize(%d): element %d is not T{}", tname, n, i);
        VF_OK("unwritten slots: unbounded_array(n) / resize(n) value-initialise every element");
    }
    // cyclic_buffer: constructed and resized-after-use
    for (int via_resize = 0; via_resize < 2; via_resize++)
    {
        igris::cyclic_buffer<T, DirtyAlloc<T>> cb(via_resize ? n + 1 : n);
        if (via_resize)
        {
            for (int i = 0; i < n + 2; i++)
                cb.push(uw_make<T>(50 + i));
            cb.resize(n);
        }
        const char *how = via_resize ? "after resize" : "constructed";
        for (int i = 0; i < n; i++)
            if (!is_zero(cb[i]))
                vf::fail("cyclic_buffer:unwritten-slot", "%s cyclic_buffer(%d) %s, no push yet: [%d] is not T{}", tname, n, how, i);
        for (int k = 0; k < n; k++) // first lap
        {
            T ret = cb.push(uw_make<T>(k));
            if (!is_zero(ret))
                vf::fail("cyclic_buffer:push:first-lap-evicts-unwritten", "%s cyclic_buffer(%d) %s: push #%d of the first lap returned a value that is not T{}", tname, n, how, k);
            for (int i = 0; i < n; i++)
            {
                T got = cb[i];
                bool ok = i <= k ? got == uw_make<T>(k - i) : is_zero(got);
                if (!ok)
                    vf::fail(i <= k ? "cyclic_buffer:index" : "cyclic_buffer:unwritten-slot", "%s cyclic_buffer(%d) %s after %d pushes: [%d] is wrong (%s)", tname, n, how, k + 1, i,
                             i <= k ? "written sample" : "never written, must be T{}");
            }
        }
        VF_OK("unwritten slots: cyclic_buffer first lap evicts T{}, [i] beyond the pushes is T{}");
    }
    // igris::ring: constructed and resized-after-use
    for (int via_resize = 0; via_resize < 2; via_resize++)
    {
        igris::ring<T, DirtyAlloc<T>> rg = via_resize ? igris::ring<T, DirtyAlloc<T>>(n + 1) : igris::ring<T, DirtyAlloc<T>>(n);
        if (via_resize)
        {
            for (int i = 0; i < n; i++)
                rg.push(uw_make<T>(70 + i));
            rg.resize(n);
        }
        const char *how = via_resize ? "after resize" : "constructed";
        for (int i = 0; i <= n; i++)
            if (!is_zero(rg.get(i)))
                vf::fail("ring<T>:unwritten-slot", "%s ring(%d) %s: slot %d is not T{}", tname, n, how, i);
        for (int k = 1; k <= n; k++)
        {
            rg.push(uw_make<T>(k));
            // windows reaching past the written part: the k newest are data, the rest never-written slots
            for (int cnt = 1; cnt <= n + 1; cnt++)
                for (int from_end = 0; from_end < 2; from_end++)
                {
                    std::vector<T> v = rg.get_last(0, cnt, from_end);
                    for (int i = 0; i < cnt; i++)
                    {
                        int back = from_end ? i : cnt - 1 - i; // how many elements before the newest
                        bool ok = back < k ? v[i] == uw_make<T>(k - back) : is_zero(v[i]);
                        if (!ok)
                            vf::fail(back < k ? "ring<T>:get_last" : "ring<T>:unwritten-slot", "%s ring(%d) %s after %d pushes: get_last(0,%d,%d)[%d] is wrong (%s)", tname, n, how, k,
                                     cnt, from_end, i, back < k ? "written element" : "never written, must be T{}");
                    }
                }
        }
        VF_OK("unwritten slots: igris::ring slots and get_last past the written part are T{}");
    }
}
static uint64_t uw_count() { return 3ull * 10; }
static void uw_run(uint64_t idx)
{
    int n = 1 + (int)(idx / 3);
    switch (idx % 3)
    {
    case 0:
        unwritten_case<uint32_t>(n, "uint32_t");
        break;
    case 1:
        unwritten_case<double>(n, "double");
        break;
    default:
        unwritten_case<Pod12>(n, "Pod12");
    }
    vf::count_case(vf::mix(0x77, idx), true);
}
VF_SUITE(unwritten_slots, uw_count, uw_run)
