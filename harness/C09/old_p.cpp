// C09 — archive.h/stdtypes.h front end, part 6: conditional user types in pairs, tuples, nested containers and as
// members of another user type.
#define C09_PART "old_conditional_nested"
#define C09_TYPE_LIST                                                                                                  \
    TY("pair<Opt,Var>", pair<Opt, Var>) TY("tuple<Var,Opt,Cnt>", tuple<Var, Opt, Cnt>)                                  \
    TY("vector<pair<Opt,string>>", vec<pair<Opt, str>>) TY("map<string,vector<Var>>", map<str, vec<Var>>)               \
    TY("vector<vector<Opt>>", vec<vec<Opt>>) TY("map<u8,map<u16,Cnt>>", map<uint8_t, map<uint16_t, Cnt>>) TY("E", E)    \
    TY("vector<E>", vec<E>) TY("map<u16,E>", map<uint16_t, E>)
#include "old_impl.h"
