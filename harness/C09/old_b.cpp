// C09 — archive.h/stdtypes.h front end, part 3: pairs, tuples, maps, nested to depth 3.
#define C09_PART "old_maps"
#define C09_TYPE_LIST                                                                                                  \
    TY("pair<i8,u64>", pair<int8_t, uint64_t>) TY("pair<string,string>", pair<str, str>)                                \
    TY("pair<vector<u16>,f64>", pair<vec<uint16_t>, double>) TY("tuple<i32>", tuple<int32_t>)                           \
    TY("tuple<u8,string,f64>", tuple<uint8_t, str, double>)                                                             \
    TY("tuple<pair<i16,i16>,vector<u8>,string>", tuple<pair<int16_t, int16_t>, vec<uint8_t>, str>)                      \
    TY("map<i32,i32>", map<int32_t, int32_t>) TY("map<string,i32>", map<str, int32_t>)                                  \
    TY("map<u16,string>", map<uint16_t, str>)                                                                           \
    TY("map<string,vector<pair<i32,string>>>", map<str, vec<pair<int32_t, str>>>)                                       \
    TY("map<i8,map<u8,string>>", map<int8_t, map<uint8_t, str>>)                                                        \
    TY("map<u32,vector<vector<i16>>>", map<uint32_t, vec<vec<int16_t>>>)
#include "old_impl.h"
