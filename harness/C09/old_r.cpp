// C09 — archive.h/stdtypes.h front end, part 7: RECURSIVE user types with custom serialize()/deserialize() members
// that frame their children as blobs through the free functions igris::serialize / igris::deserialize<T>
// (re-entered for the same type), depth 0..4, alone and inside containers.
#define C09_PART "old_recursive"
#define C09_TYPE_LIST                                                                                                  \
    TY("Node", Node) TY("Chain", Chain) TY("vector<Node>", vec<Node>) TY("map<u8,Node>", map<uint8_t, Node>)            \
    TY("pair<Node,Chain>", pair<Node, Chain>)
#include "old_impl.h"
