// C09 — multi-step histories on ONE long-lived string_storage / serializer and ONE deserialize_buffer_storage /
// deserializer of the serialize_archive.h front end: after every step (and every look at storage()) the accumulated
// bytes equal the concatenation of the reference encodings; avail() between two loads consumes nothing.
#pragma once
#include "new_fw.h"
struct NHRec
{
    int kind = 0; // 0 i32, 1 vector<u8>, 2 vector<vector<i16>>, 3 T2, 4 NOpt, 5 raw bytes
    int32_t i = 0;
    vec<uint8_t> v;
    vec<vec<int16_t>> vv;
    T2 t;
    NOpt o;
    std::string raw, enc;
};
static inline void hist_new_run(uint64_t idx)
{
    typedef igris::deserializer<igris::deserialize_buffer_storage> Dar;
    vf::Rng r(vf::seed(), 0x4E57, idx);
    igris::string_storage st;
    igris::serializer<igris::string_storage> ar(st);
    std::string acc, log;
    std::vector<NHRec> recs;
    int steps = 3 + (int)r.below(14);
    char what[120];
    for (int s = 0; s < steps; s++)
    {
        NHRec rc;
        Gen g{r, r.chance(1, 6) ? 3000 : 150};
        int op = (int)r.below(6), via = (int)r.below(3);
        rc.kind = op;
        vf::cls("new.history:write");
#define C09_PUT(x) (via == 0 ? igris::serialize(x, st) : via == 1 ? ar.serialize(x) : (void)(ar & x))
        switch (op)
        {
        case 0:
            rc.i = gen<int32_t>(g);
            C09_PUT(rc.i);
            ref_enc(rc.i, rc.enc);
            break;
        case 1:
            rc.v = gen<vec<uint8_t>>(g);
            C09_PUT(rc.v);
            ref_enc(rc.v, rc.enc);
            break;
        case 2:
            rc.vv = gen<vec<vec<int16_t>>>(g);
            C09_PUT(rc.vv);
            ref_enc(rc.vv, rc.enc);
            break;
        case 3:
            rc.t = gen<T2>(g);
            C09_PUT(rc.t);
            ref_enc(rc.t, rc.enc);
            break;
        case 4:
            rc.o = gen<NOpt>(g);
            C09_PUT(rc.o);
            ref_enc(rc.o, rc.enc);
            break;
        default:
            rc.raw = gen<std::string>(g);
            via == 0 ? st.dumps(rc.raw) : via == 1 ? st.dump(rc.raw.data(), rc.raw.size()) : ar.dump(rc.raw.data(), rc.raw.size());
            rc.enc = rc.raw;
        }
#undef C09_PUT
        acc += rc.enc;
        recs.push_back(rc);
        snprintf(what, sizeof what, "%d:op%d/via%d(%zuB) ", s, op, via, rc.enc.size());
        log += what;
        if (vf::verbose())
            printf("  step %s\n", what);
        // look at the storage after every step (record boundary), twice
        size_t seen = st.storage().size();
        if (seen != acc.size() || st.storage() != acc)
            vf::fail("history:new:storage-bytes!=concatenation-of-reference-encodings", "steps %s: storage holds %zu bytes (%zu at the first look), reference %zu, first difference at %zu",
                     log.c_str(), st.storage().size(), seen, acc.size(), first_diff(st.storage(), acc));
        VF_OK("after every step (and every look at storage()) the long-lived storage holds the concatenation so far");
    }
    vf::Exact e(acc.data(), acc.size(), idx & 1 ? 0 : 1, (idx & 1) != 0);
    igris::deserialize_buffer_storage ds(igris::buffer(e.cc(), acc.size()));
    Dar dar(ds);
    size_t pos = 0;
    for (size_t k = 0; k < recs.size(); k++)
    {
        const NHRec &rc = recs[k];
        vf::cls("new.history:read");
        int a1 = ds.avail(), a2 = ds.avail();
        if (a1 != a2 || (size_t)a1 != acc.size() - pos)
            vf::fail("history:new:avail-consumed-or-wrong", "record %zu of steps %s: avail() %d then %d, expected %zu", k, log.c_str(), a1, a2, acc.size() - pos);
        bool ok = true;
        int via = (int)r.below(3);
#define C09_GET(T, x) T x{}; if (via == 0) x = igris::deserialize<T>(ds); else if (via == 1) dar.deserialize(x); else dar &x;
        switch (rc.kind)
        {
        case 0:
        {
            C09_GET(int32_t, x)
            ok = x == rc.i;
            break;
        }
        case 1:
        {
            C09_GET(vec<uint8_t>, x)
            ok = x == rc.v;
            break;
        }
        case 2:
        {
            C09_GET(vec<vec<int16_t>>, x)
            ok = x == rc.vv;
            break;
        }
        case 3:
        {
            C09_GET(T2, x)
            ok = same(x, rc.t);
            break;
        }
        case 4:
        {
            C09_GET(NOpt, x)
            ok = same(x, rc.o);
            break;
        }
        default:
        {
            std::string x(rc.raw.size(), '?');
            if (via == 0)
                x = ds.loads(rc.raw.size());
            else if (via == 1)
                ds.load(&x[0], x.size());
            else
                dar.load(&x[0], x.size());
            ok = x == rc.raw;
        }
        }
#undef C09_GET
        pos += rc.enc.size();
        if (!ok || (size_t)ds.avail() != acc.size() - pos)
            vf::fail("history:new:values-do-not-decode-in-sequence", "record %zu (kind %d) of steps %s: value %s, %d bytes left, expected %zu", k, rc.kind, log.c_str(),
                     ok ? "equal" : "differs", ds.avail(), acc.size() - pos);
        VF_OK("the long-lived bounded reader decodes the history in sequence; avail() between loads consumes nothing");
    }
    vf::count_case(vf::hash_bytes(acc.data(), acc.size(), 0x4E57), recs.size() >= 2);
}
