// C09 — serialize_archive.h front end, part 3: user types with a conditional serialize_reflect() (presence flag +
// optional block, tag + one of several members, count + that many members), alone, in vectors, nested, as members.
#define C09_PART "new_conditional"
#define C09_TYPE_LIST                                                                                                  \
    TY(true, "NOpt", NOpt) TY(true, "NVar", NVar) TY(true, "NCnt", NCnt) TY(false, "vector<NOpt>", vec<NOpt>)           \
    TY(false, "vector<NVar>", vec<NVar>) TY(true, "vector<NCnt>", vec<NCnt>) TY(false, "vector<vector<NOpt>>", vec<vec<NOpt>>) \
    TY(false, "NE", NE) TY(false, "vector<NE>", vec<NE>) TY(false, "NNode", NNode) TY(false, "vector<NNode>", vec<NNode>)
#include "new_impl.h"
