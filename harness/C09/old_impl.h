// C09 — body of one archive.h/stdtypes.h harness TU. The including file defines
//   C09_PART       string used in the suite names
//   C09_TYPE_LIST  the TY(name, type) entries of this part
//   C09_MAIN_TU    (one TU only) vf main, required clauses, igris::buffer suite
// The family is spread over several TUs only to compile them in parallel.
#ifdef C09_GEN_GOLDEN
#define main vf_unused_main
#define VF_MAIN
#elif defined(C09_MAIN_TU)
#define VF_MAIN
#endif
#include "old_fw.h"
#ifdef C09_GEN_GOLDEN
#undef main
#endif

using namespace c09;
typedef std::string str;
template <class T> using vec = std::vector<T>;
template <class K, class V> using map = std::map<K, V>;
using std::pair;
using std::tuple;

#ifndef C09_GEN_GOLDEN
static const GoldenRec GOLDEN[] = {
#include "golden_old.inc"
};
static const size_t NGOLDEN = sizeof GOLDEN / sizeof GOLDEN[0];
#else
static const GoldenRec *GOLDEN = nullptr;
static const size_t NGOLDEN = 0;
#endif
template <class T> static void gold(const char *name) { check_golden<OldFw, T>(name, GOLDEN, NGOLDEN); }
#define TY(name, ...) {"old." name, &run_type<OldFw, __VA_ARGS__>, &gold<__VA_ARGS__>, &emit_golden<OldFw, __VA_ARGS__>},

static const TypeOps OPS[] = {C09_TYPE_LIST};
enum
{
    NT = sizeof OPS / sizeof OPS[0]
};

#ifdef C09_GEN_GOLDEN
int main()
{
    for (const TypeOps &o : OPS)
        o.emit_golden(o.name, stdout);
    return 0;
}
#else
static uint64_t values_count() { return (uint64_t)NT * batches_per_type(); }
static void values_run(uint64_t idx) { OPS[idx % NT].run(OPS[idx % NT].name, idx / NT); }
static ::vf::SuiteReg reg_values(C09_PART "_values", values_count, values_run);
static uint64_t golden_count() { return NT; }
static void golden_run(uint64_t idx) { OPS[idx].golden(OPS[idx].name); }
static ::vf::SuiteReg reg_golden(C09_PART "_golden", golden_count, golden_run);
#endif
