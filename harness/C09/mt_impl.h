// C09 (TSan unit) — the free functions igris::serialize(v) / igris::deserialize<T>(bytes) are pure functions of their
// arguments; users call them from several threads without a lock. A scratch buffer, result object or table that
// becomes static / shared is invisible to every single-threaded workload. Each case forks a fresh process
// (vf::mt_run), releases 2..4 threads together; every thread serializes / deserializes ITS OWN value - of the same
// type as the other threads or of different types - many times and compares with the encoding computed (and checked
// against the reference encoder) before the threads start. Wrong bytes / values come back in the mask; a data race
// inside igris is reported by ThreadSanitizer.
#pragma once
#include "c09.h"
#include "mt.h"
#include <functional>
#include <memory>

namespace c09
{
    struct MtJob
    {
        std::function<unsigned()> run;
        std::string desc;
    };
    template <class Fw, class T> MtJob mt_job(const char *tname, vf::Rng &r)
    {
        Gen g{r, 400};
        auto v = std::make_shared<T>(gen<T>(g));
        auto enc = std::make_shared<std::string>(Fw::enc(*v));
        std::string ref;
        ref_enc(*v, ref);
        bool pre_ok = *enc == ref && same(Fw::template dec<T>(enc->data(), enc->size()), *v);
        return MtJob{[v, enc, pre_ok]() -> unsigned {
                         unsigned m = pre_ok ? 0 : 4;
                         for (int i = 0; i < 40; i++)
                         {
                             if (Fw::enc(*v) != *enc)
                                 m |= 1;
                             if (!same(Fw::template dec<T>(enc->data(), enc->size()), *v))
                                 m |= 2;
                         }
                         return m;
                     },
                     std::string(tname) + " " + shown(*v, 70)};
    }
    typedef MtJob (*MtFactory)(vf::Rng &);

    // menu: the factories of one front end; case idx picks 2..4 threads, all of one type (even idx) or of different ones
    static inline void mt_case(const char *fw, const MtFactory *menu, size_t nmenu, uint64_t idx)
    {
        vf::Rng r(vf::seed(), vf::hash_bytes(fw, strlen(fw)), idx);
        int nthreads = 2 + (int)(idx % 3);
        bool same_type = (idx / 3) % 2 == 0;
        size_t first = (size_t)r.below(nmenu);
        std::vector<MtJob> jobs;
        std::string what;
        for (int t = 0; t < nthreads; t++)
        {
            jobs.push_back(menu[same_type ? first : (first + (size_t)t) % nmenu](r));
            what += (t ? " | " : "") + jobs.back().desc;
        }
        if (vf::verbose())
            printf("  %d threads (%s): %s\n", nthreads, same_type ? "same type" : "different types", what.c_str());
        char cls[100], key[160];
        snprintf(cls, sizeof cls, "%s:concurrent:%s", fw, same_type ? "same-type" : "different-types");
        vf::cls(cls);
        int mask = vf::mt_run(nthreads, [&](int tid) -> unsigned { return jobs[(size_t)tid].run(); });
        if (mask != 0)
        {
            snprintf(key, sizeof key, "concurrent:%s:%s", fw,
                     mask == -1  ? "child-died"
                     : mask == -2 ? "hang"
                     : mask & 4   ? "sequential-encoding!=reference"
                     : mask & 1   ? "serialize!=encoding-computed-before"
                                  : "deserialize!=value");
            vf::fail(key, "%d threads, %s, mask=%d: %s", nthreads, same_type ? "all of one type" : "different types", mask, what.c_str());
        }
        VF_OK("concurrent serialize/deserialize of own values == results computed before the threads started");
        vf::count_case(vf::hash_bytes(what.data(), what.size()), true);
    }
}
