// C09 — generic machinery shared by the serialization harness TUs: value generators for a template-built
// type family, an independent reference encoder of the stated wire layout, bitwise value comparison,
// canonical value rendering, and the per-value checks (layout, round trip, cursor, concatenation, golden).
// The two igris front ends (archive.h/stdtypes.h and serialize_archive.h) cannot be included into one TU
// (both declare igris::serialize(const T&)); each TU supplies a small policy class `Fw` for its front end.
#pragma once
#include "vf.h"
#include "guard.h"
#include <cstring>
#include <map>
#include <string>
#include <tuple>
#include <type_traits>
#include <utility>
#include <vector>

#if __BYTE_ORDER__ != __ORDER_LITTLE_ENDIAN__
#error "the reference encoder spells out the little-endian host image"
#endif

namespace c09
{
    // ------------------------------------------------------------ classification
    template <class T> struct is_vector : std::false_type
    {
    };
    template <class T> struct is_vector<std::vector<T>> : std::true_type
    {
    };
    template <class T> struct is_map : std::false_type
    {
    };
    template <class K, class V> struct is_map<std::map<K, V>> : std::true_type
    {
    };
    template <class T> struct is_pair : std::false_type
    {
    };
    template <class A, class B> struct is_pair<std::pair<A, B>> : std::true_type
    {
    };
    template <class T> struct is_tuple : std::false_type
    {
    };
    template <class... A> struct is_tuple<std::tuple<A...>> : std::true_type
    {
    };
    // user types of the family expose their members, in wire order, through tie()
    template <class T>
    concept Struct = requires(T &t) { t.tie(); };
    template <class T>
    concept Scalar = std::is_arithmetic_v<T>;
    // user types whose reflect()/serialize_reflect() is conditional (presence flag + optional block, tag + one of
    // several members, count + that many members): tie() still lists ALL members (comparison, rendering - a member
    // that is not on the wire must come back as the default-constructed target left it), while the wire layout and
    // the generator are the type's own: static T c09_gen(Gen&), void c09_ref(std::string&) const, c09_min_cost
    template <class T>
    concept Custom = requires { T::c09_custom; };

    // ------------------------------------------------------------ generation
    struct Gen
    {
        vf::Rng &r;
        long budget; // leaf bytes still available; bounds the total size of one value
        int depth = 0;
        int rec = 0;      // nesting level of a recursive user type
        unsigned alt = 0; // conditional user types alternate "with block" / "without block" along a container
    };
    template <class T> T gen(Gen &g);
    template <class T> void gen_into(Gen &g, T &out) { out = gen<T>(g); }

    template <class T> constexpr size_t min_cost();
    template <class Tup, size_t... I> constexpr size_t tuple_cost(std::index_sequence<I...>)
    {
        return (min_cost<std::remove_cvref_t<std::tuple_element_t<I, Tup>>>() + ... + 0);
    }
    template <class T> constexpr size_t min_cost()
    {
        if constexpr (Scalar<T>)
            return sizeof(T);
        else if constexpr (std::is_same_v<T, std::string> || is_vector<T>::value || is_map<T>::value)
            return 2;
        else if constexpr (is_pair<T>::value)
            return min_cost<typename T::first_type>() + min_cost<typename T::second_type>();
        else if constexpr (is_tuple<T>::value)
            return tuple_cost<T>(std::make_index_sequence<std::tuple_size_v<T>>{});
        else if constexpr (Custom<T>)
            return T::c09_min_cost;
        else
        {
            using Tie = decltype(std::declval<T &>().tie());
            return tuple_cost<Tie>(std::make_index_sequence<std::tuple_size_v<Tie>>{});
        }
    }
    // sizes biased to 0, 1, 255, 256, 65535, clipped by what the budget can pay for
    static inline size_t pick_size(Gen &g, size_t cost)
    {
        size_t cap = g.budget > 0 ? (size_t)g.budget / (cost ? cost : 1) : 0;
        if (cap > 65535)
            cap = 65535;
        size_t c;
        switch (g.r.below(16))
        {
        case 0:
        case 1:
        case 2:
            c = 0;
            break;
        case 3:
        case 4:
            c = 1;
            break;
        case 5:
            c = 2;
            break;
        case 6:
        case 7:
            c = 3 + g.r.below(6);
            break;
        case 8:
            c = 255;
            break;
        case 9:
            c = 256;
            break;
        case 10:
        case 11:
            c = 65535;
            break;
        case 12:
            c = 254 + g.r.below(4);
            break;
        case 13:
            c = 65534 - g.r.below(3);
            break;
        default:
            c = g.r.below(40);
        }
        if (g.depth > 1 && c > 300)
            c = g.r.below(6); // the large counts belong to the outer levels
        return c < cap ? c : cap;
    }
    template <class T> T gen_scalar(Gen &g)
    {
        g.budget -= (long)sizeof(T);
        uint64_t bits;
        switch (g.r.below(8))
        {
        case 0:
            bits = 0;
            break;
        case 1:
            bits = ~0ull;
            break;
        case 2:
            bits = 1ull << (8 * sizeof(T) - 1); // sign bit only: INT_MIN / -0.0
            break;
        case 3:
            bits = (1ull << (8 * sizeof(T) - 1)) - 1; // INT_MAX / a NaN
            break;
        case 4:
            bits = g.r.below(256);
            break;
        default:
            bits = g.r.next();
        }
        if constexpr (std::is_floating_point_v<T>)
            if (g.r.chance(1, 3))
            {
                T nice = (T)((double)(int64_t)(g.r.next() >> 40) / 64.0 - 1000.0);
                return nice;
            }
        T v;
        memcpy(&v, &bits, sizeof(T));
        return v;
    }
    static inline std::string gen_string(Gen &g)
    {
        size_t n = pick_size(g, 1);
        g.budget -= 2 + (long)n;
        std::string s(n, '\0');
        int mode = (int)g.r.below(4);
        for (size_t i = 0; i < n; i++)
            s[i] = mode == 0   ? (char)g.r.next()                             // any byte
                   : mode == 1 ? (char)('a' + g.r.below(26))                  // text
                   : mode == 2 ? (g.r.chance(1, 3) ? '\0' : (char)g.r.next()) // NUL heavy
                               : (char)(i & 0xff);                            // position pattern
        return s;
    }
    template <class T> T gen(Gen &g)
    {
        if constexpr (Scalar<T>)
            return gen_scalar<T>(g);
        else if constexpr (std::is_same_v<T, std::string>)
            return gen_string(g);
        else if constexpr (is_vector<T>::value)
        {
            using E = typename T::value_type;
            size_t n = pick_size(g, min_cost<E>());
            g.budget -= 2;
            T v;
            v.reserve(n);
            g.depth++;
            for (size_t i = 0; i < n; i++)
                v.push_back(gen<E>(g));
            g.depth--;
            return v;
        }
        else if constexpr (is_map<T>::value)
        {
            using K = typename T::key_type;
            using V = typename T::mapped_type;
            size_t n = pick_size(g, min_cost<K>() + min_cost<V>());
            g.budget -= 2;
            T m;
            g.depth++;
            bool sequential = Scalar<K> && g.r.chance(1, 2);
            uint64_t base = g.r.next(), stride = 1 + g.r.below(3);
            for (size_t i = 0; i < n; i++)
            {
                K k;
                if constexpr (Scalar<K>)
                {
                    if (sequential)
                    {
                        g.budget -= (long)sizeof(K);
                        k = (K)(base + i * stride);
                    }
                    else
                        k = gen<K>(g);
                    if constexpr (std::is_floating_point_v<K>)
                        if (k != k)
                            k = (K)i; // NaN keys break std::map itself
                }
                else
                    k = gen<K>(g);
                m.emplace(std::move(k), gen<V>(g));
            }
            g.depth--;
            return m;
        }
        else if constexpr (is_pair<T>::value)
        {
            T p;
            p.first = gen<typename T::first_type>(g);
            p.second = gen<typename T::second_type>(g);
            return p;
        }
        else if constexpr (is_tuple<T>::value)
        {
            T t;
            std::apply([&](auto &...m) { (gen_into(g, m), ...); }, t);
            return t;
        }
        else if constexpr (Custom<T>)
            return T::c09_gen(g);
        else
        {
            T s{};
            std::apply([&](auto &...m) { (gen_into(g, m), ...); }, s.tie());
            return s;
        }
    }

    // ------------------------------------------------------------ reference encoder (from the statement)
    // scalars: fixed-width native-endian image; string: u16 length + bytes; vector / map: u16 count + elements
    // (map entries as key, value in key order); pair / tuple / user type: the members in order
    static inline void ref_u16(size_t n, std::string &out)
    {
        out += (char)(n & 0xff);
        out += (char)((n >> 8) & 0xff);
    }
    template <class T> void ref_enc(const T &v, std::string &out)
    {
        if constexpr (std::is_integral_v<T>)
        {
            std::make_unsigned_t<T> u = (std::make_unsigned_t<T>)v;
            for (size_t i = 0; i < sizeof(T); i++)
                out += (char)((uint64_t)u >> (8 * i));
        }
        else if constexpr (std::is_same_v<T, float>)
            ref_enc(__builtin_bit_cast(uint32_t, v), out);
        else if constexpr (std::is_same_v<T, double>)
            ref_enc(__builtin_bit_cast(uint64_t, v), out);
        else if constexpr (std::is_same_v<T, std::string>)
        {
            ref_u16(v.size(), out);
            out.append(v);
        }
        else if constexpr (is_vector<T>::value)
        {
            ref_u16(v.size(), out);
            for (const auto &e : v)
                ref_enc(e, out);
        }
        else if constexpr (is_map<T>::value)
        {
            ref_u16(v.size(), out);
            for (const auto &kv : v)
            {
                ref_enc(kv.first, out);
                ref_enc(kv.second, out);
            }
        }
        else if constexpr (is_pair<T>::value)
        {
            ref_enc(v.first, out);
            ref_enc(v.second, out);
        }
        else if constexpr (is_tuple<T>::value)
            std::apply([&](const auto &...m) { (ref_enc(m, out), ...); }, v);
        else if constexpr (Custom<T>)
            v.c09_ref(out);
        else
            std::apply([&](const auto &...m) { (ref_enc(m, out), ...); }, v.tie());
    }

    // ------------------------------------------------------------ comparison (floats by bit image) and rendering
    template <class T> bool same(const T &a, const T &b)
    {
        if constexpr (Scalar<T>)
            return memcmp(&a, &b, sizeof(T)) == 0;
        else if constexpr (std::is_same_v<T, std::string>)
            return a == b;
        else if constexpr (is_vector<T>::value)
        {
            if (a.size() != b.size())
                return false;
            for (size_t i = 0; i < a.size(); i++)
                if (!same(a[i], b[i]))
                    return false;
            return true;
        }
        else if constexpr (is_map<T>::value)
        {
            if (a.size() != b.size())
                return false;
            auto ia = a.begin();
            auto ib = b.begin();
            for (; ia != a.end(); ++ia, ++ib)
                if (!same(ia->first, ib->first) || !same(ia->second, ib->second))
                    return false;
            return true;
        }
        else if constexpr (is_pair<T>::value)
            return same(a.first, b.first) && same(a.second, b.second);
        else if constexpr (is_tuple<T>::value)
            return [&]<size_t... I>(std::index_sequence<I...>) { return (same(std::get<I>(a), std::get<I>(b)) && ...); }(
                std::make_index_sequence<std::tuple_size_v<T>>{});
        else
        {
            auto ta = a.tie();
            auto tb = b.tie();
            return [&]<size_t... I>(std::index_sequence<I...>) { return (same(std::get<I>(ta), std::get<I>(tb)) && ...); }(
                std::make_index_sequence<std::tuple_size_v<decltype(ta)>>{});
        }
    }
    template <class T> void show(const T &v, std::string &out, size_t limit)
    {
        if (out.size() > limit)
            return;
        char b[48];
        if constexpr (std::is_integral_v<T>)
        {
            if constexpr (std::is_signed_v<T>)
                snprintf(b, sizeof b, "%lld", (long long)v);
            else
                snprintf(b, sizeof b, "%lluu", (unsigned long long)v);
            out += b;
        }
        else if constexpr (std::is_same_v<T, float>)
        {
            snprintf(b, sizeof b, "f:%08x", __builtin_bit_cast(uint32_t, v));
            out += b;
        }
        else if constexpr (std::is_same_v<T, double>)
        {
            snprintf(b, sizeof b, "d:%016llx", (unsigned long long)__builtin_bit_cast(uint64_t, v));
            out += b;
        }
        else if constexpr (std::is_same_v<T, std::string>)
        {
            snprintf(b, sizeof b, "s%zu\"", v.size());
            out += b;
            out += vf::esc(v.data(), v.size(), limit > out.size() ? limit - out.size() : 0);
            out += '"';
        }
        else if constexpr (is_vector<T>::value)
        {
            snprintf(b, sizeof b, "[%zu:", v.size());
            out += b;
            for (size_t i = 0; i < v.size() && out.size() <= limit; i++)
            {
                if (i)
                    out += ',';
                show(v[i], out, limit);
            }
            out += ']';
        }
        else if constexpr (is_map<T>::value)
        {
            snprintf(b, sizeof b, "{%zu:", v.size());
            out += b;
            bool first = true;
            for (const auto &kv : v)
            {
                if (out.size() > limit)
                    break;
                if (!first)
                    out += ',';
                first = false;
                show(kv.first, out, limit);
                out += "=>";
                show(kv.second, out, limit);
            }
            out += '}';
        }
        else if constexpr (is_pair<T>::value)
        {
            out += '(';
            show(v.first, out, limit);
            out += ',';
            show(v.second, out, limit);
            out += ')';
        }
        else if constexpr (is_tuple<T>::value)
        {
            out += "t(";
            std::apply([&](const auto &...m) { ((show(m, out, limit), out += ';'), ...); }, v);
            out += ')';
        }
        else
        {
            out += '<';
            std::apply([&](const auto &...m) { ((show(m, out, limit), out += ';'), ...); }, v.tie());
            out += '>';
        }
    }
    template <class T> std::string shown(const T &v, size_t limit = 240)
    {
        std::string s;
        show(v, s, limit);
        if (s.size() > limit + 40)
            s.resize(limit + 40), s += "...";
        return s;
    }
    static inline std::string unhex(const char *h)
    {
        std::string s;
        auto nib = [](char c) { return c <= '9' ? c - '0' : c - 'a' + 10; };
        for (; h[0] && h[1]; h += 2)
            s += (char)(nib(h[0]) * 16 + nib(h[1]));
        return s;
    }
    static inline std::string hexall(const std::string &s) { return vf::hex(s.data(), s.size(), s.size()); }
    // first differing offset of two byte strings (for witnesses)
    static inline size_t first_diff(const std::string &a, const std::string &b)
    {
        size_t i = 0;
        while (i < a.size() && i < b.size() && a[i] == b[i])
            i++;
        return i;
    }

    // ------------------------------------------------------------ value streams
    enum : uint64_t
    {
        GOLDEN_SEED = 0x60D09,
        GOLDEN_PER_TYPE = 6
    };
    // the k-th golden value of a type: small, independent of VERIF_SEED
    template <class T> T golden_value(uint64_t type_salt, uint64_t k)
    {
        vf::Rng r(GOLDEN_SEED, type_salt, k);
        Gen g{r, k < 2 ? 24 : 90};
        return gen<T>(g);
    }
    static inline uint64_t name_salt(const char *name) { return vf::hash_bytes(name, strlen(name)); }

    struct GoldenRec
    {
        const char *type;
        int k;
        const char *value;
        const char *hex;
    };

    // ------------------------------------------------------------ the per-value checks
    // Fw supplies: name(); enc(v) -> std::string; dec<T>(p, n) -> T (public one-shot API);
    //              struct Reader { Reader(p, n); template<T> void get(T&); size_t pos(); }
    //              extra(v, enc) -> nullptr or what went wrong with the front end's other entry points
    template <class Fw, class T> void check_value(const char *tname, const T &v, const T &w, int placement)
    {
        char key[180], cls[110];
        std::string sv = vf::verbose() || vf::want_sample() ? shown(v) : std::string();
        if (vf::verbose())
            printf("  %s value=%s\n", tname, sv.c_str());
        // (3) layout: bytes == independent reference encoder
        snprintf(cls, sizeof cls, "%s:serialize", tname);
        vf::cls(cls);
        std::string enc = Fw::enc(v), ref;
        ref_enc(v, ref);
        if (enc != ref)
        {
            snprintf(key, sizeof key, "layout:%s", tname);
            size_t d = first_diff(enc, ref);
            vf::fail(key, "value=%s: %zu bytes encoded, reference %zu bytes, first difference at offset %zu; encoded[%zu..]=%s reference[%zu..]=%s",
                     shown(v).c_str(), enc.size(), ref.size(), d, d, vf::hex(enc.data() + d, enc.size() - d, 24).c_str(), d,
                     vf::hex(ref.data() + d, ref.size() - d, 24).c_str());
        }
        VF_OK("encoded bytes == reference encoder of the stated layout");
        std::string encw = Fw::enc(w), refw;
        ref_enc(w, refw);
        if (encw != refw)
        {
            snprintf(key, sizeof key, "layout:%s", tname);
            size_t d = first_diff(encw, refw);
            vf::fail(key, "value=%s: %zu bytes encoded, reference %zu bytes, first difference at offset %zu; encoded[%zu..]=%s reference[%zu..]=%s",
                     shown(w).c_str(), encw.size(), refw.size(), d, d, vf::hex(encw.data() + d, encw.size() - d, 24).c_str(), d,
                     vf::hex(refw.data() + d, refw.size() - d, 24).c_str());
        }
        // (1) round trip through the one-shot API on an exact heap copy, and cursor == |enc|
        vf::Exact e(enc.data(), enc.size(), placement ? 0 : 1 + (unsigned)enc.size() % 5, placement != 0);
        snprintf(cls, sizeof cls, "%s:deserialize", tname);
        vf::cls(cls);
        {
            T back = Fw::template dec<T>(e.cc(), enc.size());
            if (!same(back, v))
            {
                snprintf(key, sizeof key, "roundtrip:%s", tname);
                vf::fail(key, "value=%s decoded=%s (%zu encoded bytes)", shown(v).c_str(), shown(back).c_str(), enc.size());
            }
            VF_OK("deserialize(serialize(v)) == v");
        }
        {
            typename Fw::Reader rd(e.cc(), enc.size());
            T back{};
            rd.get(back);
            if (rd.pos() != enc.size() || !same(back, v))
            {
                snprintf(key, sizeof key, "cursor:%s", tname);
                vf::fail(key, "value=%s: reader at %zu after decode, %zu bytes were produced (value %s)", shown(v).c_str(), rd.pos(), enc.size(),
                         same(back, v) ? "equal" : "differs");
            }
            VF_OK("reader cursor after decode == bytes produced");
        }
        // (2) concatenation: enc(v) ++ enc(u32 sentinel) ++ enc(w) decodes in sequence
        {
            uint32_t sentinel = 0xC0FFEE00u | (uint32_t)(enc.size() & 0xff), sback = 0;
            std::string stream = enc + Fw::enc(sentinel) + encw;
            vf::Exact es(stream.data(), stream.size(), placement ? 0 : 3, placement != 0);
            snprintf(cls, sizeof cls, "%s:concatenated", tname);
            vf::cls(cls);
            typename Fw::Reader rd(es.cc(), stream.size());
            T a{}, b{};
            rd.get(a);
            size_t p1 = rd.pos();
            rd.get(sback);
            size_t p2 = rd.pos();
            rd.get(b);
            size_t p3 = rd.pos();
            if (p1 != enc.size() || p2 != enc.size() + 4 || p3 != stream.size() || !same(a, v) || sback != sentinel || !same(b, w))
            {
                snprintf(key, sizeof key, "concat:%s", tname);
                vf::fail(key, "a=%s b=%s: cursors %zu,%zu,%zu expected %zu,%zu,%zu; a %s, sentinel %s, b %s", shown(v, 100).c_str(),
                         shown(w, 100).c_str(), p1, p2, p3, enc.size(), enc.size() + 4, stream.size(), same(a, v) ? "ok" : "differs",
                         sback == sentinel ? "ok" : "differs", same(b, w) ? "ok" : "differs");
            }
            VF_OK("enc(a) ++ enc(b) decodes to a then b, cursor after a == |enc(a)|");
        }
        // front-end specific entry points (caller-buffer writer, std::string overloads, caller storage)
        snprintf(cls, sizeof cls, "%s:other-entry-points", tname);
        vf::cls(cls);
        if (const char *what = Fw::extra(v, enc))
        {
            snprintf(key, sizeof key, "entry-point:%s", tname);
            vf::fail(key, "value=%s (%zu encoded bytes): %s", shown(v).c_str(), enc.size(), what);
        }
        VF_OK("the other entry points of the front end produce / accept the same bytes");
        if (enc.size() > 65535)
            VF_OK("values whose encoding exceeds 64 KiB");
        VF_MAX("largest encoding (bytes)", enc.size());
        vf::count_case(vf::hash_bytes(enc.data(), enc.size(), name_salt(tname)), enc.size() > sizeof(uint64_t) || !Scalar<T>);
        if (vf::want_sample() && enc.size() > 12 && enc.size() < 80)
            vf::sample("%s value=%s bytes=%s", tname, sv.c_str(), hexall(enc).c_str());
    }

    // golden records of one type: recorded bytes still decode to the recorded value and are still produced
    template <class Fw, class T> void check_golden(const char *tname, const GoldenRec *recs, size_t nrecs)
    {
        char key[180], cls[110];
        size_t seen = 0;
        for (size_t i = 0; i < nrecs; i++)
        {
            if (strcmp(recs[i].type, tname) != 0)
                continue;
            seen++;
            T v = golden_value<T>(name_salt(tname), (uint64_t)recs[i].k);
            std::string text = shown(v, 4000), bytes = unhex(recs[i].hex);
            if (text != recs[i].value)
            {
                snprintf(key, sizeof key, "golden:generator-drift:%s", tname);
                vf::fail(key, "golden value %d regenerates as %s, recorded %s (harness problem, not igris)", recs[i].k, text.c_str(), recs[i].value);
            }
            if (vf::verbose())
                printf("  golden %s #%d value=%s bytes=%s\n", tname, recs[i].k, text.c_str(), recs[i].hex);
            vf::Exact e(bytes.data(), bytes.size(), 1, false);
            snprintf(cls, sizeof cls, "%s:golden-decode", tname);
            vf::cls(cls);
            T back = Fw::template dec<T>(e.cc(), bytes.size());
            if (!same(back, v))
            {
                snprintf(key, sizeof key, "golden:decode:%s", tname);
                vf::fail(key, "recorded bytes %s decode to %s, recorded value %s", recs[i].hex, shown(back).c_str(), recs[i].value);
            }
            VF_OK("golden encoding still decodes to the recorded value");
            snprintf(cls, sizeof cls, "%s:golden-encode", tname);
            vf::cls(cls);
            std::string enc = Fw::enc(v);
            if (enc != bytes)
            {
                snprintf(key, sizeof key, "golden:encode:%s", tname);
                vf::fail(key, "value %s now encodes as %s, recorded %s", recs[i].value, hexall(enc).c_str(), recs[i].hex);
            }
            VF_OK("recorded value still encodes to the golden bytes");
        }
        if (seen != GOLDEN_PER_TYPE)
        {
            snprintf(key, sizeof key, "golden:missing:%s", tname);
            vf::fail(key, "%zu golden records for this type, expected %d (regenerate harness/C09/golden_*.inc)", seen, (int)GOLDEN_PER_TYPE);
        }
    }

    // one registered type of the family
    struct TypeOps
    {
        const char *name;
        void (*run)(const char *name, uint64_t batch);
        void (*golden)(const char *name);
        void (*emit_golden)(const char *name, FILE *f);
    };
    static inline int values_per_case() { return vf::thorough() ? 100 : 10; }
    static inline int batches_per_type() { return vf::thorough() ? 200 : 20; }

    template <class Fw, class T> void run_type(const char *name, uint64_t batch)
    {
        uint64_t salt = name_salt(name);
        int n = values_per_case();
        for (int i = 0; i < n; i++)
        {
            vf::Rng r(vf::seed(), salt, batch * 1000 + (uint64_t)i);
            // one value in 25 (thorough: in 100, there are 100 times as many) may grow to the 16-bit limits
            bool big = r.chance(1, vf::thorough() ? 100 : 25);
            Gen g{r, big ? 420000 : (r.chance(1, 4) ? 6000 : 400)};
            T v = gen<T>(g);
            Gen g2{r, 300};
            T w = gen<T>(g2);
            check_value<Fw, T>(name, v, w, (int)((batch + (uint64_t)i) & 1));
        }
    }
    template <class Fw, class T> void emit_golden(const char *name, FILE *f)
    {
        for (uint64_t k = 0; k < GOLDEN_PER_TYPE; k++)
        {
            T v = golden_value<T>(name_salt(name), k);
            std::string text = shown(v, 4000), enc = Fw::enc(v), q;
            for (char c : text)
            {
                if (c == '"' || c == '\\')
                    q += '\\';
                q += c;
            }
            fprintf(f, "{\"%s\", %d, \"%s\", \"%s\"},\n", name, (int)k, q.c_str(), hexall(enc).c_str());
        }
    }
}
