// C09 — policy class and user types for the archive.h / stdtypes.h front end (reflect()).
#pragma once
#include "c09.h"
#include <igris/serialize/serialize.h>
#include <igris/serialize/stdtypes.h>

namespace c09
{
    struct OldFw
    {
        template <class T> static std::string enc(const T &v) { return igris::serialize(v); }
        template <class T> static T dec(const char *p, size_t n) { return igris::deserialize<T>(igris::buffer(p, n)); }
        // binary_buffer_writer into a caller block of exactly |enc| bytes; deserialize<T>(std::string)
        template <class T> static const char *extra(const T &v, const std::string &enc)
        {
            vf::Exact out(nullptr, enc.size(), 1, false);
            igris::archive::binary_buffer_writer w(out.c(), enc.size());
            igris::serialize(w, v);
            if ((size_t)(w.ptr - out.c()) != enc.size())
                return "binary_buffer_writer: write cursor != number of bytes binary_string_writer produced";
            if (memcmp(out.p, enc.data(), enc.size()) != 0)
                return "binary_buffer_writer: bytes differ from binary_string_writer";
            if (enc.size() <= 4096 && !same(igris::deserialize<T>(enc), v))
                return "deserialize<T>(std::string) != v";
            return nullptr;
        }
        struct Reader
        {
            const char *base;
            igris::archive::binary_buffer_reader r;
            Reader(const char *p, size_t n) : base(p), r(p, n) {}
            template <class T> void get(T &out) { igris::deserialize(r, out); }
            size_t pos() { return (size_t)(r.ptr - base); }
        };
    };

    // user types exposing reflect(); tie() lists the same members in the same order for the harness
    struct A
    {
        int32_t a = 34;
        uint8_t b = 83;
        int16_t c = 17;
        template <class R> void reflect(R &r)
        {
            r &a;
            r &b;
            r &c;
        }
        auto tie() { return std::tie(a, b, c); }
        auto tie() const { return std::tie(a, b, c); }
    };
    struct B
    {
        std::string name;
        std::vector<int32_t> v;
        A a;
        template <class R> void reflect(R &r)
        {
            r &name;
            r &v;
            r &a;
        }
        auto tie() { return std::tie(name, v, a); }
        auto tie() const { return std::tie(name, v, a); }
    };
    struct C
    {
        std::vector<B> bs;
        std::map<std::string, A> m;
        double d = 0;
        std::tuple<int8_t, std::string> t;
        std::pair<uint64_t, float> p;
        template <class R> void reflect(R &r)
        {
            r &bs;
            r &m;
            r &d;
            r &t;
            r &p;
        }
        auto tie() { return std::tie(bs, m, d, t, p); }
        auto tie() const { return std::tie(bs, m, d, t, p); }
    };
    // members with default initialisers: what a default-constructed decode target already holds
    struct D
    {
        std::vector<int32_t> v = {1, 2, 3};
        std::map<int32_t, int32_t> m = {{1, 2}};
        std::string s = "x";
        int16_t n = 7;
        template <class R> void reflect(R &r)
        {
            r &v;
            r &m;
            r &s;
            r &n;
        }
        auto tie() { return std::tie(v, m, s, n); }
        auto tie() const { return std::tie(v, m, s, n); }
    };

    // registration helpers shared by the two old-front-end TUs
    template <class T> void old_golden(const char *name);
}
