// C09 — policy class and user types for the archive.h / stdtypes.h front end (reflect()).
#pragma once
#include "c09.h"
#include <igris/serialize/serialize.h>
#include <igris/serialize/stdtypes.h>

namespace c09
{
    struct OldFw
    {
        template <class T> static std::string enc(const T &v) { return igris::serialize(v); }
        template <class T> static T dec(const char *p, size_t n) { return igris::deserialize<T>(igris::buffer(p, n)); }
        // binary_buffer_writer into a caller block of exactly |enc| bytes; deserialize<T>(std::string)
        template <class T> static const char *extra(const T &v, const std::string &enc)
        {
            vf::Exact out(nullptr, enc.size(), 1, false);
            igris::archive::binary_buffer_writer w(out.c(), enc.size());
            igris::serialize(w, v);
            if ((size_t)(w.ptr - out.c()) != enc.size())
                return "binary_buffer_writer: write cursor != number of bytes binary_string_writer produced";
            if (memcmp(out.p, enc.data(), enc.size()) != 0)
                return "binary_buffer_writer: bytes differ from binary_string_writer";
            if (enc.size() <= 4096 && !same(igris::deserialize<T>(enc), v))
                return "deserialize<T>(std::string) != v";
            return nullptr;
        }
        struct Reader
        {
            const char *base;
            igris::archive::binary_buffer_reader r;
            Reader(const char *p, size_t n) : base(p), r(p, n) {}
            template <class T> void get(T &out) { igris::deserialize(r, out); }
            size_t pos() { return (size_t)(r.ptr - base); }
        };
    };

    // user types exposing reflect(); tie() lists the same members in the same order for the harness
    struct A
    {
        int32_t a = 34;
        uint8_t b = 83;
        int16_t c = 17;
        template <class R> void reflect(R &r)
        {
            r &a;
            r &b;
            r &c;
        }
        auto tie() { return std::tie(a, b, c); }
        auto tie() const { return std::tie(a, b, c); }
    };
    struct B
    {
        std::string name;
        std::vector<int32_t> v;
        A a;
        template <class R> void reflect(R &r)
        {
            r &name;
            r &v;
            r &a;
        }
        auto tie() { return std::tie(name, v, a); }
        auto tie() const { return std::tie(name, v, a); }
    };
    struct C
    {
        std::vector<B> bs;
        std::map<std::string, A> m;
        double d = 0;
        std::tuple<int8_t, std::string> t;
        std::pair<uint64_t, float> p;
        template <class R> void reflect(R &r)
        {
            r &bs;
            r &m;
            r &d;
            r &t;
            r &p;
        }
        auto tie() { return std::tie(bs, m, d, t, p); }
        auto tie() const { return std::tie(bs, m, d, t, p); }
    };
    // members with default initialisers: what a default-constructed decode target already holds
    struct D
    {
        std::vector<int32_t> v = {1, 2, 3};
        std::map<int32_t, int32_t> m = {{1, 2}};
        std::string s = "x";
        int16_t n = 7;
        template <class R> void reflect(R &r)
        {
            r &v;
            r &m;
            r &s;
            r &n;
        }
        auto tie() { return std::tie(v, m, s, n); }
        auto tie() const { return std::tie(v, m, s, n); }
    };

    // ---- user types whose reflect() is conditional: decoding does not assign every member, so whatever the
    // decode target (or a scratch object reused by a container decoder) held before shows through
    // presence flag + optional block
    struct Opt
    {
        int16_t id = 0; // first in the order, so that in key position "with" and "without" entries interleave
        uint8_t has = 0;
        int32_t x = 0;
        std::string s;
        template <class R> void reflect(R &r)
        {
            r &id;
            r &has;
            if (has)
            {
                r &x;
                r &s;
            }
        }
        auto tie() { return std::tie(id, has, x, s); }
        auto tie() const { return std::tie(id, has, x, s); }
        bool operator<(const Opt &o) const { return tie() < o.tie(); }
        static constexpr bool c09_custom = true;
        static constexpr size_t c09_min_cost = 3;
        static Opt c09_gen(Gen &g)
        {
            Opt o;
            o.id = gen<int16_t>(g);
            bool with = g.r.chance(1, 3) ? g.r.chance(1, 2) : (g.alt++ & 1) == 0;
            g.budget -= 1;
            o.has = with ? (uint8_t)(1 + g.r.below(255)) : 0;
            if (with)
            {
                o.x = gen<int32_t>(g);
                if (o.x == 0)
                    o.x = 77;
                o.s = gen<std::string>(g);
                if (o.s.empty())
                    o.s = "block";
            }
            return o;
        }
        void c09_ref(std::string &out) const
        {
            ref_enc(id, out);
            ref_enc(has, out);
            if (has)
            {
                ref_enc(x, out);
                ref_enc(s, out);
            }
        }
    };
    // tag + one of several members
    struct Var
    {
        uint8_t tag = 0;
        int16_t i = 0;
        std::string s;
        std::vector<uint8_t> v;
        template <class R> void reflect(R &r)
        {
            r &tag;
            switch (tag)
            {
            case 0:
                r &i;
                break;
            case 1:
                r &s;
                break;
            default:
                r &v;
            }
        }
        auto tie() { return std::tie(tag, i, s, v); }
        auto tie() const { return std::tie(tag, i, s, v); }
        bool operator<(const Var &o) const { return tie() < o.tie(); }
        static constexpr bool c09_custom = true;
        static constexpr size_t c09_min_cost = 3;
        static Var c09_gen(Gen &g)
        {
            Var a;
            g.budget -= 1;
            a.tag = (uint8_t)(g.r.chance(1, 2) ? g.alt++ % 3 : g.r.below(3));
            if (a.tag == 0)
                a.i = (int16_t)(gen<int16_t>(g) | 1);
            else if (a.tag == 1)
            {
                a.s = gen<std::string>(g);
                if (a.s.empty())
                    a.s = "s";
            }
            else
            {
                a.v = gen<std::vector<uint8_t>>(g);
                if (a.v.empty())
                    a.v.push_back(9);
            }
            return a;
        }
        void c09_ref(std::string &out) const
        {
            ref_enc(tag, out);
            if (tag == 0)
                ref_enc(i, out);
            else if (tag == 1)
                ref_enc(s, out);
            else
                ref_enc(v, out);
        }
    };
    // count + that many members
    struct Cnt
    {
        int16_t id = 0;
        uint8_t n = 0;
        int32_t m0 = 0, m1 = 0, m2 = 0;
        template <class R> void reflect(R &r)
        {
            r &id;
            r &n;
            if (n > 0)
                r &m0;
            if (n > 1)
                r &m1;
            if (n > 2)
                r &m2;
        }
        auto tie() { return std::tie(id, n, m0, m1, m2); }
        auto tie() const { return std::tie(id, n, m0, m1, m2); }
        bool operator<(const Cnt &o) const { return tie() < o.tie(); }
        static constexpr bool c09_custom = true;
        static constexpr size_t c09_min_cost = 3;
        static Cnt c09_gen(Gen &g)
        {
            Cnt c;
            c.id = gen<int16_t>(g);
            g.budget -= 1;
            c.n = (uint8_t)(g.r.chance(1, 2) ? 3 - g.alt++ % 4 : g.r.below(4)); // 3,2,1,0,3,...: a shorter one follows a longer one
            int32_t *m[3] = {&c.m0, &c.m1, &c.m2};
            for (int k = 0; k < c.n; k++)
                *m[k] = gen<int32_t>(g) | 1;
            return c;
        }
        void c09_ref(std::string &out) const
        {
            ref_enc(id, out);
            ref_enc(n, out);
            if (n > 0)
                ref_enc(m0, out);
            if (n > 1)
                ref_enc(m1, out);
            if (n > 2)
                ref_enc(m2, out);
        }
    };
    // conditional types as members, in a vector member and in a map member
    struct E
    {
        Opt o;
        std::vector<Cnt> cs;
        std::map<uint8_t, Opt> m;
        Var v;
        template <class R> void reflect(R &r)
        {
            r &o;
            r &cs;
            r &m;
            r &v;
        }
        auto tie() { return std::tie(o, cs, m, v); }
        auto tie() const { return std::tie(o, cs, m, v); }
    };

    // registration helpers shared by the two old-front-end TUs
    template <class T> void old_golden(const char *name);
}
