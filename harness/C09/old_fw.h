// C09 — policy class and user types for the archive.h / stdtypes.h front end (reflect()).
#pragma once
#include "c09.h"
#include <igris/serialize/serialize.h>
#include <igris/serialize/stdtypes.h>

namespace c09
{
    struct OldFw
    {
        template <class T> static std::string enc(const T &v) { return igris::serialize(v); }
        template <class T> static T dec(const char *p, size_t n) { return igris::deserialize<T>(igris::buffer(p, n)); }
        // binary_buffer_writer into a caller block of exactly |enc| bytes; deserialize<T>(std::string)
        template <class T> static const char *extra(const T &v, const std::string &enc)
        {
            vf::Exact out(nullptr, enc.size(), 1, false);
            igris::archive::binary_buffer_writer w(out.c(), enc.size());
            igris::serialize(w, v);
            if ((size_t)(w.ptr - out.c()) != enc.size())
                return "binary_buffer_writer: write cursor != number of bytes binary_string_writer produced";
            if (memcmp(out.p, enc.data(), enc.size()) != 0)
                return "binary_buffer_writer: bytes differ from binary_string_writer";
            if (enc.size() <= 4096 && !same(igris::deserialize<T>(enc), v))
                return "deserialize<T>(std::string) != v";
            return nullptr;
        }
        struct Reader
        {
            const char *base;
            igris::archive::binary_buffer_reader r;
            Reader(const char *p, size_t n) : base(p), r(p, n) {}
            template <class T> void get(T &out) { igris::deserialize(r, out); }
            size_t pos() { return (size_t)(r.ptr - base); }
        };
    };

    // user types exposing reflect(); tie() lists the same members in the same order for the harness
    struct A
    {
        int32_t a = 34;
        uint8_t b = 83;
        int16_t c = 17;
        template <class R> void reflect(R &r)
        {
            r &a;
            r &b;
            r &c;
        }
        auto tie() { return std::tie(a, b, c); }
        auto tie() const { return std::tie(a, b, c); }
    };
    struct B
    {
        std::string name;
        std::vector<int32_t> v;
        A a;
        template <class R> void reflect(R &r)
        {
            r &name;
            r &v;
            r &a;
        }
        auto tie() { return std::tie(name, v, a); }
        auto tie() const { return std::tie(name, v, a); }
    };
    struct C
    {
        std::vector<B> bs;
        std::map<std::string, A> m;
        double d = 0;
        std::tuple<int8_t, std::string> t;
        std::pair<uint64_t, float> p;
        template <class R> void reflect(R &r)
        {
            r &bs;
            r &m;
            r &d;
            r &t;
            r &p;
        }
        auto tie() { return std::tie(bs, m, d, t, p); }
        auto tie() const { return std::tie(bs, m, d, t, p); }
    };
    // members with default initialisers: what a default-constructed decode target already holds
    struct D
    {
        std::vector<int32_t> v = {1, 2, 3};
        std::map<int32_t, int32_t> m = {{1, 2}};
        std::string s = "x";
        int16_t n = 7;
        template <class R> void reflect(R &r)
        {
            r &v;
            r &m;
            r &s;
            r &n;
        }
        auto tie() { return std::tie(v, m, s, n); }
        auto tie() const { return std::tie(v, m, s, n); }
    };

    // ---- user types whose reflect() is conditional: decoding does not assign every member, so whatever the
    // decode target (or a scratch object reused by a container decoder) held before shows through
    // presence flag + optional block
    struct Opt
    {
        int16_t id = 0; // first in the order, so that in key position "with" and "without" entries interleave
        uint8_t has = 0;
        int32_t x = 0;
        std::string s;
        template <class R> void reflect(R &r)
        {
            r &id;
            r &has;
            if (has)
            {
                r &x;
                r &s;
            }
        }
        auto tie() { return std::tie(id, has, x, s); }
        auto tie() const { return std::tie(id, has, x, s); }
        bool operator<(const Opt &o) const { return tie() < o.tie(); }
        static constexpr bool c09_custom = true;
        static constexpr size_t c09_min_cost = 3;
        static Opt c09_gen(Gen &g)
        {
            Opt o;
            o.id = gen<int16_t>(g);
            bool with = g.r.chance(1, 3) ? g.r.chance(1, 2) : (g.alt++ & 1) == 0;
            g.budget -= 1;
            o.has = with ? (uint8_t)(1 + g.r.below(255)) : 0;
            if (with)
            {
                o.x = gen<int32_t>(g);
                if (o.x == 0)
                    o.x = 77;
                o.s = gen<std::string>(g);
                if (o.s.empty())
                    o.s = "block";
            }
            return o;
        }
        void c09_ref(std::string &out) const
        {
            ref_enc(id, out);
            ref_enc(has, out);
            if (has)
            {
                ref_enc(x, out);
                ref_enc(s, out);
            }
        }
    };
    // tag + one of several members
    struct Var
    {
        uint8_t tag = 0;
        int16_t i = 0;
        std::string s;
        std::vector<uint8_t> v;
        template <class R> void reflect(R &r)
        {
            r &tag;
            switch (tag)
            {
            case 0:
                r &i;
                break;
            case 1:
                r &s;
                break;
            default:
                r &v;
            }
        }
        auto tie() { return std::tie(tag, i, s, v); }
        auto tie() const { return std::tie(tag, i, s, v); }
        bool operator<(const Var &o) const { return tie() < o.tie(); }
        static constexpr bool c09_custom = true;
        static constexpr size_t c09_min_cost = 3;
        static Var c09_gen(Gen &g)
        {
            Var a;
            g.budget -= 1;
            a.tag = (uint8_t)(g.r.chance(1, 2) ? g.alt++ % 3 : g.r.below(3));
            if (a.tag == 0)
                a.i = (int16_t)(gen<int16_t>(g) | 1);
            else if (a.tag == 1)
            {
                a.s = gen<std::string>(g);
                if (a.s.empty())
                    a.s = "s";
            }
            else
            {
                a.v = gen<std::vector<uint8_t>>(g);
                if (a.v.empty())
                    a.v.push_back(9);
            }
            return a;
        }
        void c09_ref(std::string &out) const
        {
            ref_enc(tag, out);
            if (tag == 0)
                ref_enc(i, out);
            else if (tag == 1)
                ref_enc(s, out);
            else
                ref_enc(v, out);
        }
    };
    // count + that many members
    struct Cnt
    {
        int16_t id = 0;
        uint8_t n = 0;
        int32_t m0 = 0, m1 = 0, m2 = 0;
        template <class R> void reflect(R &r)
        {
            r &id;
            r &n;
            if (n > 0)
                r &m0;
            if (n > 1)
                r &m1;
            if (n > 2)
                r &m2;
        }
        auto tie() { return std::tie(id, n, m0, m1, m2); }
        auto tie() const { return std::tie(id, n, m0, m1, m2); }
        bool operator<(const Cnt &o) const { return tie() < o.tie(); }
        static constexpr bool c09_custom = true;
        static constexpr size_t c09_min_cost = 3;
        static Cnt c09_gen(Gen &g)
        {
            Cnt c;
            c.id = gen<int16_t>(g);
            g.budget -= 1;
            c.n = (uint8_t)(g.r.chance(1, 2) ? 3 - g.alt++ % 4 : g.r.below(4)); // 3,2,1,0,3,...: a shorter one follows a longer one
            int32_t *m[3] = {&c.m0, &c.m1, &c.m2};
            for (int k = 0; k < c.n; k++)
                *m[k] = gen<int32_t>(g) | 1;
            return c;
        }
        void c09_ref(std::string &out) const
        {
            ref_enc(id, out);
            ref_enc(n, out);
            if (n > 0)
                ref_enc(m0, out);
            if (n > 1)
                ref_enc(m1, out);
            if (n > 2)
                ref_enc(m2, out);
        }
    };
    // conditional types as members, in a vector member and in a map member
    struct E
    {
        Opt o;
        std::vector<Cnt> cs;
        std::map<uint8_t, Opt> m;
        Var v;
        template <class R> void reflect(R &r)
        {
            r &o;
            r &cs;
            r &m;
            r &v;
        }
        auto tie() { return std::tie(o, cs, m, v); }
        auto tie() const { return std::tie(o, cs, m, v); }
    };

    // ---- recursive user types with custom serialize()/deserialize() members (serialize_helper_basic<.., true>): a
    // child travels as a length-prefixed blob produced by the free function igris::serialize(child), so that function
    // is re-entered - for the same T - while the parent is being written; likewise igris::deserialize<T>(blob)
    static inline std::string short_name(Gen &g)
    {
        std::string s(g.r.below(12), 'x');
        for (char &c : s)
            c = (char)(g.r.chance(1, 6) ? g.r.next() : 'a' + g.r.below(26));
        return s;
    }
    struct Node // tree, 0..3 children per node, depth 0..4
    {
        int32_t val = 0;
        std::string name;
        std::vector<Node> kids;
        void serialize(igris::archive::binary_serializer_basic &m) const
        {
            igris::serialize(m, val);
            igris::serialize(m, name);
            igris::serialize(m, (uint16_t)kids.size());
            for (const Node &k : kids)
            {
                std::string blob = igris::serialize(k);
                igris::serialize(m, blob);
            }
        }
        void deserialize(igris::archive::binary_deserializer_basic &m)
        {
            uint16_t n = 0;
            igris::deserialize(m, val);
            igris::deserialize(m, name);
            igris::deserialize(m, n);
            kids.clear();
            for (int i = 0; i < n; i++)
            {
                std::string blob;
                igris::deserialize(m, blob);
                kids.push_back(igris::deserialize<Node>(blob));
            }
        }
        auto tie() { return std::tie(val, name, kids); }
        auto tie() const { return std::tie(val, name, kids); }
        static constexpr bool c09_custom = true;
        static constexpr size_t c09_min_cost = 8;
        static Node c09_gen(Gen &g)
        {
            Node n;
            n.val = gen<int32_t>(g);
            n.name = short_name(g);
            size_t nk = g.rec >= 4 ? 0 : g.r.below(3) == 0 ? 0 : 1 + g.r.below(3);
            g.rec++;
            for (size_t i = 0; i < nk; i++)
                n.kids.push_back(c09_gen(g));
            g.rec--;
            return n;
        }
        void c09_ref(std::string &out) const
        {
            ref_enc(val, out);
            ref_enc(name, out);
            ref_u16(kids.size(), out);
            for (const Node &k : kids)
            {
                std::string b;
                k.c09_ref(b);
                ref_u16(b.size(), out);
                out += b;
            }
        }
    };
    // serialize() calls igris::serialize on a member of the same type (next) and on one of another type (other)
    struct Chain
    {
        uint8_t tag = 0;
        std::vector<Chain> next; // none or one
        Opt other;
        int16_t tail = 0;
        void serialize(igris::archive::binary_serializer_basic &m) const
        {
            igris::serialize(m, tag);
            igris::serialize(m, (uint8_t)next.size());
            if (!next.empty())
                igris::serialize(m, igris::serialize(next[0]));
            igris::serialize(m, igris::serialize(other));
            igris::serialize(m, tail);
        }
        void deserialize(igris::archive::binary_deserializer_basic &m)
        {
            uint8_t has = 0;
            std::string blob;
            igris::deserialize(m, tag);
            igris::deserialize(m, has);
            next.clear();
            if (has)
            {
                igris::deserialize(m, blob);
                next.push_back(igris::deserialize<Chain>(blob));
            }
            igris::deserialize(m, blob);
            other = igris::deserialize<Opt>(blob);
            igris::deserialize(m, tail);
        }
        auto tie() { return std::tie(tag, next, other, tail); }
        auto tie() const { return std::tie(tag, next, other, tail); }
        static constexpr bool c09_custom = true;
        static constexpr size_t c09_min_cost = 10;
        static Chain c09_gen(Gen &g)
        {
            Chain c;
            c.tag = gen<uint8_t>(g);
            Gen small{g.r, 60};
            small.alt = g.alt++;
            c.other = Opt::c09_gen(small);
            c.tail = gen<int16_t>(g);
            if (g.rec < 4 && g.r.chance(2, 3))
            {
                g.rec++;
                c.next.push_back(c09_gen(g));
                g.rec--;
            }
            return c;
        }
        void c09_ref(std::string &out) const
        {
            std::string b;
            ref_enc(tag, out);
            ref_enc((uint8_t)next.size(), out);
            if (!next.empty())
            {
                next[0].c09_ref(b);
                ref_u16(b.size(), out);
                out += b;
                b.clear();
            }
            other.c09_ref(b);
            ref_u16(b.size(), out);
            out += b;
            ref_enc(tail, out);
        }
    };

    // registration helpers shared by the two old-front-end TUs
    template <class T> void old_golden(const char *name);
}
