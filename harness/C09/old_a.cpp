// C09 — archive.h/stdtypes.h front end, part 1: scalars, std::string, igris::buffer (+ vf main).
#define C09_PART "old_scalars"
#define C09_MAIN_TU
#define C09_TYPE_LIST                                                                                                  \
    TY("i8", int8_t) TY("u8", uint8_t) TY("i16", int16_t) TY("u16", uint16_t) TY("i32", int32_t) TY("u32", uint32_t)    \
    TY("i64", int64_t) TY("u64", uint64_t) TY("f32", float) TY("f64", double) TY("string", str)
#include "old_impl.h"
#include "hist_old.h"

#ifndef C09_GEN_GOLDEN
// igris::buffer / std::string_view: u16 length + bytes; decoded as a view into the input or into caller storage
static uint64_t buffer_count() { return vf::thorough() ? 4000 : 200; }
static void buffer_run(uint64_t idx)
{
    vf::Rng r(vf::seed(), 0xB0FF, idx);
    Gen g{r, r.chance(1, 20) ? 70000 : 600};
    std::string s = gen_string(g), ref;
    if (idx == 0)
        s.assign(65535, '\0'), s[65534] = 'z';
    if (vf::verbose())
        printf("  buffer of %zu bytes: %s\n", s.size(), shown(s).c_str());
    ref_enc(s, ref);
    vf::Exact src(s.data(), s.size(), 1, false);
    vf::cls("old.buffer:serialize");
    std::string enc = igris::serialize(igris::buffer(src.cc(), s.size()));
    std::string encv = igris::serialize(std::string_view(src.cc(), s.size()));
    if (enc != ref || encv != ref)
        vf::fail("layout:old.buffer", "buffer of %zu bytes: encoded %zu / %zu bytes (buffer / string_view), reference %zu; first difference at %zu", s.size(),
                 enc.size(), encv.size(), ref.size(), first_diff(enc != ref ? enc : encv, ref));
    VF_OK("igris::buffer / string_view encode as u16 length + bytes");
    std::string stream = enc + enc;
    vf::Exact e(stream.data(), stream.size(), idx & 1 ? 0 : 2, (idx & 1) != 0);
    vf::cls("old.buffer:deserialize");
    igris::archive::binary_buffer_reader rd(e.cc(), stream.size());
    igris::buffer view;
    rd.load_set_buffer(view);
    if (view.data() != e.cc() + 2 || view.size() != s.size() || memcmp(view.data(), s.data(), s.size()) != 0 || (size_t)(rd.ptr - e.cc()) != enc.size())
        vf::fail("roundtrip:old.buffer(view)", "buffer of %zu bytes: view at offset %td size %zu, cursor %td (expected 2, %zu, %zu)", s.size(),
                 view.data() - e.cc(), view.size(), rd.ptr - e.cc(), s.size(), enc.size());
    vf::Exact dst(nullptr, s.size() + (idx % 3), 0, false);
    igris::archive::writable_buffer wb;
    wb = igris::buffer(dst.cc(), dst.n);
    rd.load(wb);
    if (wb.data() != dst.cc() || wb.size() != s.size() || memcmp(dst.p, s.data(), s.size()) != 0 || (size_t)(rd.ptr - e.cc()) != stream.size())
        vf::fail("roundtrip:old.buffer(copy)", "buffer of %zu bytes into %zu bytes of storage: size %zu, cursor %td (expected %zu, %zu)", s.size(), dst.n,
                 wb.size(), rd.ptr - e.cc(), s.size(), stream.size());
    VF_OK("igris::buffer decodes as a view into the input and into caller storage");
    vf::count_case(vf::hash_bytes(s.data(), s.size(), 0xB0FF), s.size() > 0);
}
VF_SUITE(old_buffer, buffer_count, buffer_run)

static uint64_t hist_count() { return vf::thorough() ? 20000 : 400; }
VF_SUITE(old_history, hist_count, hist_old_run)

void c09_new_setup();
extern "C" void vf_setup()
{
    for (const char *c : {"encoded bytes == reference encoder of the stated layout", "deserialize(serialize(v)) == v",
                          "reader cursor after decode == bytes produced", "enc(a) ++ enc(b) decodes to a then b, cursor after a == |enc(a)|",
                          "values whose encoding exceeds 64 KiB", "after every step the long-lived writer holds the concatenation of the reference encodings",
                          "view into the writer's own output (append must grow it) == u16 length + bytes",
                          "the long-lived reader decodes the history in sequence; accessors between loads consume nothing", "the other entry points of the front end produce / accept the same bytes", "golden encoding still decodes to the recorded value",
                          "recorded value still encodes to the golden bytes", "igris::buffer / string_view encode as u16 length + bytes",
                          "igris::buffer decodes as a view into the input and into caller storage"})
        vf::require(c);
    c09_new_setup();
}
#endif
