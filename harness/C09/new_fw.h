// C09 — policy class and user types for the serialize_archive.h front end (serializer / deserializer over
// binary_protocol, serialize_reflect()).
#pragma once
#include "c09.h"
#include <igris/serialize/serialize_archive.h>

using namespace c09;
template <class T> using vec = std::vector<T>;

struct NewFw
{
    template <class T> static std::string enc(const T &v) { return igris::serialize(v); }
    template <class T> static T dec(const char *p, size_t n)
    {
        igris::deserialize_buffer_storage st(igris::buffer(p, n));
        return igris::deserialize<T>(st);
    }
    // serialize(obj, storage) into a caller-owned string_storage; deserialize<T>(std::string)
    template <class T> static const char *extra(const T &v, const std::string &enc)
    {
        igris::string_storage st;
        igris::serialize(v, st);
        if (st.storage() != enc)
            return "serialize(obj, storage): bytes differ from serialize(obj)";
        if (enc.size() <= 4096 && !same(igris::deserialize<T>(enc), v))
            return "deserialize<T>(std::string) != v";
        return nullptr;
    }
    struct Reader
    {
        size_t n;
        igris::deserialize_buffer_storage st;
        Reader(const char *p, size_t n_) : n(n_), st(igris::buffer(p, n_)) {}
        template <class T> void get(T &out)
        {
            igris::deserializer<igris::deserialize_buffer_storage> ar(st);
            ar.deserialize(out);
        }
        size_t pos() { return n - (size_t)st.avail(); }
    };
};

// user types exposing serialize_reflect() (const overload for the writer, non-const for the reader)
struct T1
{
    int32_t a = 1;
    uint8_t b = 2;
    int16_t c = 3;
    template <class Ar> void serialize_reflect(Ar &ar)
    {
        ar &a;
        ar &b;
        ar &c;
    }
    template <class Ar> void serialize_reflect(Ar &ar) const
    {
        ar &a;
        ar &b;
        ar &c;
    }
    auto tie() { return std::tie(a, b, c); }
    auto tie() const { return std::tie(a, b, c); }
};
struct T2
{
    vec<int32_t> v;
    T1 t;
    double d = 0;
    vec<T1> ts;
    template <class Ar> void serialize_reflect(Ar &ar)
    {
        ar &v;
        ar &t;
        ar &d;
        ar &ts;
    }
    template <class Ar> void serialize_reflect(Ar &ar) const
    {
        ar &v;
        ar &t;
        ar &d;
        ar &ts;
    }
    auto tie() { return std::tie(v, t, d, ts); }
    auto tie() const { return std::tie(v, t, d, ts); }
};
// a vector member with a default initialiser
struct T3
{
    int8_t tag = 5;
    vec<int16_t> v = {1, 2, 3};
    template <class Ar> void serialize_reflect(Ar &ar)
    {
        ar &tag;
        ar &v;
    }
    template <class Ar> void serialize_reflect(Ar &ar) const
    {
        ar &tag;
        ar &v;
    }
    auto tie() { return std::tie(tag, v); }
    auto tie() const { return std::tie(tag, v); }
};

// ---- user types whose serialize_reflect() is conditional: decoding does not assign every member
struct NOpt // presence flag + optional block
{
    int16_t id = 0;
    uint8_t has = 0;
    int32_t x = 0;
    vec<uint8_t> s;
    template <class Self, class Ar> static void sr(Self &self, Ar &ar)
    {
        ar &self.id;
        ar &self.has;
        if (self.has)
        {
            ar &self.x;
            ar &self.s;
        }
    }
    template <class Ar> void serialize_reflect(Ar &ar) { sr(*this, ar); }
    template <class Ar> void serialize_reflect(Ar &ar) const { sr(*this, ar); }
    auto tie() { return std::tie(id, has, x, s); }
    auto tie() const { return std::tie(id, has, x, s); }
    static constexpr bool c09_custom = true;
    static constexpr size_t c09_min_cost = 3;
    static NOpt c09_gen(Gen &g)
    {
        NOpt o;
        o.id = gen<int16_t>(g);
        bool with = g.r.chance(1, 3) ? g.r.chance(1, 2) : (g.alt++ & 1) == 0;
        g.budget -= 1;
        o.has = with ? (uint8_t)(1 + g.r.below(255)) : 0;
        if (with)
        {
            o.x = gen<int32_t>(g) | 1;
            o.s = gen<vec<uint8_t>>(g);
            if (o.s.empty())
                o.s.push_back(7);
        }
        return o;
    }
    void c09_ref(std::string &out) const
    {
        ref_enc(id, out);
        ref_enc(has, out);
        if (has)
        {
            ref_enc(x, out);
            ref_enc(s, out);
        }
    }
};
struct NVar // tag + one of several members
{
    uint8_t tag = 0;
    int16_t i = 0;
    vec<int16_t> w;
    vec<uint8_t> v;
    template <class Self, class Ar> static void sr(Self &self, Ar &ar)
    {
        ar &self.tag;
        if (self.tag == 0)
            ar &self.i;
        else if (self.tag == 1)
            ar &self.w;
        else
            ar &self.v;
    }
    template <class Ar> void serialize_reflect(Ar &ar) { sr(*this, ar); }
    template <class Ar> void serialize_reflect(Ar &ar) const { sr(*this, ar); }
    auto tie() { return std::tie(tag, i, w, v); }
    auto tie() const { return std::tie(tag, i, w, v); }
    static constexpr bool c09_custom = true;
    static constexpr size_t c09_min_cost = 3;
    static NVar c09_gen(Gen &g)
    {
        NVar a;
        g.budget -= 1;
        a.tag = (uint8_t)(g.r.chance(1, 2) ? g.alt++ % 3 : g.r.below(3));
        if (a.tag == 0)
            a.i = (int16_t)(gen<int16_t>(g) | 1);
        else if (a.tag == 1)
        {
            a.w = gen<vec<int16_t>>(g);
            if (a.w.empty())
                a.w.push_back(-3);
        }
        else
        {
            a.v = gen<vec<uint8_t>>(g);
            if (a.v.empty())
                a.v.push_back(9);
        }
        return a;
    }
    void c09_ref(std::string &out) const
    {
        ref_enc(tag, out);
        if (tag == 0)
            ref_enc(i, out);
        else if (tag == 1)
            ref_enc(w, out);
        else
            ref_enc(v, out);
    }
};
struct NCnt // count + that many members
{
    int16_t id = 0;
    uint8_t n = 0;
    int32_t m0 = 0, m1 = 0, m2 = 0;
    template <class Self, class Ar> static void sr(Self &self, Ar &ar)
    {
        ar &self.id;
        ar &self.n;
        if (self.n > 0)
            ar &self.m0;
        if (self.n > 1)
            ar &self.m1;
        if (self.n > 2)
            ar &self.m2;
    }
    template <class Ar> void serialize_reflect(Ar &ar) { sr(*this, ar); }
    template <class Ar> void serialize_reflect(Ar &ar) const { sr(*this, ar); }
    auto tie() { return std::tie(id, n, m0, m1, m2); }
    auto tie() const { return std::tie(id, n, m0, m1, m2); }
    static constexpr bool c09_custom = true;
    static constexpr size_t c09_min_cost = 3;
    static NCnt c09_gen(Gen &g)
    {
        NCnt c;
        c.id = gen<int16_t>(g);
        g.budget -= 1;
        c.n = (uint8_t)(g.r.chance(1, 2) ? 3 - g.alt++ % 4 : g.r.below(4));
        int32_t *m[3] = {&c.m0, &c.m1, &c.m2};
        for (int k = 0; k < c.n; k++)
            *m[k] = gen<int32_t>(g) | 1;
        return c;
    }
    void c09_ref(std::string &out) const
    {
        ref_enc(id, out);
        ref_enc(n, out);
        if (n > 0)
            ref_enc(m0, out);
        if (n > 1)
            ref_enc(m1, out);
        if (n > 2)
            ref_enc(m2, out);
    }
};
struct NE // conditional types as members and in a vector member
{
    NOpt o;
    vec<NCnt> cs;
    NVar v;
    vec<NOpt> os;
    template <class Self, class Ar> static void sr(Self &self, Ar &ar)
    {
        ar &self.o;
        ar &self.cs;
        ar &self.v;
        ar &self.os;
    }
    template <class Ar> void serialize_reflect(Ar &ar) { sr(*this, ar); }
    template <class Ar> void serialize_reflect(Ar &ar) const { sr(*this, ar); }
    auto tie() { return std::tie(o, cs, v, os); }
    auto tie() const { return std::tie(o, cs, v, os); }
};

// recursive user type: every child travels as a length-prefixed blob produced by igris::serialize(child) (the free
// function is re-entered for the same T while the parent is being written) and is decoded by igris::deserialize<NNode>
struct NNode
{
    int32_t val = 0;
    std::vector<NNode> kids;
    template <class Self, class Ar> static void sr(Self &self, Ar &ar)
    {
        ar &self.val;
        if constexpr (std::is_const_v<Self>)
        {
            uint16_t n = (uint16_t)self.kids.size();
            ar &n;
            for (const NNode &k : self.kids)
            {
                std::string b = igris::serialize(k);
                vec<uint8_t> bytes(b.begin(), b.end());
                ar &bytes;
            }
        }
        else
        {
            uint16_t n = 0;
            ar &n;
            self.kids.clear();
            for (int i = 0; i < n; i++)
            {
                vec<uint8_t> bytes;
                ar &bytes;
                self.kids.push_back(igris::deserialize<NNode>(std::string(bytes.begin(), bytes.end())));
            }
        }
    }
    template <class Ar> void serialize_reflect(Ar &ar) { sr(*this, ar); }
    template <class Ar> void serialize_reflect(Ar &ar) const { sr(*this, ar); }
    auto tie() { return std::tie(val, kids); }
    auto tie() const { return std::tie(val, kids); }
    static constexpr bool c09_custom = true;
    static constexpr size_t c09_min_cost = 6;
    static NNode c09_gen(Gen &g)
    {
        NNode n;
        n.val = gen<int32_t>(g);
        size_t nk = g.rec >= 4 ? 0 : g.r.below(3) == 0 ? 0 : 1 + g.r.below(3);
        g.rec++;
        for (size_t i = 0; i < nk; i++)
            n.kids.push_back(c09_gen(g));
        g.rec--;
        return n;
    }
    void c09_ref(std::string &out) const
    {
        ref_enc(val, out);
        ref_u16(kids.size(), out);
        for (const NNode &k : kids)
        {
            std::string b;
            k.c09_ref(b);
            ref_u16(b.size(), out);
            out += b;
        }
    }
};
