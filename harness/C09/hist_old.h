// C09 — multi-step histories on ONE long-lived writer / reader of the archive.h front end: values of several types,
// raw buffers and views INTO the writer's own output are appended through every entry point; after every step the
// accumulated bytes must equal the concatenation of the reference encodings so far. On the reading side the
// accessors (pointer(), end()) between two loads must not consume anything and the values decode in sequence.
#pragma once
#include "old_fw.h"
namespace c09
{
    struct HRec
    {
        int kind = 0; // 0 i32, 1 string, 2 vector<string>, 3 B, 4 Opt, 5 sized payload (buffer / string_view)
        int32_t i = 0;
        std::string s;
        std::vector<std::string> vs;
        B b;
        Opt o;
        std::string enc; // reference encoding
    };
    static inline void hist_old_run(uint64_t idx)
    {
        using namespace igris::archive;
        vf::Rng r(vf::seed(), 0x4157, idx);
        std::string out, acc, log;
        binary_string_writer w(out);
        std::vector<HRec> recs;
        int steps = 3 + (int)r.below(14);
        char what[200];
        for (int st = 0; st < steps; st++)
        {
            HRec rc;
            Gen g{r, r.chance(1, 6) ? 3000 : 150};
            int op = (int)r.below(8), via = (int)r.below(3);
            rc.kind = op < 5 ? op : 5;
            bool keep = true;
            vf::cls("old.history:write");
            switch (op)
            {
            case 0:
                rc.i = gen<int32_t>(g);
                via == 0 ? igris::serialize(w, rc.i) : via == 1 ? (void)(w & rc.i) : w.dump(rc.i);
                ref_enc(rc.i, rc.enc);
                break;
            case 1:
                rc.s = gen<std::string>(g);
                via == 0 ? igris::serialize(w, rc.s) : (void)(w & rc.s);
                ref_enc(rc.s, rc.enc);
                break;
            case 2:
                rc.vs = gen<std::vector<std::string>>(g);
                via == 0 ? igris::serialize(w, rc.vs) : (void)(w & rc.vs);
                ref_enc(rc.vs, rc.enc);
                break;
            case 3:
                rc.b = gen<B>(g);
                via == 0 ? igris::serialize(w, rc.b) : (void)(w & rc.b);
                ref_enc(rc.b, rc.enc);
                break;
            case 4:
                rc.o = gen<Opt>(g);
                via == 0 ? igris::serialize(w, rc.o) : (void)(w & rc.o);
                ref_enc(rc.o, rc.enc);
                break;
            case 5:
            {
                // a payload that lives in a separate exact block
                rc.s = gen<std::string>(g);
                vf::Exact src(rc.s.data(), rc.s.size(), 1, false);
                if (via == 0)
                    w.dump(igris::buffer(src.cc(), rc.s.size()));
                else if (via == 1)
                    w.dump(std::string_view(src.cc(), rc.s.size()));
                else
                    w.dump(src.cc(), (uint16_t)rc.s.size());
                ref_enc(rc.s, rc.enc);
                break;
            }
            case 6:
            {
                // a view into the writer's own output (prefix / suffix / whole / inner); the count must fit the free capacity
                if (out.empty() || out.capacity() - out.size() < 2)
                {
                    keep = false;
                    break;
                }
                size_t len = r.chance(1, 3) ? out.size() : 1 + r.below(out.size()), off = r.chance(1, 2) ? out.size() - len : r.chance(1, 2) ? 0 : r.below(out.size() - len + 1);
                if (len > 65535)
                    len = 65535;
                rc.s = acc.substr(off, len);
                vf::cls("old.history:write-view-into-own-output");
                if (via == 0)
                    w.dump(igris::buffer(out.data() + off, len));
                else if (via == 1)
                    w.dump(std::string_view(out.data() + off, len));
                else
                    igris::serialize(w, igris::buffer(out.data() + off, len));
                ref_enc(rc.s, rc.enc);
                break;
            }
            default:
            {
                // the same on a scratch output whose free capacity holds the count but not the payload: the append of
                // the payload has to grow the string it is reading from
                keep = false;
                if (acc.empty())
                    break;
                size_t len = r.chance(1, 3) ? acc.size() : 1 + r.below(acc.size()), off = r.chance(1, 2) ? acc.size() - len : r.chance(1, 2) ? 0 : r.below(acc.size() - len + 1);
                if (len > 65535)
                    len = 65535;
                std::string o2, expect = acc, payload = acc.substr(off, len);
                o2.reserve(acc.size() + 2 + r.below(len));
                o2.append(acc);
                binary_string_writer w2(o2);
                vf::cls("old.history:write-view-into-own-output(append-grows)");
                if (via == 0)
                    w2.dump(igris::buffer(o2.data() + off, len));
                else if (via == 1)
                    w2.dump(std::string_view(o2.data() + off, len));
                else
                    igris::serialize(w2, igris::buffer(o2.data() + off, len));
                ref_enc(payload, expect);
                if (o2 != expect)
                    vf::fail("history:old:view-into-own-output!=u16+bytes", "output of %zu bytes, view [%zu,+%zu) of it appended: got %zu bytes, first difference at %zu",
                             acc.size(), off, len, o2.size(), first_diff(o2, expect));
                VF_OK("view into the writer's own output (append must grow it) == u16 length + bytes");
            }
            }
            snprintf(what, sizeof what, "%d:op%d/via%d(%zuB) ", st, op, via, rc.enc.size());
            log += what;
            if (vf::verbose())
                printf("  step %s\n", what);
            if (keep)
            {
                acc += rc.enc;
                recs.push_back(rc);
            }
            if (out != acc)
                vf::fail("history:old:writer-bytes!=concatenation-of-reference-encodings", "steps %s: writer holds %zu bytes, reference %zu, first difference at %zu",
                         log.c_str(), out.size(), acc.size(), first_diff(out, acc));
            VF_OK("after every step the long-lived writer holds the concatenation of the reference encodings");
        }
        // ---- reading side: one long-lived reader over an exact copy
        vf::Exact e(acc.data(), acc.size(), idx & 1 ? 0 : 1, (idx & 1) != 0);
        binary_buffer_reader rd(e.cc(), acc.size());
        size_t pos = 0;
        for (size_t k = 0; k < recs.size(); k++)
        {
            const HRec &rc = recs[k];
            vf::cls("old.history:read");
            for (int twice = 0; twice < 2; twice++)
                if (rd.pointer() != (void *)(e.cc() + pos) || rd.end() != (const void *)(e.cc() + acc.size()))
                    vf::fail("history:old:reader-accessor-consumed", "record %zu of steps %s: pointer() at %td, expected %zu", k, log.c_str(), (const char *)rd.pointer() - e.cc(), pos);
            bool ok = true;
            int via = (int)r.below(2);
            switch (rc.kind)
            {
            case 0:
            {
                int32_t x = 0;
                via ? igris::deserialize(rd, x) : (void)(rd & x);
                ok = x == rc.i;
                break;
            }
            case 1:
            {
                std::string x;
                via ? igris::deserialize(rd, x) : (void)(rd & x);
                ok = x == rc.s;
                break;
            }
            case 2:
            {
                std::vector<std::string> x;
                via ? igris::deserialize(rd, x) : (void)(rd & x);
                ok = x == rc.vs;
                break;
            }
            case 3:
            {
                B x;
                via ? igris::deserialize(rd, x) : (void)(rd & x);
                ok = same(x, rc.b);
                break;
            }
            case 4:
            {
                Opt x;
                via ? igris::deserialize(rd, x) : (void)(rd & x);
                ok = same(x, rc.o);
                break;
            }
            default:
                if (via)
                {
                    std::string x;
                    igris::deserialize(rd, x);
                    ok = x == rc.s;
                }
                else
                {
                    // a view into the input, written out again by another writer
                    igris::buffer view;
                    rd.load_set_buffer(view);
                    std::string o2;
                    binary_string_writer w2(o2);
                    w2.dump(view);
                    ok = view.data() == e.cc() + pos + 2 && view.size() == rc.s.size() && o2 == rc.enc;
                }
            }
            pos += rc.enc.size();
            if (!ok || (size_t)(rd.ptr - e.cc()) != pos)
                vf::fail("history:old:values-do-not-decode-in-sequence", "record %zu (kind %d) of steps %s: value %s, reader at %td, expected %zu", k, rc.kind, log.c_str(),
                         ok ? "equal" : "differs", rd.ptr - e.cc(), pos);
            VF_OK("the long-lived reader decodes the history in sequence; accessors between loads consume nothing");
        }
        vf::count_case(vf::hash_bytes(acc.data(), acc.size(), 0x4157), recs.size() >= 2);
    }
}
