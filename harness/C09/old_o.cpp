// C09 — archive.h/stdtypes.h front end, part 5: user types with a conditional reflect() (presence flag + optional
// block, tag + one of several members, count + that many members), alone, in vectors, as map value AND map key.
#define C09_PART "old_conditional"
#define C09_TYPE_LIST                                                                                                  \
    TY("Opt", Opt) TY("Var", Var) TY("Cnt", Cnt) TY("vector<Opt>", vec<Opt>) TY("vector<Var>", vec<Var>)                \
    TY("vector<Cnt>", vec<Cnt>) TY("map<i32,Opt>", map<int32_t, Opt>) TY("map<Opt,i32>", map<Opt, int32_t>)            \
    TY("map<Var,Opt>", map<Var, Opt>) TY("map<Cnt,Var>", map<Cnt, Var>)
#include "old_impl.h"
