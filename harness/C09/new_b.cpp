// C09 — serialize_archive.h front end, part 2: vectors, nested to depth 3, vectors of user types.
#define C09_PART "new_vectors"
#define C09_TYPE_LIST                                                                                                  \
    TY(true, "vector<u8>", vec<uint8_t>) TY(true, "vector<u16>", vec<uint16_t>) TY(true, "vector<i32>", vec<int32_t>)   \
    TY(true, "vector<f64>", vec<double>) TY(false, "vector<vector<i16>>", vec<vec<int16_t>>)                            \
    TY(false, "vector<vector<vector<u8>>>", vec<vec<vec<uint8_t>>>) TY(false, "vector<T2>", vec<T2>)                    \
    TY(false, "vector<vector<T1>>", vec<vec<T1>>)
#include "new_impl.h"
