// C09 — serialize_archive.h front end, part 1: scalars and user types exposing serialize_reflect().
#define C09_PART "new_scalars"
#define C09_NEW_SETUP
#define C09_TYPE_LIST                                                                                                  \
    TY(true, "i8", int8_t) TY(true, "u8", uint8_t) TY(true, "i16", int16_t) TY(true, "u16", uint16_t)                   \
    TY(true, "i32", int32_t) TY(true, "u32", uint32_t) TY(true, "i64", int64_t) TY(true, "u64", uint64_t)               \
    TY(true, "f32", float) TY(true, "f64", double) TY(true, "T1", T1) TY(true, "T3", T3) TY(true, "vector<T1>", vec<T1>) \
    TY(false, "T2", T2)
#include "new_impl.h"
