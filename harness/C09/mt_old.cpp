// C09 (TSan unit) — archive.h/stdtypes.h front end, see mt_impl.h (+ vf main).
#define VF_MAIN
#include "old_fw.h"
#include "mt_impl.h"
using namespace c09;
#define J(name, ...) [](vf::Rng &r) { return mt_job<OldFw, __VA_ARGS__>(name, r); }
static const MtFactory MENU[] = {
    J("i32", int32_t),
    J("string", std::string),
    J("vector<string>", std::vector<std::string>),
    J("map<string,i32>", std::map<std::string, int32_t>),
    J("B", B),
    J("vector<Opt>", std::vector<Opt>),
    J("Node", Node),
    J("Chain", Chain),
};
static uint64_t count() { return vf::thorough() ? 600 : 36; }
static void run(uint64_t idx) { mt_case("old", MENU, sizeof MENU / sizeof MENU[0], idx); }
VF_SUITE(old_concurrent, count, run)
void c09_mt_new_setup();
extern "C" void vf_setup()
{
    vf::require("concurrent serialize/deserialize of own values == results computed before the threads started");
    c09_mt_new_setup();
}
