// C09 — serialize_archive.h front end (igris::serializer / igris::deserializer over binary_protocol and the
// bounded deserialize_buffer_storage): scalars, vectors nested to depth 3, user types with serialize_reflect();
// every truncation point of the encoded bytes through the bounded reader on exact heap copies.
// With -DC09_VALGRIND only the truncation suite runs (small) under memcheck: a count or member that is taken
// from uninitialised memory when the input is too short is invisible to ASan.
// The including file defines C09_PART (string used in the suite names), C09_TYPE_LIST (TY(shallow, name, type)
// entries) and, in one TU, C09_NEW_SETUP (defines the setup hook; with C09_VALGRIND that TU also holds vf main).
#ifdef C09_GEN_GOLDEN
#define main vf_unused_main
#define VF_MAIN
#elif defined(C09_VALGRIND) && defined(C09_NEW_SETUP)
#define VF_MAIN
#endif
#include "c09.h"
#ifdef C09_GEN_GOLDEN
#undef main
#endif
#include "new_fw.h"
#ifdef C09_VALGRIND
#include <valgrind/valgrind.h>
#endif

// ---------------------------------------------------------------- (4) truncation through the bounded reader
template <class T> static void check_truncations(const char *tname, const T &v, vf::Rng &r, int placement)
{
    char key[180], cls[110];
    std::string enc = NewFw::enc(v);
    size_t n = enc.size();
    std::vector<size_t> cuts;
    if (n <= 96)
        for (size_t k = 0; k <= n; k++)
            cuts.push_back(k);
    else
    {
        for (size_t k = 0; k <= 40; k++)
            cuts.push_back(k);
        for (size_t k = n - 24; k <= n; k++)
            cuts.push_back(k);
        for (int i = 0; i < 24; i++)
            cuts.push_back(41 + r.below(n - 65));
    }
    if (vf::verbose())
        printf("  %s truncations of %zu bytes (%zu cut points) value=%s bytes=%s\n", tname, n, cuts.size(), shown(v).c_str(), vf::hex(enc.data(), n, 96).c_str());
    snprintf(cls, sizeof cls, "%s:truncated", tname);
    for (size_t k : cuts)
    {
        vf::Exact e(enc.data(), k, placement ? 0 : 1 + (unsigned)k % 4, placement != 0);
        vf::cls(cls);
        igris::deserialize_buffer_storage st(igris::buffer(e.cc(), k));
#ifdef C09_VALGRIND
        unsigned before = VALGRIND_COUNT_ERRORS;
#endif
        T out = igris::deserialize<T>(st);
#ifdef C09_VALGRIND
        unsigned after = VALGRIND_COUNT_ERRORS;
        if (after != before)
        {
            snprintf(key, sizeof key, "memcheck:error-inside:truncated-decode:%s", tname);
            vf::fail(key, "value=%s, %zu encoded bytes cut to %zu: memcheck reported %u error(s) while decoding (see stderr.txt of the unit)",
                     shown(v).c_str(), n, k, after - before);
        }
        VF_OK("memcheck silent while decoding truncated input");
#endif
        int av = st.avail();
        if (av < 0 || (size_t)av > k)
        {
            snprintf(key, sizeof key, "truncated:cursor-outside-input:%s", tname);
            vf::fail(key, "value=%s, %zu bytes cut to %zu: %d bytes reported available afterwards", shown(v).c_str(), n, k, av);
        }
        if (k == n && (!same(out, v) || av != 0))
        {
            snprintf(key, sizeof key, "roundtrip:%s", tname);
            vf::fail(key, "value=%s decoded=%s through the bounded reader, %d bytes left", shown(v).c_str(), shown(out).c_str(), av);
        }
        VF_OK("every truncation point decodes through the bounded reader inside the supplied bytes");
    }
    VF_MAX("truncation points of one value", cuts.size());
}
template <class T> static void run_trunc(const char *name, uint64_t batch)
{
    uint64_t salt = name_salt(name);
    int nvals = vf::thorough() ? 40 : 6;
#ifdef C09_VALGRIND
    nvals = 4;
#endif
    for (int i = 0; i < nvals; i++)
    {
        vf::Rng r(vf::seed(), salt ^ 0x7C, batch * 1000 + (uint64_t)i);
#ifdef C09_VALGRIND
        Gen g{r, 60};
#else
        Gen g{r, r.chance(1, vf::thorough() ? 200 : 30) ? 300000 : (r.chance(1, 4) ? 3000 : 120)};
#endif
        T v = gen<T>(g);
        check_truncations<T>(name, v, r, (int)((batch + (uint64_t)i) & 1));
        std::string enc = NewFw::enc(v);
        vf::count_case(vf::hash_bytes(enc.data(), enc.size(), salt ^ 0x7C), enc.size() > 2);
    }
}

#if !defined(C09_GEN_GOLDEN) && !defined(C09_VALGRIND)
static const GoldenRec GOLDEN[] = {
#include "golden_new.inc"
};
static const size_t NGOLDEN = sizeof GOLDEN / sizeof GOLDEN[0];
#else
static const GoldenRec *GOLDEN = nullptr;
static const size_t NGOLDEN = 0;
#endif
template <class T> static void gold(const char *name) { check_golden<NewFw, T>(name, GOLDEN, NGOLDEN); }
struct NewOps
{
    TypeOps ops;
    void (*trunc)(const char *, uint64_t);
    bool shallow; // a wrong count costs at most 65535 cheap elements (used by the memcheck unit)
};
#define TY(shallow, name, ...) {{"new." name, &run_type<NewFw, __VA_ARGS__>, &gold<__VA_ARGS__>, &emit_golden<NewFw, __VA_ARGS__>}, &run_trunc<__VA_ARGS__>, shallow},

static const NewOps OPS[] = {C09_TYPE_LIST};
enum
{
    NT = sizeof OPS / sizeof OPS[0]
};

#ifdef C09_GEN_GOLDEN
int main()
{
    for (const NewOps &o : OPS)
        o.ops.emit_golden(o.ops.name, stdout);
    return 0;
}
#else
#ifndef C09_VALGRIND
static uint64_t values_count() { return (uint64_t)NT * batches_per_type(); }
static void values_run(uint64_t idx) { OPS[idx % NT].ops.run(OPS[idx % NT].ops.name, idx / NT); }
static ::vf::SuiteReg reg_values(C09_PART "_values", values_count, values_run);
static uint64_t golden_count() { return NT; }
static void golden_run(uint64_t idx) { OPS[idx].ops.golden(OPS[idx].ops.name); }
static ::vf::SuiteReg reg_golden(C09_PART "_golden", golden_count, golden_run);
static uint64_t trunc_count() { return (uint64_t)NT * (vf::thorough() ? 100 : 10); }
static void trunc_run(uint64_t idx) { OPS[idx % NT].trunc(OPS[idx % NT].ops.name, idx / NT); }
static ::vf::SuiteReg reg_trunc(C09_PART "_truncated", trunc_count, trunc_run);
#else
static uint64_t trunc_count() { return (uint64_t)NT * 3; }
static void trunc_run(uint64_t idx)
{
    if (OPS[idx % NT].shallow)
        OPS[idx % NT].trunc(OPS[idx % NT].ops.name, idx / NT);
}
static ::vf::SuiteReg reg_trunc(C09_PART "_truncated_memcheck", trunc_count, trunc_run);
#endif

#if defined(C09_NEW_SETUP) && !defined(C09_VALGRIND)
#include "hist_new.h"
static uint64_t hist_count() { return vf::thorough() ? 20000 : 400; }
static ::vf::SuiteReg reg_hist("new_history", hist_count, hist_new_run);
#endif
#ifdef C09_NEW_SETUP
void c09_new_setup()
{
#ifndef C09_VALGRIND
    vf::require("after every step (and every look at storage()) the long-lived storage holds the concatenation so far");
    vf::require("the long-lived bounded reader decodes the history in sequence; avail() between loads consumes nothing");
#endif
    vf::require("every truncation point decodes through the bounded reader inside the supplied bytes");
#ifdef C09_VALGRIND
    vf::require("memcheck silent while decoding truncated input");
    if (!RUNNING_ON_VALGRIND)
    {
        fprintf(stderr, "C09 trunc_vg unit: not running under valgrind\n");
        _exit(2);
    }
#endif
}
#ifdef C09_VALGRIND
extern "C" void vf_setup() { c09_new_setup(); }
#endif
#endif
#endif
