// C09 — serialize_archive.h front end (igris::serializer / igris::deserializer over binary_protocol and the
// bounded deserialize_buffer_storage): scalars, vectors nested to depth 3, user types with serialize_reflect();
// every truncation point of the encoded bytes through the bounded reader on exact heap copies.
// With -DC09_VALGRIND only the truncation suite runs (small) under memcheck: a count or member that is taken
// from uninitialised memory when the input is too short is invisible to ASan.
// The including file defines C09_PART (string used in the suite names), C09_TYPE_LIST (TY(shallow, name, type)
// entries) and, in one TU, C09_NEW_SETUP (defines the setup hook; with C09_VALGRIND that TU also holds vf main).
#ifdef C09_GEN_GOLDEN
#define main vf_unused_main
#define VF_MAIN
#elif defined(C09_VALGRIND) && defined(C09_NEW_SETUP)
#define VF_MAIN
#endif
#include "c09.h"
#ifdef C09_GEN_GOLDEN
#undef main
#endif
#include <igris/serialize/serialize_archive.h>
#ifdef C09_VALGRIND
#include <valgrind/valgrind.h>
#endif

using namespace c09;
template <class T> using vec = std::vector<T>;

struct NewFw
{
    template <class T> static std::string enc(const T &v) { return igris::serialize(v); }
    template <class T> static T dec(const char *p, size_t n)
    {
        igris::deserialize_buffer_storage st(igris::buffer(p, n));
        return igris::deserialize<T>(st);
    }
    // serialize(obj, storage) into a caller-owned string_storage; deserialize<T>(std::string)
    template <class T> static const char *extra(const T &v, const std::string &enc)
    {
        igris::string_storage st;
        igris::serialize(v, st);
        if (st.storage() != enc)
            return "serialize(obj, storage): bytes differ from serialize(obj)";
        if (enc.size() <= 4096 && !same(igris::deserialize<T>(enc), v))
            return "deserialize<T>(std::string) != v";
        return nullptr;
    }
    struct Reader
    {
        size_t n;
        igris::deserialize_buffer_storage st;
        Reader(const char *p, size_t n_) : n(n_), st(igris::buffer(p, n_)) {}
        template <class T> void get(T &out)
        {
            igris::deserializer<igris::deserialize_buffer_storage> ar(st);
            ar.deserialize(out);
        }
        size_t pos() { return n - (size_t)st.avail(); }
    };
};

// user types exposing serialize_reflect() (const overload for the writer, non-const for the reader)
struct T1
{
    int32_t a = 1;
    uint8_t b = 2;
    int16_t c = 3;
    template <class Ar> void serialize_reflect(Ar &ar)
    {
        ar &a;
        ar &b;
        ar &c;
    }
    template <class Ar> void serialize_reflect(Ar &ar) const
    {
        ar &a;
        ar &b;
        ar &c;
    }
    auto tie() { return std::tie(a, b, c); }
    auto tie() const { return std::tie(a, b, c); }
};
struct T2
{
    vec<int32_t> v;
    T1 t;
    double d = 0;
    vec<T1> ts;
    template <class Ar> void serialize_reflect(Ar &ar)
    {
        ar &v;
        ar &t;
        ar &d;
        ar &ts;
    }
    template <class Ar> void serialize_reflect(Ar &ar) const
    {
        ar &v;
        ar &t;
        ar &d;
        ar &ts;
    }
    auto tie() { return std::tie(v, t, d, ts); }
    auto tie() const { return std::tie(v, t, d, ts); }
};
// a vector member with a default initialiser
struct T3
{
    int8_t tag = 5;
    vec<int16_t> v = {1, 2, 3};
    template <class Ar> void serialize_reflect(Ar &ar)
    {
        ar &tag;
        ar &v;
    }
    template <class Ar> void serialize_reflect(Ar &ar) const
    {
        ar &tag;
        ar &v;
    }
    auto tie() { return std::tie(tag, v); }
    auto tie() const { return std::tie(tag, v); }
};

// ---- user types whose serialize_reflect() is conditional: decoding does not assign every member
struct NOpt // presence flag + optional block
{
    int16_t id = 0;
    uint8_t has = 0;
    int32_t x = 0;
    vec<uint8_t> s;
    template <class Self, class Ar> static void sr(Self &self, Ar &ar)
    {
        ar &self.id;
        ar &self.has;
        if (self.has)
        {
            ar &self.x;
            ar &self.s;
        }
    }
    template <class Ar> void serialize_reflect(Ar &ar) { sr(*this, ar); }
    template <class Ar> void serialize_reflect(Ar &ar) const { sr(*this, ar); }
    auto tie() { return std::tie(id, has, x, s); }
    auto tie() const { return std::tie(id, has, x, s); }
    static constexpr bool c09_custom = true;
    static constexpr size_t c09_min_cost = 3;
    static NOpt c09_gen(Gen &g)
    {
        NOpt o;
        o.id = gen<int16_t>(g);
        bool with = g.r.chance(1, 3) ? g.r.chance(1, 2) : (g.alt++ & 1) == 0;
        g.budget -= 1;
        o.has = with ? (uint8_t)(1 + g.r.below(255)) : 0;
        if (with)
        {
            o.x = gen<int32_t>(g) | 1;
            o.s = gen<vec<uint8_t>>(g);
            if (o.s.empty())
                o.s.push_back(7);
        }
        return o;
    }
    void c09_ref(std::string &out) const
    {
        ref_enc(id, out);
        ref_enc(has, out);
        if (has)
        {
            ref_enc(x, out);
            ref_enc(s, out);
        }
    }
};
struct NVar // tag + one of several members
{
    uint8_t tag = 0;
    int16_t i = 0;
    vec<int16_t> w;
    vec<uint8_t> v;
    template <class Self, class Ar> static void sr(Self &self, Ar &ar)
    {
        ar &self.tag;
        if (self.tag == 0)
            ar &self.i;
        else if (self.tag == 1)
            ar &self.w;
        else
            ar &self.v;
    }
    template <class Ar> void serialize_reflect(Ar &ar) { sr(*this, ar); }
    template <class Ar> void serialize_reflect(Ar &ar) const { sr(*this, ar); }
    auto tie() { return std::tie(tag, i, w, v); }
    auto tie() const { return std::tie(tag, i, w, v); }
    static constexpr bool c09_custom = true;
    static constexpr size_t c09_min_cost = 3;
    static NVar c09_gen(Gen &g)
    {
        NVar a;
        g.budget -= 1;
        a.tag = (uint8_t)(g.r.chance(1, 2) ? g.alt++ % 3 : g.r.below(3));
        if (a.tag == 0)
            a.i = (int16_t)(gen<int16_t>(g) | 1);
        else if (a.tag == 1)
        {
            a.w = gen<vec<int16_t>>(g);
            if (a.w.empty())
                a.w.push_back(-3);
        }
        else
        {
            a.v = gen<vec<uint8_t>>(g);
            if (a.v.empty())
                a.v.push_back(9);
        }
        return a;
    }
    void c09_ref(std::string &out) const
    {
        ref_enc(tag, out);
        if (tag == 0)
            ref_enc(i, out);
        else if (tag == 1)
            ref_enc(w, out);
        else
            ref_enc(v, out);
    }
};
struct NCnt // count + that many members
{
    int16_t id = 0;
    uint8_t n = 0;
    int32_t m0 = 0, m1 = 0, m2 = 0;
    template <class Self, class Ar> static void sr(Self &self, Ar &ar)
    {
        ar &self.id;
        ar &self.n;
        if (self.n > 0)
            ar &self.m0;
        if (self.n > 1)
            ar &self.m1;
        if (self.n > 2)
            ar &self.m2;
    }
    template <class Ar> void serialize_reflect(Ar &ar) { sr(*this, ar); }
    template <class Ar> void serialize_reflect(Ar &ar) const { sr(*this, ar); }
    auto tie() { return std::tie(id, n, m0, m1, m2); }
    auto tie() const { return std::tie(id, n, m0, m1, m2); }
    static constexpr bool c09_custom = true;
    static constexpr size_t c09_min_cost = 3;
    static NCnt c09_gen(Gen &g)
    {
        NCnt c;
        c.id = gen<int16_t>(g);
        g.budget -= 1;
        c.n = (uint8_t)(g.r.chance(1, 2) ? 3 - g.alt++ % 4 : g.r.below(4));
        int32_t *m[3] = {&c.m0, &c.m1, &c.m2};
        for (int k = 0; k < c.n; k++)
            *m[k] = gen<int32_t>(g) | 1;
        return c;
    }
    void c09_ref(std::string &out) const
    {
        ref_enc(id, out);
        ref_enc(n, out);
        if (n > 0)
            ref_enc(m0, out);
        if (n > 1)
            ref_enc(m1, out);
        if (n > 2)
            ref_enc(m2, out);
    }
};
struct NE // conditional types as members and in a vector member
{
    NOpt o;
    vec<NCnt> cs;
    NVar v;
    vec<NOpt> os;
    template <class Self, class Ar> static void sr(Self &self, Ar &ar)
    {
        ar &self.o;
        ar &self.cs;
        ar &self.v;
        ar &self.os;
    }
    template <class Ar> void serialize_reflect(Ar &ar) { sr(*this, ar); }
    template <class Ar> void serialize_reflect(Ar &ar) const { sr(*this, ar); }
    auto tie() { return std::tie(o, cs, v, os); }
    auto tie() const { return std::tie(o, cs, v, os); }
};

// ---------------------------------------------------------------- (4) truncation through the bounded reader
template <class T> static void check_truncations(const char *tname, const T &v, vf::Rng &r, int placement)
{
    char key[180], cls[110];
    std::string enc = NewFw::enc(v);
    size_t n = enc.size();
    std::vector<size_t> cuts;
    if (n <= 96)
        for (size_t k = 0; k <= n; k++)
            cuts.push_back(k);
    else
    {
        for (size_t k = 0; k <= 40; k++)
            cuts.push_back(k);
        for (size_t k = n - 24; k <= n; k++)
            cuts.push_back(k);
        for (int i = 0; i < 24; i++)
            cuts.push_back(41 + r.below(n - 65));
    }
    if (vf::verbose())
        printf("  %s truncations of %zu bytes (%zu cut points) value=%s bytes=%s\n", tname, n, cuts.size(), shown(v).c_str(), vf::hex(enc.data(), n, 96).c_str());
    snprintf(cls, sizeof cls, "%s:truncated", tname);
    for (size_t k : cuts)
    {
        vf::Exact e(enc.data(), k, placement ? 0 : 1 + (unsigned)k % 4, placement != 0);
        vf::cls(cls);
        igris::deserialize_buffer_storage st(igris::buffer(e.cc(), k));
#ifdef C09_VALGRIND
        unsigned before = VALGRIND_COUNT_ERRORS;
#endif
        T out = igris::deserialize<T>(st);
#ifdef C09_VALGRIND
        unsigned after = VALGRIND_COUNT_ERRORS;
        if (after != before)
        {
            snprintf(key, sizeof key, "memcheck:error-inside:truncated-decode:%s", tname);
            vf::fail(key, "value=%s, %zu encoded bytes cut to %zu: memcheck reported %u error(s) while decoding (see stderr.txt of the unit)",
                     shown(v).c_str(), n, k, after - before);
        }
        VF_OK("memcheck silent while decoding truncated input");
#endif
        int av = st.avail();
        if (av < 0 || (size_t)av > k)
        {
            snprintf(key, sizeof key, "truncated:cursor-outside-input:%s", tname);
            vf::fail(key, "value=%s, %zu bytes cut to %zu: %d bytes reported available afterwards", shown(v).c_str(), n, k, av);
        }
        if (k == n && (!same(out, v) || av != 0))
        {
            snprintf(key, sizeof key, "roundtrip:%s", tname);
            vf::fail(key, "value=%s decoded=%s through the bounded reader, %d bytes left", shown(v).c_str(), shown(out).c_str(), av);
        }
        VF_OK("every truncation point decodes through the bounded reader inside the supplied bytes");
    }
    VF_MAX("truncation points of one value", cuts.size());
}
template <class T> static void run_trunc(const char *name, uint64_t batch)
{
    uint64_t salt = name_salt(name);
    int nvals = vf::thorough() ? 40 : 6;
#ifdef C09_VALGRIND
    nvals = 4;
#endif
    for (int i = 0; i < nvals; i++)
    {
        vf::Rng r(vf::seed(), salt ^ 0x7C, batch * 1000 + (uint64_t)i);
#ifdef C09_VALGRIND
        Gen g{r, 60};
#else
        Gen g{r, r.chance(1, vf::thorough() ? 200 : 30) ? 300000 : (r.chance(1, 4) ? 3000 : 120)};
#endif
        T v = gen<T>(g);
        check_truncations<T>(name, v, r, (int)((batch + (uint64_t)i) & 1));
        std::string enc = NewFw::enc(v);
        vf::count_case(vf::hash_bytes(enc.data(), enc.size(), salt ^ 0x7C), enc.size() > 2);
    }
}

#if !defined(C09_GEN_GOLDEN) && !defined(C09_VALGRIND)
static const GoldenRec GOLDEN[] = {
#include "golden_new.inc"
};
static const size_t NGOLDEN = sizeof GOLDEN / sizeof GOLDEN[0];
#else
static const GoldenRec *GOLDEN = nullptr;
static const size_t NGOLDEN = 0;
#endif
template <class T> static void gold(const char *name) { check_golden<NewFw, T>(name, GOLDEN, NGOLDEN); }
struct NewOps
{
    TypeOps ops;
    void (*trunc)(const char *, uint64_t);
    bool shallow; // a wrong count costs at most 65535 cheap elements (used by the memcheck unit)
};
#define TY(shallow, name, ...) {{"new." name, &run_type<NewFw, __VA_ARGS__>, &gold<__VA_ARGS__>, &emit_golden<NewFw, __VA_ARGS__>}, &run_trunc<__VA_ARGS__>, shallow},

static const NewOps OPS[] = {C09_TYPE_LIST};
enum
{
    NT = sizeof OPS / sizeof OPS[0]
};

#ifdef C09_GEN_GOLDEN
int main()
{
    for (const NewOps &o : OPS)
        o.ops.emit_golden(o.ops.name, stdout);
    return 0;
}
#else
#ifndef C09_VALGRIND
static uint64_t values_count() { return (uint64_t)NT * batches_per_type(); }
static void values_run(uint64_t idx) { OPS[idx % NT].ops.run(OPS[idx % NT].ops.name, idx / NT); }
static ::vf::SuiteReg reg_values(C09_PART "_values", values_count, values_run);
static uint64_t golden_count() { return NT; }
static void golden_run(uint64_t idx) { OPS[idx].ops.golden(OPS[idx].ops.name); }
static ::vf::SuiteReg reg_golden(C09_PART "_golden", golden_count, golden_run);
static uint64_t trunc_count() { return (uint64_t)NT * (vf::thorough() ? 100 : 10); }
static void trunc_run(uint64_t idx) { OPS[idx % NT].trunc(OPS[idx % NT].ops.name, idx / NT); }
static ::vf::SuiteReg reg_trunc(C09_PART "_truncated", trunc_count, trunc_run);
#else
static uint64_t trunc_count() { return (uint64_t)NT * 3; }
static void trunc_run(uint64_t idx)
{
    if (OPS[idx % NT].shallow)
        OPS[idx % NT].trunc(OPS[idx % NT].ops.name, idx / NT);
}
static ::vf::SuiteReg reg_trunc(C09_PART "_truncated_memcheck", trunc_count, trunc_run);
#endif

#ifdef C09_NEW_SETUP
void c09_new_setup()
{
    vf::require("every truncation point decodes through the bounded reader inside the supplied bytes");
#ifdef C09_VALGRIND
    vf::require("memcheck silent while decoding truncated input");
    if (!RUNNING_ON_VALGRIND)
    {
        fprintf(stderr, "C09 trunc_vg unit: not running under valgrind\n");
        _exit(2);
    }
#endif
}
#ifdef C09_VALGRIND
extern "C" void vf_setup() { c09_new_setup(); }
#endif
#endif
#endif
