// C09 — archive.h/stdtypes.h front end, part 4: user types exposing reflect(), alone and inside containers.
#define C09_PART "old_structs"
#define C09_TYPE_LIST TY("A", A) TY("B", B) TY("C", C) TY("D", D) TY("vector<B>", vec<B>) TY("map<i32,C>", map<int32_t, C>)
#include "old_impl.h"
