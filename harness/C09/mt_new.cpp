// C09 (TSan unit) — serialize_archive.h front end, see mt_impl.h.
#include "new_fw.h"
#include "mt_impl.h"
#define J(name, ...) [](vf::Rng &r) { return mt_job<NewFw, __VA_ARGS__>(name, r); }
static const MtFactory MENU[] = {
    J("i32", int32_t), J("vector<i32>", vec<int32_t>), J("T2", T2), J("vector<NOpt>", vec<NOpt>), J("NNode", NNode), J("vector<vector<i16>>", vec<vec<int16_t>>),
};
static uint64_t count() { return vf::thorough() ? 400 : 24; }
static void run(uint64_t idx) { mt_case("new", MENU, sizeof MENU / sizeof MENU[0], idx); }
VF_SUITE(new_concurrent, count, run)
void c09_mt_new_setup() {}
