// C09 — archive.h/stdtypes.h front end, part 2: vectors, nested to depth 3.
#define C09_PART "old_vectors"
#define C09_TYPE_LIST                                                                                                  \
    TY("vector<u8>", vec<uint8_t>) TY("vector<i16>", vec<int16_t>) TY("vector<i32>", vec<int32_t>)                      \
    TY("vector<u64>", vec<uint64_t>) TY("vector<f64>", vec<double>) TY("vector<string>", vec<str>)                      \
    TY("vector<vector<i16>>", vec<vec<int16_t>>) TY("vector<vector<string>>", vec<vec<str>>)                            \
    TY("vector<pair<i32,string>>", vec<pair<int32_t, str>>) TY("vector<tuple<u8,f32>>", vec<tuple<uint8_t, float>>)     \
    TY("vector<A>", vec<A>)
#include "old_impl.h"
