// C02 units "vector"/"portable": vector<vf::Tracked> suites and the main TU of the unit.
#include <cassert> // before vf.h: vf.h defines __assert_fail and must see the libc declaration first
#define VF_MAIN
#include "c02_vec.h"
C02_VEC_SUITES(vf::Tracked, tracked)
extern "C" void vf_setup() { c02::require_vector_clauses(); }
